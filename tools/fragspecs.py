"""Fragment tables for tools/py2v.py, assembled from tools/frags/*.py (one module per area, each
defining FILES = {generated file name: [fragment specs]})."""
import importlib.util
import os

FILES = {}
_d = os.path.join(os.path.dirname(os.path.abspath(__file__)), "frags")
for _fn in sorted(os.listdir(_d)):
    if _fn.endswith(".py") and not _fn.startswith("_"):
        _sp = importlib.util.spec_from_file_location("frags_" + _fn[:-3], os.path.join(_d, _fn))
        _m = importlib.util.module_from_spec(_sp)
        _sp.loader.exec_module(_m)
        for _k, _v in _m.FILES.items():
            assert _k not in FILES, _k
            FILES[_k] = _v
