"""sched — a deterministic cooperative scheduler for real Python threads (C13).

Every worker is a real `threading.Thread`, gated so that exactly one runs at a time.  A per-thread
trace function (sys.settrace inside each worker, threading.settrace for threads started meanwhile)
receives the `line` events of the frames whose file lies under the library root; at the lines
selected as *scheduling points* the running thread hands control back to the controller and blocks.
The controller follows the schedule (a list of thread ids) exactly: entry i means "let thread i
run up to its next scheduling point (or to its end)".  Everything between two line events — in
particular every C-level call (dict/deque/defaultdict operations, NumPy, compiled kernels) — stays
atomic, exactly as under the GIL.

    s = Scheduler(points)                 # points: set of (file, code name, line) or None = every line
    r = s.run([fn0, fn1, ...], schedule)  # -> Execution(trace, enabled, stalled, schedule_followed)

`schedule` entries naming a finished thread are skipped (recorded); when the schedule is exhausted
the remaining threads are run to completion in thread-id order, still one at a time.

`explore(make_fns, points, ...)` enumerates EVERY interleaving (stateless depth-first search:
re-execute from a fresh state, follow a prefix of choices, then the default policy).
"""
import os
import sys
import threading
import time


class Execution:
    __slots__ = ("trace", "enabled", "stalled", "skipped", "labels")

    def __init__(self):
        self.trace = []      # thread id granted at each step
        self.enabled = []    # tuple of unfinished thread ids at each step
        self.labels = []     # (file, code name, line) at which the granted thread was waiting, or "start"
        self.stalled = False
        self.skipped = 0     # schedule entries that named a finished thread


class Scheduler:
    def __init__(self, points=None, root="/repo/sparse", stall_timeout=60.0):
        self.points = None if points is None else set(points)
        self.root = os.path.realpath(root) + os.sep
        self.stall_timeout = stall_timeout
        self._files = None if points is None else {p[0] for p in self.points}
        self._names = None if points is None else {p[1] for p in self.points}

    # ------------------------------------------------------------------ tracing
    def _make_tracer(self, tid):
        points, files, names, root = self.points, self._files, self._names, self.root
        sched = self

        if points is None:
            def local(frame, event, arg):
                if event == "line":
                    sched._yield(tid, (frame.f_code.co_filename, frame.f_code.co_name, frame.f_lineno))
                return local

            def glob(frame, event, arg):
                if event == "call" and frame.f_code.co_filename.startswith(root):
                    return local
                return None
        else:
            def local(frame, event, arg):
                if event == "line":
                    key = (frame.f_code.co_filename, frame.f_code.co_name, frame.f_lineno)
                    if key in points:
                        sched._yield(tid, key)
                return local

            def glob(frame, event, arg):
                if event == "call":
                    co = frame.f_code
                    if co.co_name in names and co.co_filename in files:
                        return local
                return None
        return glob

    def _yield(self, tid, where):
        if self._free:
            return
        self._where[tid] = where
        self._ctrl.release()
        self._gates[tid].acquire()

    # ------------------------------------------------------------------ running
    def run(self, fns, schedule=(), chooser=None):
        """fns: one callable per thread.  schedule: thread ids, followed exactly; afterwards
        `chooser(enabled, step)` (default: lowest id) picks.  Returns an Execution."""
        n = len(fns)
        self._gates = [threading.Semaphore(0) for _ in range(n)]
        self._ctrl = threading.Semaphore(0)
        self._where = ["start"] * n
        self._free = False
        done = [False] * n
        ex = Execution()
        me = self

        def body(i):
            me._gates[i].acquire()
            tr = me._make_tracer(i)
            sys.settrace(tr)
            try:
                fns[i]()
            finally:
                sys.settrace(None)
                done[i] = True
                me._where[i] = "end"
                me._ctrl.release()

        # threads started while we run (by the library itself) are traced too: they inherit no
        # slot in the schedule and run freely, but never concurrently with a *granted* worker's
        # Python code that the GIL would not also allow.
        old = threading.gettrace() if hasattr(threading, "gettrace") else None

        def boot(frame, event, arg):
            tid = getattr(threading.current_thread(), "_sched_tid", None)
            return None if tid is None else me._make_tracer(tid)(frame, event, arg)
        threading.settrace(boot)
        ths = [threading.Thread(target=body, args=(i,), daemon=True) for i in range(n)]
        for i, t in enumerate(ths):
            t._sched_tid = i
        for t in ths:
            t.start()
        pos = 0
        schedule = list(schedule)
        step = 0
        while True:
            enabled = tuple(i for i in range(n) if not done[i])
            if not enabled:
                break
            pick = None
            while pos < len(schedule):
                c = schedule[pos]
                pos += 1
                if 0 <= c < n and not done[c]:
                    pick = c
                    break
                ex.skipped += 1
            if pick is None:
                pick = chooser(enabled, step) if chooser else enabled[0]
            ex.trace.append(pick)
            ex.enabled.append(enabled)
            ex.labels.append(self._where[pick])
            self._gates[pick].release()
            if not self._ctrl.acquire(timeout=self.stall_timeout):
                # the granted thread is blocked on something a suspended thread holds (or hangs):
                # give up determinism, let everybody run freely, and say so.
                ex.stalled = True
                self._free = True
                for g in self._gates:
                    g.release()
                break
            step += 1
        for t in ths:
            t.join(timeout=self.stall_timeout)
            if t.is_alive():
                ex.stalled = True
        threading.settrace(old)
        return ex


def explore(make_fns, points, max_execs=None, root="/repo/sparse", stall_timeout=60.0, deadline=None):
    """Enumerate every interleaving.  make_fns() must build a FRESH state and return
    (fns, collect) where collect() returns whatever the caller wants to keep of that execution.
    Yields (Execution, collected).  Complete iff the generator ends without hitting max_execs/deadline
    (the caller can tell from the returned flag of the last item: see `ExploreState`)."""
    st = ExploreState()
    prefix = []
    stack = []   # per decision: [enabled tuple, index of the choice taken]
    while True:
        if (max_execs is not None and st.executions >= max_execs) or (deadline and time.time() > deadline):
            st.complete = False
            return
        fns, collect = make_fns()
        s = Scheduler(points, root=root, stall_timeout=stall_timeout)
        ex = s.run(fns, prefix)
        st.executions += 1
        # rebuild the stack along this execution
        new_stack = []
        for d, (en, ch) in enumerate(zip(ex.enabled, ex.trace, strict=True)):
            if d < len(stack) and d < len(prefix):
                assert stack[d][0] == en, "non-deterministic execution: enabled set changed on replay"
                new_stack.append(stack[d])
            else:
                new_stack.append([en, en.index(ch)])
        stack = new_stack
        yield ex, collect(), st
        # backtrack
        while stack and stack[-1][1] + 1 >= len(stack[-1][0]):
            stack.pop()
        if not stack:
            st.complete = True
            return
        stack[-1][1] += 1
        prefix = [en[ix] for en, ix in stack]


class ExploreState:
    def __init__(self):
        self.executions = 0
        self.complete = None
