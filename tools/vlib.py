"""vlib — shared machinery of the checks: scratch Coq builds, Coq literal printing, evaluation
of generated case files inside Coq, worker pool for the implementation side, evidence."""
import hashlib
import json
import multiprocessing as mp
import os
import re
import shutil
import subprocess
import sys
import time

VERIF = os.path.dirname(os.path.dirname(os.path.abspath(__file__)))
REPO = os.environ.get("VERIF_REPO", "/repo")
COQ_SRC = os.path.join(VERIF, "coq")
PY = "/venv/bin/python"
HYGIENE_RE = re.compile(
    r"\b(Admitted|admit|Axiom|Axioms|Parameter|Parameters|Conjecture|Hypothesis|Variable|Variables)\b"
    r"|Unset\s+Guard|bypass_check|type-in-type|impredicative-set|Admit\s+Obligations|Unset\s+Universe")


def env_clean():
    e = dict(os.environ)
    e["PYTHONPATH"] = REPO
    e["PYTHONHASHSEED"] = "0"
    e.setdefault("NUMBA_NUM_THREADS", "1")
    return e


# ------------------------------------------------------------------ Coq literals
def vZ(z):
    z = int(z)
    return f"({z})" if z < 0 else str(z)


def vbool(b):
    return "true" if b else "false"


def vlist(xs, f=vZ):
    return "[" + "; ".join(f(x) for x in xs) + "]"


def vopt(x, f=vZ):
    return "None" if x is None else f"(Some {f(x)})"


def vpair(*xs):
    return "(" + ", ".join(xs) + ")"


def vnat(n):
    return f"{int(n)}%nat"


# ------------------------------------------------------------------ scratch build
class Build:
    """A scratch copy of coq/ with Gen/ regenerated from REPO's working tree."""

    def __init__(self, tag):
        self.dir = os.path.join(VERIF, "build", tag)
        self.log = []
        self.gen_report = {}
        self.broken = []          # list of (kind, name, detail)

    def prepare(self, regenerate=True):
        """regenerate=False keeps the committed reference copies of Gen/ (the definitions generated from
        the unchanged tree at the last commit): used only to SEARCH for a concrete failing input when the
        regenerated development no longer builds."""
        if os.path.exists(self.dir):
            shutil.rmtree(self.dir)
        os.makedirs(os.path.dirname(self.dir), exist_ok=True)
        # copy sources and any prebuilt .vo (setup_cmd builds them in coq/)
        subprocess.run(["rsync", "-a", "--exclude", "*.aux", "--exclude", ".*.aux", "--exclude", "*.glob",
                        COQ_SRC + "/", self.dir + "/"], check=True)
        if regenerate:
            self.regenerate()
        # the project file is derived from the files present in the scratch copy (never trusted from coq/:
        # it goes stale when a file is added or removed)
        subprocess.run(["sh", os.path.join(VERIF, "tools", "mkproject.sh"), self.dir], check=False,
                       stdout=subprocess.DEVNULL, stderr=subprocess.DEVNULL)
        if not os.path.exists(os.path.join(self.dir, "Makefile")):
            self.sh("coq_makefile -f _CoqProject -o Makefile", 120)

    def regenerate(self):
        sys.path.insert(0, os.path.join(VERIF, "tools"))
        import fragspecs
        import py2v
        gen = os.path.join(self.dir, "Gen")
        os.makedirs(gen, exist_ok=True)
        for fname, specs in fragspecs.FILES.items():
            text, rep = py2v.generate(REPO, specs)
            self._write_if_changed(os.path.join(gen, fname), text)
            self.gen_report[fname] = rep
            for k, v in rep.items():
                if v["status"] != "ok":
                    self.broken.append(("fragment", k, v.get("error", ""), [fname]))
        # site extractors: tools/sitegen/*.py, each with generate(repo) -> ({file name: coq text}, report)
        sg = os.path.join(VERIF, "tools", "sitegen")
        if os.path.isdir(sg):
            import importlib.util
            for fn in sorted(os.listdir(sg)):
                if not fn.endswith(".py") or fn.startswith("_"):
                    continue
                sp = importlib.util.spec_from_file_location("sitegen_" + fn[:-3], os.path.join(sg, fn))
                m = importlib.util.module_from_spec(sp)
                try:
                    sp.loader.exec_module(m)
                    files, rep = m.generate(REPO)
                except Exception as ex:  # noqa: BLE001  (fail-closed: record, keep going)
                    self.broken.append(("site", fn, f"{type(ex).__name__}: {ex}", ["S_" + fn[:-3] + ".v"]))
                    continue
                for name, text in files.items():
                    self._write_if_changed(os.path.join(gen, name), text)
                self.gen_report[fn] = rep
                for k, v in rep.items():
                    if isinstance(v, dict) and v.get("status") == "failed":
                        self.broken.append(("site", k, v.get("error", ""), list(files.keys())))

    def module_files(self):
        """short module name -> path relative to the scratch dir"""
        out = {}
        for root, _d, files in os.walk(self.dir):
            for fn in files:
                if fn.endswith(".v"):
                    out[fn[:-2]] = os.path.relpath(os.path.join(root, fn), self.dir)
        return out

    def closure(self, roots):
        """transitive `Require Import` closure (files of this development only) of the given .v files"""
        mf = self.module_files()
        seen, todo = set(), list(roots)
        while todo:
            f = todo.pop()
            if f in seen or not os.path.exists(os.path.join(self.dir, f)):
                continue
            seen.add(f)
            txt = strip_comments(open(os.path.join(self.dir, f)).read())
            for m in re.finditer(r"Require\s+(?:Import|Export)\s+([^.]*(?:\.[A-Za-z][^.]*)*)\.\s", txt + " "):
                for name in m.group(1).split():
                    short = name.split(".")[-1]
                    if short in mf:
                        todo.append(mf[short])
        return seen

    def ensure_modules(self, imports):
        """full .vo build of every module of this development named in an import string"""
        mf = self.module_files()
        names = set()
        for m in re.finditer(r"Require\s+(?:Import|Export)\s+([^.]*(?:\.[A-Za-z][^.]*)*)\.", imports):
            for name in m.group(1).split():
                short = name.split(".")[-1]
                if short in mf:
                    names.add(short)
        names -= getattr(self, "_built", set())
        if names:
            ok, out = self.make([mf[n][:-2] + ".vo" for n in sorted(names)], timeout=1500)
            if not ok:
                raise CoqEvalError("build of judge modules failed:\n" + "\n".join(out.splitlines()[-20:]))
            self._built = getattr(self, "_built", set()) | names
        return names

    def changed_gen(self):
        """names of generated files that differ from the committed reference copy in coq/Gen"""
        out = []
        for fname in sorted(os.listdir(os.path.join(self.dir, "Gen"))):
            if not fname.endswith(".v"):
                continue
            ref = os.path.join(COQ_SRC, "Gen", fname)
            new = open(os.path.join(self.dir, "Gen", fname)).read()
            old = open(ref).read() if os.path.exists(ref) else None
            if old != new:
                out.append(fname)
        return out

    @staticmethod
    def _write_if_changed(path, text):
        old = open(path).read() if os.path.exists(path) else None
        if old != text:
            with open(path, "w") as f:
                f.write(text)

    def sh(self, cmd, timeout):
        t0 = time.time()
        try:
            p = subprocess.run(cmd, shell=True, cwd=self.dir, capture_output=True, text=True, timeout=timeout)
            out = p.stdout + p.stderr
            rc = p.returncode
        except subprocess.TimeoutExpired as ex:
            out = (ex.stdout or b"").decode(errors="replace") if isinstance(ex.stdout, bytes) else (ex.stdout or "")
            out += "\nTIMEOUT"
            rc = 124
        out = "\n".join(l for l in out.splitlines() if "conda" not in l)
        self.log.append((cmd, rc, round(time.time() - t0, 1), out[-4000:]))
        return rc, out

    def make(self, targets, timeout=1500, jobs=16):
        """full .vo build of the given targets (never -vos). Returns (ok, output)."""
        rc, out = self.sh(f"make -j{jobs} {' '.join(targets)}", timeout)
        return rc == 0, out

    def compile_props(self, prop_file, timeout=900):
        """(re)build one Props file and everything it depends on (full .vo build), then compile the Props
        file itself once more on its own so that the captured `Print Assumptions` output is that file's
        only (a dependency that is another property's Props file prints its own).
        Returns (ok, [assumption blocks in order], output)."""
        vo = os.path.join(self.dir, prop_file[:-2] + ".vo")
        if os.path.exists(vo):
            os.remove(vo)
        ok, out = self.make([prop_file[:-2] + ".vo"], timeout)
        if not ok:
            return ok, parse_assumptions(out), out
        os.remove(vo)
        rc, out2 = self.sh(f"timeout {int(timeout)} coqc -Q . Verif {prop_file}", timeout + 30)
        return rc == 0, parse_assumptions(out2), out + "\n" + out2

    def hygiene(self, only=None):
        """forbidden vernacular in the scratch development (comments stripped); `only`: restrict to
        these files (relative paths) — the import closure of the property's theorems and judges"""
        bad = []
        for root, _d, files in os.walk(self.dir):
            for fn in files:
                if fn.endswith(".v"):
                    p = os.path.join(root, fn)
                    if only is not None and os.path.relpath(p, self.dir) not in only:
                        continue
                    txt = strip_comments(open(p).read())
                    depth = 0
                    for i, line in enumerate(txt.splitlines(), 1):
                        if re.match(r"\s*Section\s+\w+\s*\.", line):
                            depth += 1
                        m = HYGIENE_RE.search(line)
                        if m and not (depth > 0 and m.group(1) in ("Variable", "Variables", "Hypothesis")):
                            bad.append(f"{os.path.relpath(p, self.dir)}:{i}: {line.strip()[:100]}")
                        if re.match(r"\s*End\s+\w+\s*\.", line) and depth > 0:
                            depth -= 1
        for fn in ("_CoqProject", "Makefile.conf"):
            p = os.path.join(self.dir, fn)
            if os.path.exists(p) and re.search(r"type-in-type|impredicative-set|-vos|-vok", open(p).read()):
                bad.append(fn + ": forbidden flag")
        return bad

    def eval_cases(self, name, header, body_chunks, timeout=300, jobs=16):
        """Write Corr/<name>_<k>.v = header + chunk, run coqc on each in parallel, return the
        list of outputs (one string per chunk) or raises on Coq error."""
        # the modules the case files import must be (re)built against the regenerated Gen files first
        self.ensure_modules(header)
        self.judge_modules = getattr(self, "judge_modules", set()) | set(
            " ".join(re.findall(r"Require\s+(?:Import|Export)\s+([^.]+)\.", header)).split())
        cdir = os.path.join(self.dir, "Corr")
        os.makedirs(cdir, exist_ok=True)
        files = []
        for k, chunk in enumerate(body_chunks):
            p = os.path.join(cdir, f"{name}_{k}.v")
            with open(p, "w") as f:
                f.write(header + "\n" + chunk + "\n")
            files.append(p)
        outs = [None] * len(files)
        procs = []

        def start(i):
            return subprocess.Popen(["timeout", str(timeout), "coqc", "-Q", self.dir, "Verif", files[i]],
                                    stdout=subprocess.PIPE, stderr=subprocess.STDOUT, text=True, cwd=self.dir)
        pending = list(range(len(files)))
        running = {}
        while pending or running:
            while pending and len(running) < jobs:
                i = pending.pop(0)
                running[i] = start(i)
            done = [i for i, p in running.items() if p.poll() is not None]
            if not done:
                time.sleep(0.05)
                continue
            for i in done:
                p = running.pop(i)
                out = p.stdout.read()
                out = "\n".join(l for l in out.splitlines() if "conda" not in l)
                if p.returncode != 0:
                    raise CoqEvalError(f"coqc failed on {files[i]} (rc={p.returncode}):\n{out[-3000:]}")
                outs[i] = out
        return outs

    def judge(self, name, imports, case_type, judge_fn, lits, chunk=500, timeout=300):
        """Evaluate `run_judge judge_fn cases` inside Coq over the given case literals (strings of
        Coq type case_type).  Returns [(case index, verdict code)] for the non-zero verdicts."""
        header = ("From Coq Require Import ZArith List Bool.\n" + imports + "\nFrom Verif Require Import Judge.\n"
                  "Import ListNotations.\nOpen Scope Z_scope.\nSet Printing Width 1000000.\nSet Printing Depth 1000000.\n")
        chunks = []
        for k in range(0, len(lits), chunk):
            chunks.append(f"Definition cases : list ({case_type}) := [\n" + ";\n".join(lits[k:k + chunk]) +
                          f"].\nEval vm_compute in (run_judge ({judge_fn}) cases).")
        outs = self.eval_cases(name, header, chunks, timeout=timeout)
        res = []
        for k, out in enumerate(outs):
            ev = parse_eval_lists(out)
            if len(ev) != 1:
                raise CoqEvalError(f"unexpected Coq output for {name}_{k}: {out[-800:]}")
            for m in re.finditer(r"\(\s*(-?\d+)\s*,\s*(-?\d+)\s*\)", ev[0]):
                res.append((k * chunk + int(m.group(1)), int(m.group(2))))
        return res

    def cleanup(self):
        shutil.rmtree(self.dir, ignore_errors=True)


class CoqEvalError(Exception):
    pass


def strip_comments(txt):
    out, depth, i = [], 0, 0
    while i < len(txt):
        if txt.startswith("(*", i):
            depth += 1
            i += 2
        elif txt.startswith("*)", i) and depth:
            depth -= 1
            i += 2
        else:
            if depth == 0:
                out.append(txt[i])
            elif txt[i] == "\n":
                out.append("\n")
            i += 1
    return "".join(out)


def parse_assumptions(out):
    """coqc output of `Print Assumptions t.` preceded by our marker `(*PA t*)` idtac lines:
    we emit, in Props files,  `Print Assumptions t.` right after each theorem, so the output is a
    sequence of blocks 'Closed under the global context' | 'Axioms:\\n ...'.  We pair them with
    theorem names by order using the marker lines printed by `Check t.` hmm — simpler: Props files
    use  `Print Assumptions t.` only, and we recover names from the order of theorems in the file."""
    blocks = []
    cur = None
    for line in out.splitlines():
        if line.startswith("Closed under the global context"):
            blocks.append("closed")
            cur = None
        elif line.startswith("Axioms:"):
            cur = []
            blocks.append(cur)
        elif cur is not None:
            if line.startswith(" ") or line.strip() == "":
                if line.strip():
                    cur.append(line.strip())
            else:
                cur = None
    return [b if b == "closed" else " ".join(b) for b in blocks]


def theorems_in(path):
    txt = strip_comments(open(path).read())
    return re.findall(r"^\s*(?:Theorem|Lemma|Corollary)\s+([A-Za-z0-9_']+)", txt, re.M)


def print_assumptions_in(path):
    txt = strip_comments(open(path).read())
    return re.findall(r"^\s*Print Assumptions\s+([A-Za-z0-9_'.]+)\s*\.", txt, re.M)


# ------------------------------------------------------------------ Coq output parsing
def parse_eval_lists(out):
    """all `= <term> : <type>` results printed by Eval, as raw strings (whitespace-normalised)"""
    res = []
    for m in re.finditer(r"^\s*=\s(.*?)\n\s*:\s", out, re.S | re.M):
        res.append(" ".join(m.group(1).split()))
    return res


def parse_nat_list(s):
    s = s.strip()
    assert s.startswith("[") and s.endswith("]"), s[:200]
    inner = s[1:-1].strip()
    if not inner:
        return []
    return [int(x.replace("%nat", "").strip()) for x in inner.split(";")]


# ------------------------------------------------------------------ worker pool (implementation side)
def _worker(modname, fname, conn):
    sys.path.insert(0, os.path.join(VERIF, "tools"))
    sys.path.insert(0, REPO)
    import importlib
    import warnings
    warnings.filterwarnings("ignore")
    mod = importlib.import_module(modname)
    fn = getattr(mod, fname)
    while True:
        try:
            item = conn.recv()
        except EOFError:
            return
        if item is None:
            return
        i, case = item
        try:
            r = fn(case)
        except BaseException as ex:  # noqa: BLE001
            r = {"exc": type(ex).__name__, "msg": str(ex)[:200]}
        try:
            conn.send((i, r))
        except Exception as ex:  # noqa: BLE001  (unpicklable result)
            conn.send((i, {"exc": "HarnessError", "msg": f"result not transferable: {ex}"[:200]}))


def run_impl(modname, fname, cases, workers=12, per_case_timeout=30.0):
    """Run mod.fname(case) for every case in worker processes (PYTHONPATH=REPO).  The parent hands
    one case at a time to each idle worker over its own pipe, so it always knows which case a worker
    holds: a case that exceeds per_case_timeout is recorded as {'hang': True} and its worker is killed
    (nogil kernels cannot be interrupted from inside); a worker that dies is recorded as
    {'crash': exitcode} for the case it held.  The watchdog fires after 4 x per_case_timeout (import and
    JIT compilation of a new kernel can fall on any case; campaigns were tuned with that factor).
    Returns the list of results in order."""
    from multiprocessing.connection import wait as mp_wait
    ctx = mp.get_context("spawn")
    os.environ["PYTHONPATH"] = REPO
    os.environ["PYTHONHASHSEED"] = "0"
    os.environ.setdefault("NUMBA_NUM_THREADS", "1")
    n = len(cases)
    results = [None] * n
    if n == 0:
        return results

    class W:
        pass

    ws = []

    def spawn():
        w = W()
        parent, child = ctx.Pipe()
        w.proc = ctx.Process(target=_worker, args=(modname, fname, child), daemon=True)
        w.proc.start()
        child.close()
        w.conn, w.case, w.t0, w.warm = parent, None, 0.0, False
        ws.append(w)
        return w

    def retire(w, kill=False):
        try:
            if kill:
                w.proc.kill()
            w.conn.close()
        except Exception:  # noqa: BLE001
            pass
        if w in ws:
            ws.remove(w)

    for _ in range(min(workers, n)):
        spawn()
    next_i, done = 0, 0
    while done < n:
        now = time.time()
        for w in list(ws):
            if w.case is None and next_i < n:
                try:
                    w.conn.send((next_i, cases[next_i]))
                    w.case, w.t0 = next_i, now
                    next_i += 1
                except (BrokenPipeError, OSError):
                    retire(w, kill=True)
                    spawn()
        busy = [w for w in ws if w.case is not None]
        ready = mp_wait([w.conn for w in busy], timeout=0.5) if busy else []
        now = time.time()
        for w in busy:
            if w.conn in ready:
                try:
                    i, r = w.conn.recv()
                    results[i] = r
                    done += 1
                    w.case, w.warm = None, True
                except (EOFError, OSError):
                    w.proc.join(timeout=1)
                    results[w.case] = {"crash": w.proc.exitcode}
                    done += 1
                    retire(w, kill=True)
                    spawn()
            elif now - w.t0 > per_case_timeout * 4:
                results[w.case] = {"hang": True}
                done += 1
                retire(w, kill=True)
                spawn()
    for w in list(ws):
        try:
            w.conn.send(None)
        except Exception:  # noqa: BLE001
            pass
    for w in list(ws):
        w.proc.join(timeout=2)
        if w.proc.is_alive():
            w.proc.kill()
        try:
            w.conn.close()
        except Exception:  # noqa: BLE001
            pass
    return results


# ------------------------------------------------------------------ evidence / findings
def load_known_findings():
    p = os.path.join(VERIF, "known_findings.json")
    if not os.path.exists(p):
        return []
    return json.load(open(p)).get("findings", [])


def match_finding(findings, prop, viol):
    for f in findings:
        if f.get("property") != prop or f.get("status", "open") != "open":
            continue
        if all(viol.get(k) == v for k, v in f.get("match", {}).items()):
            return f
    return None


def evidence_dir():
    """/verif/evidence, unless VERIF_EVIDENCE_DIR redirects it (tools/seeded_run.py does, so that runs against
    seeded changes never overwrite the evidence of the unchanged tree)."""
    return os.environ.get("VERIF_EVIDENCE_DIR") or os.path.join(VERIF, "evidence")


def write_evidence(prop, ev):
    os.makedirs(evidence_dir(), exist_ok=True)
    p = os.path.join(evidence_dir(), f"{prop}.json")
    with open(p, "w") as f:
        json.dump(ev, f, indent=1, sort_keys=True, default=str)
    try:
        import jsonschema
        schema = json.load(open("/root/.vp/EVIDENCE.schema.json"))
        jsonschema.validate(json.load(open(p)), schema)
    except ImportError:
        pass
    except FileNotFoundError:
        pass
    return p


def digest(obj):
    return hashlib.sha256(json.dumps(obj, sort_keys=True, default=str).encode()).hexdigest()[:12]


# ------------------------------------------------------------------ implementation objects -> plain data -> Coq SArr literals
EXC_ENUM = {"ValueError", "IndexError", "TypeError", "ZeroDivisionError", "RuntimeError",
            "NotImplementedError", "OverflowError"}


def val_token(v):
    """an element value as an integer: integers (and integer-valued floats, bools) stand for
    themselves; any other float/complex is an opaque token 2^70 + bit pattern (so NaN == NaN
    and -0.0 != 0.0, like the code's `equivalent`)."""
    import struct

    import numpy as np
    if isinstance(v, (bool, np.bool_)):
        return int(v)
    if isinstance(v, (int, np.integer)):
        return int(v)
    if isinstance(v, (complex, np.complexfloating)):
        c = complex(v)
        if c.imag == 0 and c.real == int(c.real) and not (c.real == 0 and str(c.real).startswith("-")):
            return int(c.real)
        return (1 << 70) + (struct.unpack("<Q", struct.pack("<d", c.real))[0] ^ (struct.unpack("<Q", struct.pack("<d", c.imag))[0] * 3 & ((1 << 64) - 1)))
    f = float(v)
    if f == f and f not in (float("inf"), float("-inf")) and f == int(f) and not (f == 0 and str(f).startswith("-")):
        return int(f)
    return (1 << 70) + struct.unpack("<Q", struct.pack("<d", f))[0]


def plain(obj):
    """Run inside the implementation worker: turn a result (sparse array, ndarray, scalar,
    exception instance) into a JSON-able dict holding its concrete representation."""
    import numpy as np
    try:
        import scipy.sparse as sps
    except ImportError:
        sps = None
    import sparse
    if isinstance(obj, BaseException):
        n = type(obj).__name__
        return {"k": "exc", "exc": n if n in EXC_ENUM else "OtherError", "cls": n, "msg": str(obj)[:160]}
    if isinstance(obj, sparse.COO):
        return {"k": "coo", "shape": [int(d) for d in obj.shape],
                "coords": [[int(v) for v in col] for col in np.asarray(obj.coords).T.tolist()] if obj.ndim else [[] for _ in range(obj.nnz)],
                "data": [val_token(v) for v in obj.data], "fill": val_token(obj.fill_value),
                "dtype": str(obj.dtype), "idx_dtype": str(obj.coords.dtype)}
    if isinstance(obj, sparse.GCXS):
        ca = obj.compressed_axes
        return {"k": "gcxs", "shape": [int(d) for d in obj.shape], "caxes": [] if ca is None else [int(a) for a in ca],
                "data": [val_token(v) for v in obj.data], "indices": [int(v) for v in np.asarray(obj.indices).reshape(-1)],
                "indptr": [int(v) for v in np.asarray(obj.indptr).reshape(-1)] if obj.indptr is not None and len(np.shape(obj.indptr)) else [],
                "fill": val_token(obj.fill_value), "dtype": str(obj.dtype), "cls": type(obj).__name__,
                "idx_dtype": str(np.asarray(obj.indices).dtype)}
    if isinstance(obj, sparse.DOK):
        items = sorted(((tuple(int(i) for i in k), val_token(v)) for k, v in obj.data.items()))
        return {"k": "dok", "shape": [int(d) for d in obj.shape], "items": [[list(k), v] for k, v in items],
                "fill": val_token(obj.fill_value), "dtype": str(obj.dtype)}
    if sps is not None and sps.issparse(obj):
        d = np.asarray(obj.todense())
        return {"k": "dense", "shape": list(d.shape), "flat": [val_token(v) for v in d.reshape(-1)], "dtype": str(d.dtype), "cls": "scipy"}
    if isinstance(obj, np.ndarray):
        return {"k": "dense", "shape": [int(d) for d in obj.shape], "flat": [val_token(v) for v in obj.reshape(-1)], "dtype": str(obj.dtype)}
    if isinstance(obj, (int, float, complex, bool, np.generic)):
        return {"k": "scalar", "v": val_token(obj), "dtype": str(getattr(obj, "dtype", type(obj).__name__))}
    return {"k": "other", "repr": repr(obj)[:120]}


def dense_of(p):
    """(shape, flat) dense meaning of a plain() dict computed independently in Python (for messages)."""
    return p.get("shape"), p.get("flat")


def sarr_lit(p):
    """Coq literal (type sarr of Corr/SArr.v) of a plain() dict or a run_impl failure marker."""
    if p is None or p.get("hang"):
        return "SHang"
    if "crash" in p:
        return "(SExc OtherError)"
    k = p.get("k")
    if k is None and "exc" in p:
        n = p["exc"]
        return f"(SExc {n if n in EXC_ENUM else 'OtherError'})"
    if k == "exc":
        return f"(SExc {p['exc']})"
    if k == "coo":
        return ("(SCoo (mkCOO %s %s %s %s))" % (vlist(p["shape"]), vlist(p["coords"], vlist), vlist(p["data"]), vZ(p["fill"])))
    if k == "gcxs":
        return ("(SGcxs (mkGCXS %s %s %s %s %s %s))" % (vlist(p["shape"]), vlist(p["caxes"]), vlist(p["data"]),
                                                      vlist(p["indices"]), vlist(p["indptr"]), vZ(p["fill"])))
    if k == "dok":
        return "(SDok %s %s %s)" % (vlist(p["shape"]), vlist(p["items"], lambda kv: vpair(vlist(kv[0]), vZ(kv[1]))), vZ(p["fill"]))
    if k == "dense":
        return "(SDense (mkDense %s %s))" % (vlist(p["shape"]), vlist(p["flat"]))
    if k == "scalar":
        return f"(SScalar {vZ(p['v'])})"
    return "SOther"


def dense_lit(arr):
    """Coq `dense Z` literal of a NumPy array (integer-valued)."""
    import numpy as np
    a = np.asarray(arr)
    return "(mkDense %s %s)" % (vlist([int(d) for d in a.shape]), vlist([val_token(v) for v in a.reshape(-1)]))


# ------------------------------------------------------------------ shared input generator
def gen_array_spec(rng, ndim=None, extents=(0, 1, 2, 3), fills=(0,), formats=("coo",), density=None,
                   values=(-3, -2, -1, 1, 2, 3, 4, 5), min_ndim=0, max_ndim=4, shape=None):
    """A small random sparse array described by plain data (deterministic in rng):
    {shape, coords (sorted list of index tuples), data, fill, format, caxes}.  Data never equals
    the fill; patterns range over empty / single / partial / full."""
    import itertools
    if shape is None:
        if ndim is None:
            ndim = rng.randint(min_ndim, max_ndim)
        shape = [rng.choice(extents) for _ in range(ndim)]
    shape = list(shape)
    ndim = len(shape)
    fill = rng.choice(fills)
    allidx = list(itertools.product(*[range(d) for d in shape]))
    if density is None:
        density = rng.choice([0.0, 0.15, 0.4, 0.7, 1.0])
    if density >= 1.0:
        pos = allidx
    else:
        pos = [ix for ix in allidx if rng.random() < density]
    vals = [v for v in values if v != fill]
    data = [rng.choice(vals) for _ in pos]
    fmt = rng.choice(formats)
    caxes = None
    if fmt == "gcxs" and ndim >= 2:
        k = rng.randint(1, ndim - 1)
        caxes = sorted(rng.sample(range(ndim), k))   # the library requires sorted compressed axes
    return {"shape": shape, "coords": [list(p) for p in pos], "data": data, "fill": fill, "format": fmt, "caxes": caxes}


def build_array(spec, dtype=None, idx_dtype=None):
    """worker side: the sparse array described by a spec"""
    import numpy as np
    import sparse
    shape = tuple(spec["shape"])
    nd = len(shape)
    dt = np.dtype(dtype or spec.get("dtype", "int64"))
    n = len(spec["coords"])
    coords = np.array(spec["coords"], dtype=np.intp).reshape(n, nd).T if (n and nd) else np.zeros((nd, n), dtype=np.intp)
    if idx_dtype:
        coords = coords.astype(idx_dtype)
    data = np.array(spec["data"], dtype=dt)
    x = sparse.COO(coords, data, shape=shape, fill_value=dt.type(spec["fill"]), sorted=True, has_duplicates=False)
    fmt = spec.get("format", "coo")
    if fmt == "coo":
        return x
    if fmt == "gcxs":
        if spec.get("caxes") is not None and nd >= 2:
            return sparse.GCXS.from_coo(x, compressed_axes=tuple(spec["caxes"]))
        return sparse.GCXS.from_coo(x)
    if fmt == "dok":
        return sparse.DOK.from_coo(x)
    raise ValueError(fmt)


def spec_dense(spec, dtype="int64"):
    import numpy as np
    d = np.full(tuple(spec["shape"]), spec["fill"], dtype=dtype)
    for c, v in zip(spec["coords"], spec["data"], strict=True):
        d[tuple(c)] = v
    return d


def spec_coo_lit(spec):
    """Coq literal `coo Z` of the (canonical) array a spec describes"""
    return "(mkCOO %s %s %s %s)" % (vlist(spec["shape"]), vlist(spec["coords"], vlist), vlist(spec["data"]), vZ(spec["fill"]))
