"""Site extractor for C05: the decisions at the scipy.sparse boundary.

generate(repo) -> ({"S_scipyconv.v": text}, report)

Read off the AST (fail-closed: any structural surprise raises):
  * `_compressed/compressed.py:_canonical_scipy(x)`: the condition under which the matrix is re-canonicalised
    (`if not x.has_canonical_format:`), as a boolean function of the flag -> s_canonical_scipy_recanon, and whether
    the in-place scipy calls of its body (`x.sum_duplicates()`) come after a fresh rebinding (`x = x.copy()`), i.e.
    never touch the caller's matrix -> s_canonical_scipy_copies_first;
  * `GCXS.from_scipy_sparse`: calls `_canonical_scipy` on the matrix whose arrays it then stores unchanged, and
    chooses `compressed_axes = (1,) if x.format == "csc" else (0,)` -> s_from_scipy_axis;  `CSR/CSC.from_scipy_sparse`
    call `_canonical_scipy` on the csr / csc form;
  * `GCXS.to_scipy_sparse`: csr iff `0 in self.compressed_axes`, arrays passed unchanged -> s_to_scipy_is_csr;
  * `COO.from_scipy_sparse`: the constructor flags `has_duplicates=` / `sorted=` as boolean functions of
    `x.has_canonical_format` -> s_coo_from_scipy_hasdup / s_coo_from_scipy_sorted;  `COO.to_scipy_sparse` sets
    `result.has_canonical_format = True` -> s_coo_to_scipy_flag.
Model/ScipyConv.v builds the scipy hops from these definitions and Props/C05.v proves them lossless; dropping the
re-canonicalisation, inverting its condition or a constructor flag makes those proofs fail."""
import ast
import hashlib
import os

CP = "sparse/numba_backend/_compressed/compressed.py"
CO = "sparse/numba_backend/_coo/core.py"


class Shape(Exception):
    pass


def _find(tree, cls, name):
    body = tree.body
    if cls:
        for n in tree.body:
            if isinstance(n, ast.ClassDef) and n.name == cls:
                body = n.body
                break
        else:
            raise Shape(f"class {cls} not found")
    for n in body:
        if isinstance(n, ast.FunctionDef) and n.name == name:
            return n
    raise Shape(f"{cls or ''}.{name} not found")


def trb(e, flag_src):
    """boolean expression over the single atom `flag_src` -> Gallina over `flag`"""
    if ast.unparse(e) == flag_src:
        return "flag"
    if isinstance(e, ast.UnaryOp) and isinstance(e.op, ast.Not):
        return f"(negb {trb(e.operand, flag_src)})"
    if isinstance(e, ast.Constant) and isinstance(e.value, bool):
        return "true" if e.value else "false"
    if isinstance(e, ast.BoolOp):
        op = "andb" if isinstance(e.op, ast.And) else "orb"
        t = trb(e.values[0], flag_src)
        for v in e.values[1:]:
            t = f"({op} {t} {trb(v, flag_src)})"
        return t
    raise Shape("boolean expression outside the grammar: " + ast.unparse(e))


def _body(fn):
    """statements without the docstring"""
    b = fn.body
    if b and isinstance(b[0], ast.Expr) and isinstance(b[0].value, ast.Constant) and isinstance(b[0].value.value, str):
        b = b[1:]
    return b


def generate(repo):
    cp = ast.parse(open(os.path.join(repo, CP)).read())
    co = ast.parse(open(os.path.join(repo, CO)).read())
    defs = []

    # _canonical_scipy
    fn = _find(cp, None, "_canonical_scipy")
    b = _body(fn)
    if not (len(b) == 2 and isinstance(b[0], ast.If) and not b[0].orelse and ast.unparse(b[1]) == "return x"):
        raise Shape("_canonical_scipy changed:\n" + ast.unparse(fn))
    stmts = [ast.unparse(s) for s in b[0].body]
    # the body may only rebind x to a fresh copy and canonicalise in place; scipy's sum_duplicates() /
    # sort_indices() / eliminate_zeros() mutate the matrix they are called on
    FRESH, INPLACE = {"x = x.copy()", "x = x.sorted_indices()"}, {"x.sum_duplicates()", "x.sort_indices()", "x.eliminate_zeros()"}
    if any(t not in FRESH | INPLACE for t in stmts) or "x.sum_duplicates()" not in stmts:
        raise Shape("_canonical_scipy changed:\n" + ast.unparse(fn))
    first_inplace = min(i for i, t in enumerate(stmts) if t in INPLACE)
    copies_first = any(t in FRESH for t in stmts[:first_inplace])
    defs.append(("s_canonical_scipy_recanon", "(flag : bool) : bool", trb(b[0].test, "x.has_canonical_format"),
                 "_canonical_scipy: sum_duplicates() iff " + ast.unparse(b[0].test)))
    defs.append(("s_canonical_scipy_copies_first", ": bool", "true" if copies_first else "false",
                 "_canonical_scipy: the in-place scipy calls (" + "; ".join(t for t in stmts if t in INPLACE)
                 + ") run on a fresh copy (" + "; ".join(t for t in stmts[:first_inplace]) + "), never on the caller's matrix"))

    # GCXS.from_scipy_sparse
    fn = _find(cp, "GCXS", "from_scipy_sparse")
    src = [ast.unparse(s) for s in _body(fn)]
    want_tail = ["x = _canonical_scipy(x)", "compressed_axes = (1,) if x.format == 'csc' else (0,)",
                 "return cls((x.data, x.indices, x.indptr), shape=x.shape, compressed_axes=compressed_axes, fill_value=fill_value)"]
    if src[-3:] != want_tail or src[:-3] != ["if x.format != 'csc':\n    x = x.asformat('csr')"]:
        raise Shape("GCXS.from_scipy_sparse changed:\n" + "\n".join(src))
    defs.append(("s_from_scipy_axis", "(is_csc : bool) : Z", "if is_csc then 1 else 0",
                 "GCXS.from_scipy_sparse: compressed_axes = (1,) if x.format == 'csc' else (0,)"))
    for cls, fmt in (("CSR", "csr"), ("CSC", "csc")):
        fn = _find(cp, cls, "from_scipy_sparse")
        src = [ast.unparse(s) for s in _body(fn)]
        if src != [f"x = _canonical_scipy(x.asformat('{fmt}', copy=False))",
                   "return cls((x.data, x.indices, x.indptr), shape=x.shape, fill_value=fill_value)"]:
            raise Shape(f"{cls}.from_scipy_sparse changed:\n" + "\n".join(src))

    # GCXS.to_scipy_sparse
    fn = _find(cp, "GCXS", "to_scipy_sparse")
    src = [ast.unparse(s) for s in _body(fn)]
    want = ["import scipy.sparse", "check_fill_value(self, accept_fv=accept_fv)",
            "if self.ndim != 2:\n    raise ValueError('Can only convert a 2-dimensional array to a Scipy sparse matrix.')",
            "if 0 in self.compressed_axes:\n    return scipy.sparse.csr_matrix((self.data, self.indices, self.indptr), shape=self.shape)",
            "return scipy.sparse.csc_matrix((self.data, self.indices, self.indptr), shape=self.shape)"]
    if src != want:
        raise Shape("GCXS.to_scipy_sparse changed:\n" + "\n".join(src))
    defs.append(("s_to_scipy_is_csr", "(zero_in_compressed_axes : bool) : bool", "zero_in_compressed_axes",
                 "GCXS.to_scipy_sparse: csr_matrix iff 0 in self.compressed_axes, else csc_matrix; arrays passed unchanged"))

    # COO.from_scipy_sparse: the constructor flags
    fn = _find(co, "COO", "from_scipy_sparse")
    ret = [s for s in _body(fn) if isinstance(s, ast.Return)]
    if len(ret) != 1 or not (isinstance(ret[0].value, ast.Call) and ast.unparse(ret[0].value.func) == "COO"):
        raise Shape("COO.from_scipy_sparse no longer returns COO(...)")
    call = ret[0].value
    kws = {k.arg: k.value for k in call.keywords}
    if [ast.unparse(a) for a in call.args] != ["coords", "x.data"] or set(kws) != {"shape", "has_duplicates", "sorted", "fill_value"}:
        raise Shape("COO.from_scipy_sparse: constructor call changed: " + ast.unparse(call))
    pre = [ast.unparse(s) for s in _body(fn) if not isinstance(s, ast.Return)]
    if pre != ["x = x.asformat('coo')", "coords = np.empty((2, x.nnz), dtype=x.row.dtype)", "coords[0, :] = x.row", "coords[1, :] = x.col"]:
        raise Shape("COO.from_scipy_sparse: body changed:\n" + "\n".join(pre))
    defs.append(("s_coo_from_scipy_hasdup", "(flag : bool) : bool", trb(kws["has_duplicates"], "x.has_canonical_format"),
                 "COO.from_scipy_sparse: has_duplicates=" + ast.unparse(kws["has_duplicates"])))
    defs.append(("s_coo_from_scipy_sorted", "(flag : bool) : bool", trb(kws["sorted"], "x.has_canonical_format"),
                 "COO.from_scipy_sparse: sorted=" + ast.unparse(kws["sorted"])))

    # COO.to_scipy_sparse: the flag it sets
    fn = _find(co, "COO", "to_scipy_sparse")
    src = [ast.unparse(s) for s in _body(fn)]
    if src[-3:] != ["result = scipy.sparse.coo_matrix((self.data, (self.coords[0], self.coords[1])), shape=self.shape)",
                    "result.has_canonical_format = True", "return result"]:
        raise Shape("COO.to_scipy_sparse changed:\n" + "\n".join(src))
    defs.append(("s_coo_to_scipy_flag", ": bool", "true", "COO.to_scipy_sparse: result.has_canonical_format = True"))

    h = hashlib.sha256("\n".join(f"{n}{sig}{body}" for n, sig, body, _c in defs).encode()).hexdigest()[:16]
    out = ["(* Gen/S_scipyconv.v — GENERATED by tools/sitegen/scipyconv.py from " + CP + " and " + CO + ".",
           "   Do not edit.  digest: " + h + " *)", "From Coq Require Import ZArith Bool.", "Open Scope Z_scope.", ""]
    rep = {}
    for name, sig, body, comment in defs:
        out.append(f"(* {comment} *)")
        out.append(f"Definition {name} {sig} := {body}.")
        out.append("")
        rep[name] = {"status": "ok", "source": comment}
    return {"S_scipyconv.v": "\n".join(out)}, rep
