"""Constructor call sites of the numba backend -> coq/Gen/S_ctor_sites.v   (property C06).

Walks the AST of every module of sparse/numba_backend (the files property C06 anchors in, and the
remaining producer modules) and emits, for EVERY call that constructs a sparse array
(`COO(..)`, `GCXS(..)`, `CSR(..)`, `CSC(..)`, `DOK(..)`, `cls(..)` inside one of those classes,
`self.__class__(..)`, `type(x)(..)`, `super().__init__(..)` inside those classes):

  file, enclosing function (qualified: Class.method / func / func.inner), ordinal of the call inside
  that function (source order), constructor kind, callee text, kind of the first argument
  (raw arrays / object to convert), and the `sorted`, `has_duplicates`, `prune`, `fill_value`
  arguments both as exact source text and classified  FTrue | FFalse | FDefault | FExpr "text".

Arguments are bound against the `__init__` signature read from the source (so positional flags are
seen), and the DEFAULTS of the signature are emitted too (`coo_init_defaults`,
`gcxs_init_defaults`): an absent argument means the constructor's default, and a changed default
changes the generated file.

Fail-closed: a missing anchored file, a missing class / `__init__`, a `**kwargs`/`*args` splat in a
constructor call, or an unparsable module raises -> the check records a broken obligation.

generate(repo) -> ({"S_ctor_sites.v": coq_text}, report)"""
import ast
import hashlib
import os
import sys

BACKEND = "sparse/numba_backend"
ANCHORED = [
    "_coo/core.py", "_compressed/compressed.py", "_common.py", "_umath.py", "_coo/indexing.py",
    "_coo/common.py", "_utils.py",
]
# remaining producer modules (not in the property's anchor list, walked all the same)
OTHER = [
    "_compressed/indexing.py", "_compressed/convert.py", "_compressed/common.py", "_sparse_array.py",
    "_dok.py", "_io.py", "_slicing.py",
]
CLASS_KIND = {"COO": "KCoo", "GCXS": "KGcxs", "_Compressed2d": "KGcxs", "CSR": "KGcxs", "CSC": "KGcxs", "DOK": "KDok"}
FLAGS = ("sorted", "has_duplicates", "prune", "fill_value")


class SiteError(Exception):
    pass


def coq_str(s):
    return '"' + s.replace('"', '""') + '"'


def classify(node):
    """(classification, source text) of a flag argument"""
    if node is None:
        return "FDefault", ""
    txt = ast.unparse(node)
    if isinstance(node, ast.Constant) and node.value is True:
        return "FTrue", txt
    if isinstance(node, ast.Constant) and node.value is False:
        return "FFalse", txt
    return f"(FExpr {coq_str(txt)})", txt


def init_signature(cls):
    for n in cls.body:
        if isinstance(n, ast.FunctionDef) and n.name == "__init__":
            a = n.args
            if a.vararg or a.kwarg or a.posonlyargs:
                raise SiteError(f"{cls.name}.__init__ has a signature shape the extractor does not handle")
            names = [x.arg for x in a.args][1:]
            defaults = [None] * (len(a.args) - len(a.defaults)) + list(a.defaults)
            dmap = {x.arg: d for x, d in zip(a.args, defaults, strict=True)}
            for x, d in zip(a.kwonlyargs, a.kw_defaults, strict=True):
                names.append(x.arg)
                dmap[x.arg] = d
            return names, dmap
    return None


class Walker(ast.NodeVisitor):
    def __init__(self, relfile, sigs):
        self.relfile = relfile
        self.sigs = sigs
        self.stack = []           # names of enclosing defs/classes
        self.cls_stack = []       # enclosing class names
        self.sites = []           # (qualified function, lineno, col, record)

    # ---- scopes
    def visit_ClassDef(self, node):
        self.stack.append(node.name)
        self.cls_stack.append(node.name)
        self.generic_visit(node)
        self.cls_stack.pop()
        self.stack.pop()

    def visit_FunctionDef(self, node):
        self.stack.append(node.name)
        self.generic_visit(node)
        self.stack.pop()

    visit_AsyncFunctionDef = visit_FunctionDef

    # ---- calls
    def callee_kind(self, f):
        """(kind, class whose signature binds the arguments) or None when not a constructor call"""
        if isinstance(f, ast.Name):
            if f.id in CLASS_KIND:
                return CLASS_KIND[f.id], f.id
            if f.id == "cls" and self.cls_stack and self.cls_stack[-1] in CLASS_KIND:
                return CLASS_KIND[self.cls_stack[-1]], self.cls_stack[-1]
            return None
        if isinstance(f, ast.Attribute):
            # sparse.COO(...), module.GCXS(...)
            if f.attr in CLASS_KIND and isinstance(f.value, ast.Name):
                return CLASS_KIND[f.attr], f.attr
            # self.__class__(...), x.__class__(...)
            if f.attr == "__class__":
                c = self.cls_stack[-1] if self.cls_stack and self.cls_stack[-1] in CLASS_KIND else None
                return "KDyn", c
            # super().__init__(...) inside one of the array classes
            if f.attr == "__init__" and isinstance(f.value, ast.Call) and isinstance(f.value.func, ast.Name) \
                    and f.value.func.id == "super" and self.cls_stack and self.cls_stack[-1] in CLASS_KIND:
                return "KSuper", {"_Compressed2d": "GCXS", "CSR": "_Compressed2d", "CSC": "_Compressed2d"}.get(self.cls_stack[-1])
            return None
        # type(x)(...)
        if isinstance(f, ast.Call) and isinstance(f.func, ast.Name) and f.func.id == "type" and len(f.args) == 1:
            c = self.cls_stack[-1] if self.cls_stack and self.cls_stack[-1] in CLASS_KIND else None
            return "KDyn", c
        return None

    def visit_Call(self, node):
        ck = self.callee_kind(node.func)
        if ck is not None:
            self.record(node, *ck)
        self.generic_visit(node)

    def record(self, node, kind, sigclass):
        if any(isinstance(a, ast.Starred) for a in node.args) or any(k.arg is None for k in node.keywords):
            raise SiteError(f"{self.relfile}:{node.lineno}: constructor call with */** splat: flags cannot be read")
        bound = {}
        sig = self.sigs.get(sigclass) if sigclass else None
        if sig is None and sigclass in ("CSR", "CSC", "_Compressed2d"):
            sig = self.sigs.get("GCXS")
        if sig is None and kind in ("KDyn",):
            sig = self.sigs.get("COO")
        names = sig[0] if sig else []
        for i, a in enumerate(node.args):
            if i < len(names):
                bound[names[i]] = a
            else:
                bound[f"_pos{i}"] = a
        for k in node.keywords:
            if k.arg in bound:
                raise SiteError(f"{self.relfile}:{node.lineno}: argument {k.arg} given twice")
            bound[k.arg] = k.value
        first = node.args[0] if node.args else bound.get(names[0]) if names else None
        if kind in ("KCoo",) or (kind == "KDyn" and sigclass in (None, "COO")):
            # raw coordinate/data arrays iff `data` is given
            arg = "ARaw" if "data" in bound else "AConvert"
        elif kind in ("KGcxs", "KSuper", "KDyn"):
            if isinstance(first, (ast.Tuple, ast.List)):
                arg = "ARaw"
            elif "shape" in bound:
                arg = "AMaybeRaw"
            else:
                arg = "AConvert"
        else:
            arg = "AConvert"
        flags = {f: classify(bound.get(f)) for f in FLAGS}
        rec = {
            "file": self.relfile, "func": ".".join(self.stack) if self.stack else "<module>",
            "kind": kind, "callee": ast.unparse(node.func), "arg": arg,
            "first": ast.unparse(first) if first is not None else "",
            "flags": flags, "lineno": node.lineno, "col": node.col_offset,
        }
        self.sites.append(rec)


def parse_module(repo, rel):
    p = os.path.join(repo, BACKEND, rel)
    with open(p) as f:
        src = f.read()
    return ast.parse(src), src


def find_class(tree, name):
    for n in ast.walk(tree):
        if isinstance(n, ast.ClassDef) and n.name == name:
            return n
    return None


def default_flag(dmap, name, cls):
    if name not in dmap:
        raise SiteError(f"{cls}.__init__ no longer has a parameter `{name}`")
    return classify(dmap[name])[0] if dmap[name] is not None else "FDefault"


def collect(repo):
    trees = {}
    for rel in ANCHORED:
        trees[rel] = parse_module(repo, rel)           # missing anchored file -> OSError -> fail closed
    for rel in OTHER:
        if os.path.exists(os.path.join(repo, BACKEND, rel)):
            trees[rel] = parse_module(repo, rel)
    # modules that appeared since (new producers must be seen too)
    for root, _d, files in os.walk(os.path.join(repo, BACKEND)):
        if os.sep + "tests" in root:
            continue
        for fn in files:
            rel = os.path.relpath(os.path.join(root, fn), os.path.join(repo, BACKEND))
            if fn.endswith(".py") and rel not in trees and "numba_extension" not in fn:
                trees[rel] = parse_module(repo, rel)
    sigs = {}
    for cname, rel in (("COO", "_coo/core.py"), ("GCXS", "_compressed/compressed.py"),
                       ("_Compressed2d", "_compressed/compressed.py"), ("CSR", "_compressed/compressed.py"),
                       ("CSC", "_compressed/compressed.py"), ("DOK", "_dok.py")):
        if rel not in trees:
            continue
        c = find_class(trees[rel][0], cname)
        if c is None:
            raise SiteError(f"class {cname} not found in {rel}")
        s = init_signature(c)
        if s is None:
            raise SiteError(f"{cname}.__init__ not found")
        sigs[cname] = s
    for need in ("COO", "GCXS"):
        if need not in sigs:
            raise SiteError(f"{need}.__init__ not found")
    sites = []
    for rel in sorted(trees):
        w = Walker(rel, sigs)
        w.visit(trees[rel][0])
        sites.extend(w.sites)
    # ordinals: per (file, function) in source order
    sites.sort(key=lambda r: (r["file"], r["func"], r["lineno"], r["col"]))
    counts = {}
    for r in sites:
        k = (r["file"], r["func"])
        r["ord"] = counts.get(k, 0)
        counts[k] = r["ord"] + 1
    return sites, sigs, trees


# ---- pruning expressions: (file, function, assigned variable, must the right-hand side BE the mask expression?)
PRUNE_SITES = [
    ("_coo/core.py", "COO._prune", "mask", True),
    ("_coo/core.py", "COO.from_numpy", "coords", False),
    ("_compressed/compressed.py", "GCXS._reduce_return", "mask", True),
    ("_compressed/compressed.py", "GCXS._prune", "mask", True),
    ("_umath.py", "_Elemwise._get_func_coords_data", "unmatched_mask", True),
]


def find_qualified(tree, qual):
    parts = qual.split(".")
    node = tree
    for part in parts:
        nxt = None
        for n in ast.iter_child_nodes(node) if not isinstance(node, ast.Module) else node.body:
            if isinstance(n, (ast.ClassDef, ast.FunctionDef)) and n.name == part:
                nxt = n
                break
        if nxt is None:
            return None
        node = nxt
    return node


def is_not_equivalent(n):
    """`~equivalent(a, b)` with exactly two positional arguments -> (a text, b text)"""
    if isinstance(n, ast.UnaryOp) and isinstance(n.op, ast.Invert) and isinstance(n.value if hasattr(n, "value") else n.operand, ast.AST):
        c = n.operand
        if isinstance(c, ast.Call) and isinstance(c.func, ast.Name) and c.func.id == "equivalent" and len(c.args) == 2 \
                and not c.keywords:
            return ast.unparse(c.args[0]), ast.unparse(c.args[1])
    return None


# ---- the linear location the constructor sorts / deduplicates by: every `return` of these functions, with the chain of
# `if` tests that guards it ("" = unconditional)
RETURN_SITES = [("_coo/common.py", "linear_loc"), ("_coo/core.py", "COO.linear_loc")]


def return_paths(trees):
    out = []

    def walk(stmts, guard, acc):
        for st in stmts:
            if isinstance(st, ast.Return):
                acc.append((" and ".join(guard), ast.unparse(st.value) if st.value is not None else "None"))
            elif isinstance(st, ast.If):
                t = ast.unparse(st.test)
                walk(st.body, guard + [t], acc)
                walk(st.orelse, guard + [f"not ({t})"], acc)
            elif isinstance(st, (ast.For, ast.While, ast.With, ast.Try)):
                raise SiteError(f"return-path site: unexpected control flow {type(st).__name__}")
    for rel, qual in RETURN_SITES:
        if rel not in trees:
            raise SiteError(f"return-path site: file {rel} missing")
        fn = find_qualified(trees[rel][0], qual)
        if fn is None:
            raise SiteError(f"return-path site: {rel}:{qual} not found")
        acc = []
        walk(fn.body, [], acc)
        if not acc:
            raise SiteError(f"return-path site: {rel}:{qual} has no return")
        for g, r in acc:
            out.append((qual, g, r))
    return out


# ---- expressions that compute a `sorted=` flag: (file, function, variables whose assignments are quoted, in order)
FLAG_EXPR_SITES = [("_umath.py", "broadcast_to", ["nonbroadcast_idx", "diff_nonbroadcast_idx", "sorted"])]


def flag_exprs(trees):
    out = []
    for rel, qual, names in FLAG_EXPR_SITES:
        if rel not in trees:
            raise SiteError(f"flag-expression site: file {rel} missing")
        fn = find_qualified(trees[rel][0], qual)
        if fn is None:
            raise SiteError(f"flag-expression site: {rel}:{qual} not found")
        for var in names:
            assigns = [n for n in ast.walk(fn) if isinstance(n, ast.Assign) and len(n.targets) == 1
                       and isinstance(n.targets[0], ast.Name) and n.targets[0].id == var]
            if len(assigns) != 1:
                raise SiteError(f"flag-expression site: {rel}:{qual} assigns `{var}` {len(assigns)} times")
            out.append((qual, var, ast.unparse(assigns[0].value)))
    return out


def prune_sites(trees):
    out = []
    for rel, qual, var, exact in PRUNE_SITES:
        if rel not in trees:
            raise SiteError(f"pruning site: file {rel} missing")
        fn = find_qualified(trees[rel][0], qual)
        if fn is None:
            raise SiteError(f"pruning site: {rel}:{qual} not found")
        assigns = [n for n in ast.walk(fn) if isinstance(n, ast.Assign) and len(n.targets) == 1
                   and isinstance(n.targets[0], ast.Name) and n.targets[0].id == var]
        if not assigns:
            raise SiteError(f"pruning site: {rel}:{qual} no longer assigns `{var}`")
        rhs = assigns[0].value
        txt = ast.unparse(rhs)
        hit = is_not_equivalent(rhs)
        if hit is None and not exact:
            inner = [is_not_equivalent(n) for n in ast.walk(rhs)]
            inner = [h for h in inner if h]
            has_cmp = any(isinstance(n, ast.Compare) for n in ast.walk(rhs))
            hit = inner[0] if len(inner) == 1 and not has_cmp else None
        shape = f"(PNotEquivalent {coq_str(hit[0])} {coq_str(hit[1])})" if hit else f"(POther {coq_str(txt)})"
        out.append((rel, qual, var, shape, txt))
    return out


def site_text(r):
    return " ; ".join(f"{f}={r['flags'][f][1]}" if r["flags"][f][1] else f"{f}=<default>" for f in FLAGS)


def generate(repo):
    sites, sigs, trees = collect(repo)
    coo_d = sigs["COO"][1]
    gcxs_d = sigs["GCXS"][1]
    out = []
    out.append("(* GENERATED by tools/sitegen/ctor_sites.py from the working tree of the repository: every\n"
               "   sparse-array constructor call of sparse/numba_backend with the promises it passes. *)\n"
               "From Coq Require Import String ZArith List.\nFrom Verif Require Import Ctor.\n"
               "Import ListNotations.\nOpen Scope Z_scope.\nOpen Scope string_scope.\n")
    out.append("(* defaults of COO.__init__ (sorted, has_duplicates, prune) read from its signature *)\n"
               f"Definition coo_init_defaults : flagv * flagv * flagv :=\n  ({default_flag(coo_d, 'sorted', 'COO')}, "
               f"{default_flag(coo_d, 'has_duplicates', 'COO')}, {default_flag(coo_d, 'prune', 'COO')}).\n")
    out.append("(* default of GCXS.__init__ (prune) *)\n"
               f"Definition gcxs_init_defaults : flagv := {default_flag(gcxs_d, 'prune', 'GCXS')}.\n")
    out.append("Definition ctor_sites : list site := [")
    lines = []
    for r in sites:
        fl = r["flags"]
        lines.append(
            f"  (* {r['file']}:{r['func']} #{r['ord']}  {r['callee']}({r['first'][:60]}, ...)  {site_text(r)} *)\n"
            f"  mkSite {coq_str(r['file'])} {coq_str(r['func'])} {r['ord']} {r['kind']} {coq_str(r['callee'])} {r['arg']}\n"
            f"    {fl['sorted'][0]} {fl['has_duplicates'][0]} {fl['prune'][0]} {fl['fill_value'][0]}\n"
            f"    {coq_str(site_text(r))}")
    out.append(";\n".join(lines))
    out.append("].\n")
    out.append("(* the expressions that decide which entries are pruned (dropped because they equal the fill value) *)\n"
               "Definition prune_sites : list prune_site := [")
    pr = prune_sites(trees)
    out.append(";\n".join(f"  (* {rel}:{qual}  {var} = {txt} *)\n  mkPrune {coq_str(rel)} {coq_str(qual)} {coq_str(var)} {shape} {coq_str(txt)}"
                          for rel, qual, var, shape, txt in pr))
    out.append("].\n")
    out.append("(* (function, guard, returned expression) of every return of linear_loc / COO.linear_loc: the key the constructor\n"
               "   sorts and deduplicates by *)\nDefinition linear_loc_returns : list (string * string * string) := [")
    rp = return_paths(trees)
    out.append(";\n".join(f"  ({coq_str(q)}, {coq_str(g)}, {coq_str(r)})" for q, g, r in rp))
    out.append("].\n")
    out.append("(* the statements that compute the `sorted=` flag broadcast_to passes to the constructor *)\n"
               "Definition broadcast_sorted_rule : list (string * string * string) := [")
    out.append(";\n".join(f"  ({coq_str(q)}, {coq_str(v)}, {coq_str(e)})" for q, v, e in flag_exprs(trees)))
    out.append("].\n")
    text = "\n".join(out)
    promising = [r for r in sites if r["flags"]["sorted"][0] != "FFalse" and r["flags"]["sorted"][0] != "FDefault"
                 or r["flags"]["has_duplicates"][0] not in ("FTrue", "FDefault")]
    report = {
        "ctor_sites": {"status": "ok", "sites": len(sites), "files": len(trees),
                       "flagged_coo_sites": len(promising), "prune_sites": len(pr),
                       "hash": hashlib.sha256(text.encode()).hexdigest()[:16]},
    }
    return {"S_ctor_sites.v": text}, report


if __name__ == "__main__":
    files, rep = generate(sys.argv[1] if len(sys.argv) > 1 else "/repo")
    print(files["S_ctor_sites.v"])
    print(rep, file=sys.stderr)
