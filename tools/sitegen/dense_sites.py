"""Dense-allocation sites of the files property C16 anchors in -> coq/Gen/S_dense_sites.v.

Walks the AST of every anchored file and lists
  * every call of a densifying method/function: .todense() .maybe_densify() .asnumpy()/asnumpy()
    .toarray() .__array__(), and of the allocating ndarray methods .repeat() .tile();
  * every call of a NumPy allocator (np.zeros ones full empty arange indices eye identity tile repeat
    *_like meshgrid tri linspace bincount outer kron broadcast_to broadcast_arrays argsort, mgrid/ogrid subscripts) -- ALL of them, not only
    those whose argument text mentions `shape`/`size`/a product (a product of extents may hide behind
    a local name such as `n_col`, `rows * cols`, `group_size`); only calls whose size argument is a
    literal constant (`0`, `(0,)`, `()`, `(2, 0)`) are left out;
with the enclosing function (Class.method, nested functions as outer.inner), the callee, the unparsed
argument text and the ordinal of this (callee, args) pair inside the function (so that a second copy of
an already reviewed call is a NEW site).  The Coq side (Model/SparseOps.v) holds the reviewed list; Props/C16.v
proves `forallb sanctioned dense_sites = true` by vm_compute over THIS table, regenerated on every run.

Second table (`inplace_sites`): "works on a private copy".  For every function of the anchored files, every local
NAME that is written IN PLACE (`name[...] = v`, `name[...] op= v`, `out=name[...]`, and `name op= v` when the name is
bound to something mentioning .coords/.data/.indices/.indptr) together with EVERY expression the name is bound to in
that function (`<parameter>` for arguments, `<item k of> e` for tuple unpacking); and every array attribute
(.coords/.data/.indices/.indptr) handed to an internal `_kernel(...)` as a positional argument.  The reviewed table in
Model/DenseSites.v says why each binding is private (a fresh allocation / copy, a Python list, an output buffer
parameter that every caller allocates); Props/C16.v proves the generated and the reviewed tables EQUAL as sets, so
replacing `x.coords.copy()` by an alias (`x.coords`, `x.coords.astype(np.intp, copy=False)`), or deleting a
`data = data.copy()`, breaks a proof.

Fail-closed: a missing anchored file, a syntax error or an empty table raises.

generate(repo) -> ({"S_dense_sites.v": coq_text}, report)"""
import ast
import hashlib
import os
import sys

FILES = [
    "sparse/numba_backend/_umath.py",
    "sparse/numba_backend/_coo/core.py",
    "sparse/numba_backend/_coo/indexing.py",
    "sparse/numba_backend/_coo/common.py",
    "sparse/numba_backend/_common.py",
    "sparse/numba_backend/_compressed/compressed.py",
    "sparse/numba_backend/_compressed/convert.py",
    "sparse/numba_backend/_compressed/indexing.py",
]

DENSIFY_ATTRS = {"todense", "maybe_densify", "asnumpy", "toarray", "__array__",
                 "repeat", "tile"}   # ndarray.repeat(n): an allocator spelled as a method
DENSIFY_NAMES = {"asnumpy", "_todense"}
ALLOC = {"zeros", "ones", "full", "empty", "arange", "indices", "eye", "identity", "tile", "repeat",
         "zeros_like", "ones_like", "full_like", "empty_like", "meshgrid", "tri", "linspace", "bincount",
         "outer", "kron", "broadcast_to", "broadcast_arrays", "argsort"}
NP_NAMES = {"np", "numpy"}


def _literal_size(node):
    """the call's size argument is a literal constant"""
    if not node.args:
        return False
    try:
        ast.literal_eval(node.args[0])
        return True
    except (ValueError, SyntaxError, TypeError):
        return False


class SiteError(Exception):
    pass


def _callee(node):
    """('attr'|'np'|'name', printable callee) or None"""
    f = node.func
    if isinstance(f, ast.Attribute):
        if isinstance(f.value, ast.Name) and f.value.id in NP_NAMES:
            if f.attr in ALLOC:
                return "np", "np." + f.attr
            return None
        if f.attr in DENSIFY_ATTRS:
            return "attr", "." + f.attr
        return None
    if isinstance(f, ast.Name) and f.id in DENSIFY_NAMES:
        return "name", f.id
    return None


class _Walk(ast.NodeVisitor):
    def __init__(self, fname):
        self.fname = fname
        self.stack = []
        self.sites = []
        self.counts = {}

    def _enter(self, node):
        self.stack.append(node.name)
        self.generic_visit(node)
        self.stack.pop()

    visit_FunctionDef = _enter
    visit_AsyncFunctionDef = _enter
    visit_ClassDef = _enter

    def visit_Call(self, node):
        c = _callee(node)
        if c is not None:
            kind, name = c
            args = ", ".join([ast.unparse(a) for a in node.args] +
                             [f"{k.arg}={ast.unparse(k.value)}" if k.arg else "**" + ast.unparse(k.value)
                              for k in node.keywords])
            recv = ast.unparse(node.func.value) if kind == "attr" else ""
            keep = kind in ("attr", "name") or not _literal_size(node)
            if keep:
                func = ".".join(self.stack) if self.stack else "<module>"
                text = (recv + " | " + args) if kind == "attr" else args
                key = (func, name, text)
                self.counts[key] = self.counts.get(key, 0) + 1
                self.sites.append((self.fname, func, name, text, self.counts[key]))
        self.generic_visit(node)

    def visit_Subscript(self, node):
        # np.mgrid[...] / np.ogrid[...]
        v = node.value
        if isinstance(v, ast.Attribute) and isinstance(v.value, ast.Name) and v.value.id in NP_NAMES \
                and v.attr in ("mgrid", "ogrid"):
            func = ".".join(self.stack) if self.stack else "<module>"
            text = ast.unparse(node.slice)
            key = (func, "np." + v.attr, text)
            self.counts[key] = self.counts.get(key, 0) + 1
            self.sites.append((self.fname, func, "np." + v.attr, text, self.counts[key]))
        self.generic_visit(node)


def _base_name(t):
    while isinstance(t, (ast.Subscript, ast.Attribute)):
        if isinstance(t, ast.Attribute):
            return None
        t = t.value
    return t.id if isinstance(t, ast.Name) else None


_ARRAY_ATTR = (".coords", ".data", ".indices", ".indptr")


def _function_writes(fn):
    """[(name, binding text)] for the names written in place inside fn (nested functions excluded: they are
    visited on their own)"""
    nested = set()
    for n in ast.walk(fn):
        if n is not fn and isinstance(n, (ast.FunctionDef, ast.AsyncFunctionDef, ast.Lambda)):
            for m in ast.walk(n):
                nested.add(id(m))
    nodes = [n for n in ast.walk(fn) if id(n) not in nested or n is fn]
    params = [a.arg for a in fn.args.posonlyargs + fn.args.args + fn.args.kwonlyargs]

    def bindings(name):
        out = []
        if name in params:
            out.append("<parameter>")
        for n in nodes:
            if isinstance(n, ast.Assign):
                for t in n.targets:
                    if isinstance(t, ast.Name) and t.id == name:
                        out.append(ast.unparse(n.value))
                    elif isinstance(t, (ast.Tuple, ast.List)):
                        for i, e in enumerate(t.elts):
                            if isinstance(e, ast.Name) and e.id == name:
                                if isinstance(n.value, (ast.Tuple, ast.List)) and len(n.value.elts) == len(t.elts):
                                    out.append(ast.unparse(n.value.elts[i]))
                                else:
                                    out.append(f"<item {i} of> " + ast.unparse(n.value))
            elif isinstance(n, ast.For):
                for e in ast.walk(n.target):
                    if isinstance(e, ast.Name) and e.id == name:
                        out.append("<loop over> " + ast.unparse(n.iter))
            elif isinstance(n, (ast.AnnAssign,)) and isinstance(n.target, ast.Name) and n.target.id == name and n.value:
                out.append(ast.unparse(n.value))
        return out or ["<unbound>"]

    written = []

    def add(name):
        if name and name not in written:
            written.append(name)
    for n in nodes:
        targets = []
        if isinstance(n, ast.Assign):
            targets = list(n.targets)
        elif isinstance(n, ast.AugAssign):
            targets = [n.target]
        flat = []
        for t in targets:
            flat.extend(t.elts if isinstance(t, (ast.Tuple, ast.List)) else [t])
        for t in flat:
            if isinstance(t, ast.Subscript):
                add(_base_name(t))
            elif isinstance(n, ast.AugAssign) and isinstance(t, ast.Name):
                if any(any(a in b for a in _ARRAY_ATTR) for b in bindings(t.id)):
                    add(t.id)
        if isinstance(n, ast.Call):
            for k in n.keywords:
                if k.arg == "out" and not (isinstance(k.value, ast.Constant) and k.value.value is None):
                    add(_base_name(k.value) if not isinstance(k.value, ast.Name) else k.value.id)
    rows = []
    for name in written:
        for b in bindings(name):
            rows.append((name, b))
    # array attributes handed to an internal kernel: the argument text says whether the kernel gets the operand's
    # own array or a copy (`_compute_minmax_args(x.coords.copy(), ...)`)
    for n in nodes:
        if isinstance(n, ast.Call) and isinstance(n.func, ast.Name) and n.func.id.startswith("_"):
            for k, a in enumerate(n.args):
                t = ast.unparse(a)
                if any(x in t for x in _ARRAY_ATTR):
                    rows.append((f"<argument {k} of {n.func.id}>", t))
    return rows


def extract_writes(repo):
    rows = []
    for rel in FILES:
        tree = ast.parse(open(os.path.join(repo, rel)).read())
        short = rel[len("sparse/numba_backend/"):]

        def visit(node, stack):
            for ch in ast.iter_child_nodes(node):
                if isinstance(ch, (ast.FunctionDef, ast.AsyncFunctionDef)):
                    for name, b in _function_writes(ch):
                        rows.append((short, ".".join(stack + [ch.name]), name, b))
                    visit(ch, stack + [ch.name])
                elif isinstance(ch, ast.ClassDef):
                    visit(ch, stack + [ch.name])
                else:
                    visit(ch, stack)
        visit(tree, [])
    if len(rows) < 40:
        raise SiteError(f"only {len(rows)} in-place writes found: the extractor no longer understands the source")
    for f, fn in (("_coo/common.py", "flip"), ("_coo/common.py", "roll"), ("_coo/common.py", "_sort_coo")):
        if not any(r[0] == f and r[1] == fn for r in rows):
            raise SiteError(f"no in-place write found in {f}:{fn}: the function was renamed or rewritten")
    return rows


def _q(s):
    return '"' + s.replace('"', '""').replace("\n", " ") + '"'


def extract(repo):
    sites = []
    hashes = {}
    for rel in FILES:
        p = os.path.join(repo, rel)
        if not os.path.exists(p):
            raise SiteError(f"anchored file missing: {rel}")
        src = open(p).read()
        tree = ast.parse(src)
        w = _Walk(rel[len("sparse/numba_backend/"):])
        w.visit(tree)
        sites.extend(w.sites)
        hashes[rel] = hashlib.sha256(src.encode()).hexdigest()[:12]
    if len(sites) < 20:
        raise SiteError(f"only {len(sites)} dense sites found: the extractor no longer understands the source")
    return sites, hashes


def generate(repo):
    sites, hashes = extract(repo)
    out = ["(* GENERATED by tools/sitegen/dense_sites.py from the working tree of the repository: every call of a",
           "   densifying method or of a NumPy allocator with a non-literal size, in the files",
           "   property C16 anchors in.  (file, enclosing function, callee, receiver | arguments, ordinal) *)",
           "From Coq Require Import String List.",
           "Import ListNotations.",
           "Local Open Scope string_scope.",
           "",
           "Record dsite := mkSite { ds_file : string; ds_func : string; ds_callee : string; ds_args : string; ds_occ : nat }.",
           "",
           "Definition dense_sites : list dsite := ["]
    rows = ["  mkSite %s %s %s %s %d" % (_q(f), _q(fn), _q(c), _q(a), occ) for (f, fn, c, a, occ) in sites]
    out.append(";\n".join(rows))
    out.append("].")
    out.append("")
    writes = extract_writes(repo)
    out.append("(* every local name written in place, with every expression it is bound to in that function *)")
    out.append("Record wsite := mkW { w_file : string; w_func : string; w_name : string; w_bind : string }.")
    out.append("")
    out.append("Definition inplace_sites : list wsite := [")
    out.append(";\n".join("  mkW %s %s %s %s" % (_q(f), _q(fn), _q(n), _q(b)) for (f, fn, n, b) in writes))
    out.append("].")
    out.append("")
    report = {"dense_sites": {"status": "ok", "sites": len(sites), "inplace_writes": len(writes), "files": hashes}}
    return {"S_dense_sites.v": "\n".join(out) + "\n"}, report


if __name__ == "__main__":
    files, rep = generate(sys.argv[1] if len(sys.argv) > 1 else "/repo")
    sys.stdout.write(files["S_dense_sites.v"])
    print(rep, file=sys.stderr)
