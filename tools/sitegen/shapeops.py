"""Site extractor for C08 (GCXS side): which value is passed for which parameter of the coordinate
kernels of `_compressed/convert.py`.

generate(repo) -> ({"S_shapeops.v": text}, report)

`_1d_reshape` calls `_linearize(...)`, `_transpose` calls `_convert_coords(...)` and (1-d result)
`_c_ordering(...)`.  The kernels themselves are compared with their one-iteration models by the
kernel-level correspondence (tools/props/c08.py); what is extracted here is the CALL: for every
parameter of the kernel's `def`, the call-site expression bound to it, mapped onto the model's
vocabulary.  The output is one Gallina function per call site that takes the model's values under
their call-site names and returns them in the kernel's PARAMETER order; Model/ShapeOpsG.v routes its
kernel applications through these functions, so swapping two arguments of a call (or two parameters of
a def) changes the generated function, the model, and breaks gcxs_reshape_repr / gcxs_transpose_repr.

Also extracted: the two arithmetic expressions of `_common.pad` — the shifted coordinates
`new_coords = array.coords + pad_width[:, 0:1]` and the padded extent
`array.shape[i] + pad_width[i, 0] + pad_width[i, 1]` — translated from the AST (integer `+`/`-` over the
named operands only) into `s_pad_coord` / `s_pad_extent`, which Model/ShapeOps.v (coo_pad) uses.  Anything
else in those expressions — in particular a cast of the shifted coordinates back to a narrow index dtype
(`.astype(array.coords.dtype)`), which would wrap silently — is outside the grammar: the extraction is
reported as FAILED (a broken obligation: the check exits 1 whatever the campaign finds) and the last
extracted text is emitted as a marked fallback so that the campaign can still look for a failing input.

Fail-closed: unknown expressions, keyword arguments, starred arguments, missing or several calls raise."""
import ast
import hashlib
import os

CV = "sparse/numba_backend/_compressed/convert.py"
CM = "sparse/numba_backend/_common.py"
CC = "sparse/numba_backend/_coo/common.py"
UM = "sparse/numba_backend/_umath.py"


class Shape(Exception):
    pass


def _func(tree, name):
    for n in tree.body:
        if isinstance(n, ast.FunctionDef) and n.name == name:
            return n
    raise Shape(f"function {name} not found")


def _single_call(fn, callee):
    calls = [n for n in ast.walk(fn) if isinstance(n, ast.Call) and isinstance(n.func, ast.Name) and n.func.id == callee]
    if len(calls) != 1:
        raise Shape(f"expected exactly one call of {callee} in {fn.name}, found {len(calls)}")
    c = calls[0]
    if c.keywords or any(isinstance(a, ast.Starred) for a in c.args):
        raise Shape(f"call of {callee} in {fn.name} uses keyword/starred arguments")
    return c


# call-site expression text -> model variable
VOCAB = {
    "_1d_reshape/_linearize": {
        "x_indices": "x_indices", "np.array(shape)": "shape", "new_axis_order": "new_ord",
        "new_reordered_shape": "new_rsh", "new_compressed_shape": "new_cshape",
        "new_linear": "OUT_new_linear", "new_coords": "OUT_new_coords",
    },
    "_transpose/_convert_coords": {
        "linear": "linear", "np.asarray(x.shape)": "x_shape", "np.asarray(x._reordered_shape)": "x_rsh",
        "sorted_axis_order": "sao", "np.asarray(axes)": "axes", "np.asarray(shape)": "shape",
        "np.asarray(new_axis_order)": "new_ord", "new_reordered_shape": "new_rsh",
        "new_compressed_shape": "new_cshape", "new_linear": "OUT_new_linear", "new_coords": "OUT_new_coords",
        "transpose": "FLAG_transpose",
    },
    "_transpose/_c_ordering": {
        "linear": "linear", "c_linear": "OUT_c_linear", "np.asarray(x._reordered_shape)": "x_rsh",
        "np.asarray(sorted_axis_order)": "sao", "np.asarray(x.shape)": "x_shape",
    },
}
# kernel parameter -> role in the model (inputs only; OUT_/FLAG_ parameters must receive OUT_/FLAG_ values)
ROLES = {
    "_linearize": ["x_indices", "shape", "new_axis_order", "new_reordered_shape", "new_compressed_shape",
                   "new_linear", "new_coords"],
    "_convert_coords": ["linear", "old_shape", "reordered_shape", "sorted_axis_order", "axes", "shape",
                        "new_axis_order", "new_reordered_shape", "new_linear", "new_coords",
                        "new_compressed_shape", "transpose"],
    "_c_ordering": ["linear", "c_linear", "reordered_shape", "sorted_axis_order", "shape"],
}
SPECIAL = {"new_linear": "OUT_new_linear", "new_coords": "OUT_new_coords", "c_linear": "OUT_c_linear",
           "transpose": "FLAG_transpose"}


def _site(tree, caller, callee, coqname, inputs):
    fn = _func(tree, caller)
    kern = _func(tree, callee)
    params = [a.arg for a in kern.args.args]
    if sorted(params) != sorted(ROLES[callee]):
        raise Shape(f"parameters of {callee} changed: {params}")
    call = _single_call(fn, callee)
    if len(call.args) != len(params):
        raise Shape(f"{callee} called with {len(call.args)} arguments for {len(params)} parameters")
    vocab = VOCAB[f"{caller}/{callee}"]
    bound = {}
    for p, a in zip(params, call.args, strict=True):
        txt = ast.unparse(a)
        if txt not in vocab:
            raise Shape(f"{caller}: unknown argument `{txt}` for parameter {p} of {callee}")
        bound[p] = vocab[txt]
    for p, want in SPECIAL.items():
        if p in bound and bound[p] != want:
            raise Shape(f"{caller}: parameter {p} of {callee} receives {bound[p]}")
    # the values, in the order of the roles the model's one-iteration function takes them
    order = [r for r in ROLES[callee] if r not in SPECIAL]
    vals = [bound[r] for r in order]
    for v in vals:
        if v not in inputs:
            raise Shape(f"{caller}: {callee} receives {v} where an input is expected")
    args = " ".join(inputs)
    text = (f"(* {caller}: {callee}({', '.join(ast.unparse(a) for a in call.args)});  def {callee}({', '.join(params)}) *)\n"
            f"Definition {coqname} ({args} : list Z) : {' * '.join(['list Z'] * len(vals))} :=\n"
            f"  ({', '.join(vals)}).\n")
    return text, {"params": params, "bound": bound}


def _arith(e, leaves):
    """integer expression over named leaves (matched by exact source text) with + and - only"""
    txt = ast.unparse(e)
    if txt in leaves:
        return leaves[txt]
    if isinstance(e, ast.BinOp) and isinstance(e.op, (ast.Add, ast.Sub)):
        return f"({_arith(e.left, leaves)} {'+' if isinstance(e.op, ast.Add) else '-'} {_arith(e.right, leaves)})"
    raise Shape(f"expression `{txt}` is outside the grammar (names {sorted(leaves)} with + and -)")


def _pad_sites(repo):
    with open(os.path.join(repo, CM)) as f:
        tree = ast.parse(f.read())
    fn = _func(tree, "pad")
    coords = [n for n in ast.walk(fn) if isinstance(n, ast.Assign) and len(n.targets) == 1
              and isinstance(n.targets[0], ast.Name) and n.targets[0].id == "new_coords"]
    if len(coords) != 1:
        raise Shape(f"expected one assignment to new_coords in pad, found {len(coords)}")
    ctext = _arith(coords[0].value, {"array.coords": "c", "pad_width[:, 0:1]": "before"})
    shapes = [n for n in ast.walk(fn) if isinstance(n, ast.Assign) and len(n.targets) == 1
              and isinstance(n.targets[0], ast.Name) and n.targets[0].id == "new_shape"]
    if len(shapes) != 1:
        raise Shape(f"expected one assignment to new_shape in pad, found {len(shapes)}")
    v = shapes[0].value
    # tuple([<elt> for i in range(len(array.shape))])
    comp = [n for n in ast.walk(v) if isinstance(n, ast.ListComp)]
    if len(comp) != 1 or ast.unparse(comp[0].generators[0].iter) != "range(len(array.shape))" or comp[0].generators[0].ifs:
        raise Shape(f"new_shape of pad is no longer a comprehension over the axes: `{ast.unparse(v)}`")
    etext = _arith(comp[0].elt, {"array.shape[i]": "d", "pad_width[i, 0]": "before", "pad_width[i, 1]": "after"})
    ctor = [n for n in ast.walk(fn) if isinstance(n, ast.Return) and isinstance(n.value, ast.Call)
            and ast.unparse(n.value.func) == "COO"]
    if len(ctor) != 1 or [ast.unparse(a) for a in ctor[0].value.args[:3]] != ["new_coords", "new_data", "new_shape"]:
        raise Shape("pad no longer returns COO(new_coords, new_data, new_shape, ...)")
    text = (f"(* _common.pad: new_coords = {ast.unparse(coords[0].value)} *)\n"
            f"Definition s_pad_coord (c before : Z) : Z := {ctext}.\n\n"
            f"(* _common.pad: new_shape[i] = {ast.unparse(comp[0].elt)} *)\n"
            f"Definition s_pad_extent (d before after : Z) : Z := {etext}.\n")
    return text, {"new_coords": ast.unparse(coords[0].value), "new_shape_elt": ast.unparse(comp[0].elt)}


def _control_sites(repo):
    """three statement-level facts:
       roll      : `for sh, ax in zip(shift, axis, strict=True): coords[ax] += sh; coords[ax] %= a.shape[ax]`
                   (a sequential fold over the (shift, axis) pairs: pairs naming the same axis accumulate)
       moveaxis  : both normalize_axis assignments come BEFORE the repeated-destination test
       broadcast_to : `sorted = all(d == 1 for d in diff_nonbroadcast_idx)`"""
    out, rep = [], {}
    # --- roll
    try:
        with open(os.path.join(repo, CC)) as f:
            fn = _func(ast.parse(f.read()), "roll")
        loops = [n for n in ast.walk(fn) if isinstance(n, ast.For)]
        if len(loops) != 1:
            raise Shape(f"roll has {len(loops)} for-loops, expected the one over (shift, axis)")
        lp = loops[0]
        if ast.unparse(lp.target) != "(sh, ax)" or ast.unparse(lp.iter) != "zip(shift, axis, strict=True)":
            raise Shape(f"roll's loop header changed: for {ast.unparse(lp.target)} in {ast.unparse(lp.iter)}")
        body = [ast.unparse(b) for b in lp.body]
        if body != ["coords[ax] += sh", "coords[ax] %= a.shape[ax]"]:
            raise Shape(f"roll's loop body changed: {body}")
        out.append("(* _coo/common.roll: for sh, ax in zip(shift, axis, strict=True): coords[ax] += sh; coords[ax] %= a.shape[ax] *)\n"
                   "Definition s_roll_step (c sh n : Z) : Z := (c + sh) mod n.\n")
        rep["s_roll_step"] = {"status": "ok"}
    except (Shape, OSError, SyntaxError) as ex:
        out.append(f"(* s_roll_step: EXTRACTION FAILED: {ex}\n   FALLBACK text follows (not extracted from the current source) *)\n"
                   "Definition s_roll_step (c sh n : Z) : Z := (c + sh) mod n.\n")
        rep["s_roll_step"] = {"status": "failed", "error": str(ex)}
    # --- moveaxis
    try:
        with open(os.path.join(repo, CM)) as f:
            fn = _func(ast.parse(f.read()), "moveaxis")
        idx = {}
        for k, st in enumerate(fn.body):
            t = ast.unparse(st)
            if t == "source = normalize_axis(source, a.ndim)":
                idx["ns"] = k
            elif t == "destination = normalize_axis(destination, a.ndim)":
                idx["nd"] = k
            elif isinstance(st, ast.If) and ast.unparse(st.test) == "len(set(destination)) < len(destination)":
                idx["rep"] = k
            elif isinstance(st, ast.If) and ast.unparse(st.test) == "len(source) != len(destination)":
                idx["len"] = k
        if set(idx) != {"ns", "nd", "rep", "len"}:
            raise Shape(f"moveaxis: statements not found ({sorted(idx)})")
        first = idx["ns"] < idx["rep"] and idx["nd"] < idx["rep"]
        if not first and not (idx["rep"] < idx["ns"] and idx["rep"] < idx["nd"]):
            raise Shape("moveaxis: normalisation and repeat test interleaved")
        out.append(f"(* _common.moveaxis: normalize_axis(source/destination) at statements {idx['ns']}, {idx['nd']}; "
                   f"repeated-destination test at {idx['rep']} *)\n"
                   f"Definition s_moveaxis_normalize_first : bool := {'true' if first else 'false'}.\n")
        rep["s_moveaxis_normalize_first"] = {"status": "ok", "value": first}
    except (Shape, OSError, SyntaxError) as ex:
        out.append(f"(* s_moveaxis_normalize_first: EXTRACTION FAILED: {ex}; FALLBACK *)\n"
                   "Definition s_moveaxis_normalize_first : bool := true.\n")
        rep["s_moveaxis_normalize_first"] = {"status": "failed", "error": str(ex)}
    # --- broadcast_to
    try:
        with open(os.path.join(repo, UM)) as f:
            fn = _func(ast.parse(f.read()), "broadcast_to")
        asg = [n for n in ast.walk(fn) if isinstance(n, ast.Assign) and ast.unparse(n.targets[0]) == "sorted"]
        if len(asg) != 1:
            raise Shape("broadcast_to: assignment to `sorted` not found")
        t = ast.unparse(asg[0].value)
        if t == "all((d == 1 for d in diff_nonbroadcast_idx))":
            q = True
        elif t == "any((d == 1 for d in diff_nonbroadcast_idx))":
            q = False
        else:
            raise Shape(f"broadcast_to: sorted = {t}")
        ctor = [n for n in ast.walk(fn) if isinstance(n, ast.Call) and ast.unparse(n.func) == "COO"]
        if len(ctor) != 1 or "sorted=sorted" not in ast.unparse(ctor[0]):
            raise Shape("broadcast_to: the COO(...) call no longer passes sorted=sorted")
        out.append(f"(* _umath.broadcast_to: sorted = {t} *)\n"
                   f"Definition s_broadcast_sorted_all : bool := {'true' if q else 'false'}.\n")
        rep["s_broadcast_sorted_all"] = {"status": "ok", "value": q}
    except (Shape, OSError, SyntaxError) as ex:
        out.append(f"(* s_broadcast_sorted_all: EXTRACTION FAILED: {ex}; FALLBACK *)\n"
                   "Definition s_broadcast_sorted_all : bool := true.\n")
        rep["s_broadcast_sorted_all"] = {"status": "failed", "error": str(ex)}
    return "\n".join(out), rep


def generate(repo):
    with open(os.path.join(repo, CV)) as f:
        src = f.read()
    tree = ast.parse(src)
    rep = {}
    parts = []
    for caller, callee, name, inputs in (
            ("_1d_reshape", "_linearize", "s_linearize_call", ["x_indices", "shape", "new_ord", "new_rsh", "new_cshape"]),
            ("_transpose", "_convert_coords", "s_convert_coords_call",
             ["linear", "x_shape", "x_rsh", "sao", "axes", "shape", "new_ord", "new_rsh", "new_cshape"]),
            ("_transpose", "_c_ordering", "s_c_ordering_call", ["linear", "x_rsh", "sao", "x_shape"])):
        try:
            t, r = _site(tree, caller, callee, name, inputs)
            parts.append(t)
            rep[name] = {"status": "ok", **r}
        except Shape as ex:
            parts.append(f"(* {name}: EXTRACTION FAILED: {ex} *)\n")
            rep[name] = {"status": "failed", "error": str(ex)}
    try:
        t, r = _pad_sites(repo)
        parts.append(t)
        rep["s_pad_coord"] = {"status": "ok", **r}
    except (Shape, OSError, SyntaxError) as ex:
        # reported as a FAILED extraction (the check records a broken obligation and exits 1); the definitions below
        # are the last extracted meaning, kept only so that the model still builds and the campaign can search for a
        # concrete failing input
        parts.append(f"(* s_pad_coord / s_pad_extent: EXTRACTION FAILED: {ex}\n"
                     "   FALLBACK text follows (not extracted from the current source) *)\n"
                     "Definition s_pad_coord (c before : Z) : Z := (c + before).\n\n"
                     "Definition s_pad_extent (d before after : Z) : Z := ((d + before) + after).\n")
        rep["s_pad_coord"] = {"status": "failed", "error": str(ex)}
    t, r = _control_sites(repo)
    parts.append(t)
    rep.update(r)
    body = "\n".join(parts)
    digest = hashlib.sha256(body.encode()).hexdigest()[:16]
    text = (f"(* Gen/S_shapeops.v — GENERATED by tools/sitegen/shapeops.py from {CV} and {CM}.\n"
            f"   Do not edit.  digest: {digest} *)\n"
            "From Coq Require Import ZArith List.\nImport ListNotations.\nOpen Scope Z_scope.\n\n" + body)
    return {"S_shapeops.v": text}, rep
