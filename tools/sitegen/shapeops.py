"""Site extractor for C08 (GCXS side): which value is passed for which parameter of the coordinate
kernels of `_compressed/convert.py`.

generate(repo) -> ({"S_shapeops.v": text}, report)

`_1d_reshape` calls `_linearize(...)`, `_transpose` calls `_convert_coords(...)` and (1-d result)
`_c_ordering(...)`.  The kernels themselves are compared with their one-iteration models by the
kernel-level correspondence (tools/props/c08.py); what is extracted here is the CALL: for every
parameter of the kernel's `def`, the call-site expression bound to it, mapped onto the model's
vocabulary.  The output is one Gallina function per call site that takes the model's values under
their call-site names and returns them in the kernel's PARAMETER order; Model/ShapeOpsG.v routes its
kernel applications through these functions, so swapping two arguments of a call (or two parameters of
a def) changes the generated function, the model, and breaks gcxs_reshape_repr / gcxs_transpose_repr.

Fail-closed: unknown expressions, keyword arguments, starred arguments, missing or several calls raise."""
import ast
import hashlib
import os

CV = "sparse/numba_backend/_compressed/convert.py"


class Shape(Exception):
    pass


def _func(tree, name):
    for n in tree.body:
        if isinstance(n, ast.FunctionDef) and n.name == name:
            return n
    raise Shape(f"function {name} not found")


def _single_call(fn, callee):
    calls = [n for n in ast.walk(fn) if isinstance(n, ast.Call) and isinstance(n.func, ast.Name) and n.func.id == callee]
    if len(calls) != 1:
        raise Shape(f"expected exactly one call of {callee} in {fn.name}, found {len(calls)}")
    c = calls[0]
    if c.keywords or any(isinstance(a, ast.Starred) for a in c.args):
        raise Shape(f"call of {callee} in {fn.name} uses keyword/starred arguments")
    return c


# call-site expression text -> model variable
VOCAB = {
    "_1d_reshape/_linearize": {
        "x_indices": "x_indices", "np.array(shape)": "shape", "new_axis_order": "new_ord",
        "new_reordered_shape": "new_rsh", "new_compressed_shape": "new_cshape",
        "new_linear": "OUT_new_linear", "new_coords": "OUT_new_coords",
    },
    "_transpose/_convert_coords": {
        "linear": "linear", "np.asarray(x.shape)": "x_shape", "np.asarray(x._reordered_shape)": "x_rsh",
        "sorted_axis_order": "sao", "np.asarray(axes)": "axes", "np.asarray(shape)": "shape",
        "np.asarray(new_axis_order)": "new_ord", "new_reordered_shape": "new_rsh",
        "new_compressed_shape": "new_cshape", "new_linear": "OUT_new_linear", "new_coords": "OUT_new_coords",
        "transpose": "FLAG_transpose",
    },
    "_transpose/_c_ordering": {
        "linear": "linear", "c_linear": "OUT_c_linear", "np.asarray(x._reordered_shape)": "x_rsh",
        "np.asarray(sorted_axis_order)": "sao", "np.asarray(x.shape)": "x_shape",
    },
}
# kernel parameter -> role in the model (inputs only; OUT_/FLAG_ parameters must receive OUT_/FLAG_ values)
ROLES = {
    "_linearize": ["x_indices", "shape", "new_axis_order", "new_reordered_shape", "new_compressed_shape",
                   "new_linear", "new_coords"],
    "_convert_coords": ["linear", "old_shape", "reordered_shape", "sorted_axis_order", "axes", "shape",
                        "new_axis_order", "new_reordered_shape", "new_linear", "new_coords",
                        "new_compressed_shape", "transpose"],
    "_c_ordering": ["linear", "c_linear", "reordered_shape", "sorted_axis_order", "shape"],
}
SPECIAL = {"new_linear": "OUT_new_linear", "new_coords": "OUT_new_coords", "c_linear": "OUT_c_linear",
           "transpose": "FLAG_transpose"}


def _site(tree, caller, callee, coqname, inputs):
    fn = _func(tree, caller)
    kern = _func(tree, callee)
    params = [a.arg for a in kern.args.args]
    if sorted(params) != sorted(ROLES[callee]):
        raise Shape(f"parameters of {callee} changed: {params}")
    call = _single_call(fn, callee)
    if len(call.args) != len(params):
        raise Shape(f"{callee} called with {len(call.args)} arguments for {len(params)} parameters")
    vocab = VOCAB[f"{caller}/{callee}"]
    bound = {}
    for p, a in zip(params, call.args, strict=True):
        txt = ast.unparse(a)
        if txt not in vocab:
            raise Shape(f"{caller}: unknown argument `{txt}` for parameter {p} of {callee}")
        bound[p] = vocab[txt]
    for p, want in SPECIAL.items():
        if p in bound and bound[p] != want:
            raise Shape(f"{caller}: parameter {p} of {callee} receives {bound[p]}")
    # the values, in the order of the roles the model's one-iteration function takes them
    order = [r for r in ROLES[callee] if r not in SPECIAL]
    vals = [bound[r] for r in order]
    for v in vals:
        if v not in inputs:
            raise Shape(f"{caller}: {callee} receives {v} where an input is expected")
    args = " ".join(inputs)
    text = (f"(* {caller}: {callee}({', '.join(ast.unparse(a) for a in call.args)});  def {callee}({', '.join(params)}) *)\n"
            f"Definition {coqname} ({args} : list Z) : {' * '.join(['list Z'] * len(vals))} :=\n"
            f"  ({', '.join(vals)}).\n")
    return text, {"params": params, "bound": bound}


def generate(repo):
    with open(os.path.join(repo, CV)) as f:
        src = f.read()
    tree = ast.parse(src)
    rep = {}
    parts = []
    for caller, callee, name, inputs in (
            ("_1d_reshape", "_linearize", "s_linearize_call", ["x_indices", "shape", "new_ord", "new_rsh", "new_cshape"]),
            ("_transpose", "_convert_coords", "s_convert_coords_call",
             ["linear", "x_shape", "x_rsh", "sao", "axes", "shape", "new_ord", "new_rsh", "new_cshape"]),
            ("_transpose", "_c_ordering", "s_c_ordering_call", ["linear", "x_rsh", "sao", "x_shape"])):
        try:
            t, r = _site(tree, caller, callee, name, inputs)
            parts.append(t)
            rep[name] = {"status": "ok", **r}
        except Shape as ex:
            parts.append(f"(* {name}: EXTRACTION FAILED: {ex} *)\n")
            rep[name] = {"status": "failed", "error": str(ex)}
    body = "\n".join(parts)
    digest = hashlib.sha256(body.encode()).hexdigest()[:16]
    text = (f"(* Gen/S_shapeops.v — GENERATED by tools/sitegen/shapeops.py from {CV}.\n"
            f"   Do not edit.  digest: {digest} *)\n"
            "From Coq Require Import ZArith List.\nImport ListNotations.\nOpen Scope Z_scope.\n\n" + body)
    return {"S_shapeops.v": text}, rep
