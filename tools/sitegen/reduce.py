"""Site extractor for the reductions area (property C03) -> coq/Gen/S_reduce.v.

Regenerated from /repo's working tree on every run (fail-closed: any deviation from the expected
syntactic shape raises SiteError, which the build records as a broken obligation):

 1. `s_super_table` — the dict literal `_reduce_super_ufunc = {np.add: np.multiply, ...}` of
    `_sparse_array.py` as a list of (ufunc code, ufunc code).
 2. `s_reduce_head` — the statements of `SparseArray.reduce` that precede the call of
    `self._reduce_calc(...)`: axis normalisation (calling the generated `g_normalize_axis`), the
    admissibility test `not equivalent(method.reduce([fill, fill]), fill) and super is None ->
    ValueError`, and `axis = (axis,)`.  Translated by py2v's statement translator; the array-level
    expressions are externs whose meaning on Python ints is in Lib/PyReduce.v.
 3. `s_reduce_fix` — the statements of `SparseArray.reduce` between the unpacking of
    `_reduce_calc`'s result and the call of `self._reduce_return`: `result_fill_value = self.fill_value`
    and the three-way correction `if n_cols == 0 / elif reduce_super_ufunc is None / else`, read per
    output cell (`data`, `counts` are the cell's reduced stored value and stored count).  A
    boolean-mask assignment `data[m] = f(data[m], e[m])` is rewritten to `if m: data = f(data, e)`
    (the element-wise meaning of a masked update) and a branch-local abbreviation (`fill_value = ...`)
    is inlined; both rules are part of the trusted translator.  `s_fix_fill_in_acc_dtype` records
    whether the add/multiply correction takes the fill value cast to data.dtype (the accumulation dtype).
 4. `s_calc_axis_elt` — the element expression `a if a >= 0 else a + self.ndim` of the generator in
    `COO._reduce_calc`.
 5. `s_mean_dtype`, `s_var_dtype` — the dtype-promotion decisions of `SparseArray.mean` (`if dtype is None: ...`
    giving the result dtype and the accumulation dtype) and `SparseArray.var`, over dtype codes
    (DTYPE_CODES).  A class test `issubclass(<d>.type, A | B)` / `np.issubdtype(<d>, A)` is evaluated
    against NumPy's scalar-type hierarchy (CLASS_MEMBERS) into the list of dtype codes it accepts,
    emitted as `s_<fn>_test<k>_kinds`; the test expression itself becomes membership in that list.
 6. pins: source lines that Model/Reduce.v transcribes by hand must be present verbatim."""
import ast
import hashlib
import os
import sys

sys.path.insert(0, os.path.dirname(os.path.dirname(os.path.abspath(__file__))))
import py2v  # noqa: E402

SA = "sparse/numba_backend/_sparse_array.py"
COO = "sparse/numba_backend/_coo/core.py"
GCXS = "sparse/numba_backend/_compressed/compressed.py"

UFUNC_CODES = {"add": 0, "multiply": 1, "minimum": 2, "maximum": 3, "logical_or": 4, "logical_and": 5,
               "bitwise_or": 6, "bitwise_and": 7, "bitwise_xor": 8, "power": 9}

# dtype codes and NumPy's abstract scalar types as sets of codes
DTYPE_CODES = {"bool": 0, "int8": 1, "int16": 2, "int32": 3, "int64": 4, "uint8": 5, "uint16": 6, "uint32": 7,
               "uint64": 8, "float16": 9, "float32": 10, "float64": 11, "complex64": 12, "complex128": 13}
_SIGNED, _UNSIGNED, _FLOAT, _COMPLEX = [1, 2, 3, 4], [5, 6, 7, 8], [9, 10, 11], [12, 13]
CLASS_MEMBERS = {"np.bool_": [0], "np.integer": _SIGNED + _UNSIGNED, "np.signedinteger": _SIGNED,
                 "np.unsignedinteger": _UNSIGNED, "np.floating": _FLOAT, "np.complexfloating": _COMPLEX,
                 "np.inexact": _FLOAT + _COMPLEX, "np.number": _SIGNED + _UNSIGNED + _FLOAT + _COMPLEX,
                 "np.float16": [9], "np.float32": [10], "np.float64": [11], "np.generic": list(range(14))}
DTYPE_LITERALS = {"np.dtype('f8')": 11, "np.dtype('f4')": 10, "np.dtype('f2')": 9}

# (file, function, statement text as ast.unparse prints it) that the hand-written model transcribes
PINS = [
    (SA, "SparseArray.reduce", "result_fill_value = self.fill_value"),
    (SA, "SparseArray.reduce", "out = self._reduce_return(data, arr_attrs, result_fill_value)"),
    (SA, "SparseArray.reduce", "shape = list(self.shape)"),
    (SA, "SparseArray.reduce", "shape[ax] = 1"),
    (SA, "SparseArray.reduce", "out = out.reshape(shape)"),
    (SA, "SparseArray.reduce", "return out[()]"),
    (SA, "SparseArray.sum", "return np.add.reduce(self, out=out, axis=axis, keepdims=keepdims, dtype=dtype)"),
    (SA, "SparseArray.prod", "return np.multiply.reduce(self, out=out, axis=axis, keepdims=keepdims, dtype=dtype)"),
    (SA, "SparseArray.max", "return np.maximum.reduce(self, out=out, axis=axis, keepdims=keepdims)"),
    (SA, "SparseArray.min", "return np.minimum.reduce(self, out=out, axis=axis, keepdims=keepdims)"),
    (SA, "SparseArray.any", "return np.logical_or.reduce(self, out=out, axis=axis, keepdims=keepdims)"),
    (SA, "SparseArray.all", "return np.logical_and.reduce(self, out=out, axis=axis, keepdims=keepdims)"),
    (COO, "COO._reduce_calc", "axis = tuple(range(self.ndim))"),
    (COO, "COO._reduce_calc", "neg_axis = tuple((ax for ax in range(self.ndim) if ax not in set(axis)))"),
    (COO, "COO._reduce_calc", "a = self.transpose(neg_axis + axis)"),
    (COO, "COO._reduce_calc",
     "a = a.reshape((np.prod([self.shape[d] for d in neg_axis], dtype=np.intp), "
     "np.prod([self.shape[d] for d in axis], dtype=np.intp)))"),
    (COO, "COO._reduce_calc", "data, inv_idx, counts = _grouped_reduce(a.data, a.coords[0], method, **kwargs)"),
    (COO, "COO._reduce_calc", "n_cols = a.shape[1]"),
    (COO, "COO._reduce_return", "coords = a.coords[0:1, inv_idx]"),
    (COO, "COO._reduce_return",
     "out = COO(coords, data, shape=(a.shape[0],), has_duplicates=False, sorted=True, prune=True, "
     "fill_value=result_fill_value)"),
    (COO, "COO._reduce_return", "return out.reshape(tuple((self.shape[d] for d in neg_axis)))"),
    (COO, "_grouped_reduce", "inv_idx, counts = _calc_counts_invidx(groups)"),
    (COO, "_grouped_reduce", "result = method.reduceat(x, inv_idx, **kwargs)"),
    (GCXS, "GCXS._reduce_calc", 'raise ValueError("duplicate value in \'axis\'")'),
    (GCXS, "GCXS._reduce_calc", "out = self.tocoo().reduce(method, axis=axis, keepdims=keepdims, **kwargs)"),
    (GCXS, "GCXS._reduce_calc", "return (out.asformat('gcxs', compressed_axes=self.compressed_axes),)"),
    (GCXS, "GCXS._reduce_calc", "x = self.flatten().tocoo()"),
    (GCXS, "GCXS._reduce_calc", "out = x.reduce(method, axis=None, keepdims=keepdims, **kwargs)"),
    (GCXS, "GCXS._reduce_calc", "return (out.reshape(np.ones(self.ndim, dtype=np.intp)),)"),
    (GCXS, "GCXS._reduce_calc", "compressed_axes = [a for a in r if a not in set(axis)]"),
    (GCXS, "GCXS._reduce_calc", "x = self.change_compressed_axes(compressed_axes)"),
    (GCXS, "GCXS._reduce_calc", "idx = np.diff(x.indptr) != 0"),
    (GCXS, "GCXS._reduce_calc", "indptr = x.indptr[:-1][idx]"),
    (GCXS, "GCXS._reduce_calc", "data = method.reduceat(x.data, indptr, **kwargs)"),
    (GCXS, "GCXS._reduce_calc", "counts = x.indptr[1:][idx] - x.indptr[:-1][idx]"),
    (GCXS, "GCXS._reduce_calc", "n_cols = x._compressed_shape[1]"),
    (GCXS, "GCXS._reduce_return", "mask = ~equivalent(data, result_fill_value)"),
    (GCXS, "GCXS._reduce_return", "return out.reshape(tuple((self.shape[d] for d in compressed_axes)))"),
]
# tests of `if` statements that the model transcribes
PIN_TESTS = [
    (SA, "SparseArray.reduce", "reduce_super_ufunc is None"),
    (SA, "SparseArray.reduce", "n_cols == 0"),
    (SA, "SparseArray.reduce", "keepdims"),
    (SA, "SparseArray.reduce", "out.ndim == 0"),
    (SA, "SparseArray.reduce", "len(out) == 1"),
    (COO, "COO._reduce_calc", "axis == (None,)"),
    (GCXS, "GCXS._reduce_calc", "axis[0] is None or np.array_equal(np.sort(axis), np.arange(self.ndim, dtype=np.intp))"),
    (GCXS, "GCXS._reduce_calc", "len(set(axis)) != len(axis)"),
    (GCXS, "GCXS._reduce_calc", "len(axis) == 0"),
    (COO, "_calc_counts_invidx", "len(groups) == 0"),
    (COO, "_calc_counts_invidx", "groups[i] != last_group"),
]


class SiteError(Exception):
    pass


def _parse(repo, rel):
    with open(os.path.join(repo, rel)) as f:
        return ast.parse(f.read())


def _fn(tree, qual):
    try:
        return py2v.find_function(tree, qual)
    except py2v.Unsupported as ex:
        raise SiteError(str(ex)) from ex


def _strip_doc(stmts):
    if stmts and isinstance(stmts[0], ast.Expr) and isinstance(stmts[0].value, ast.Constant) \
            and isinstance(stmts[0].value.value, str):
        return stmts[1:]
    return stmts


def _translate(name, stmts, params, result, extern, frag_names, what):
    tr = py2v.Tr(frag_names, extern)
    tail = lambda env: "Ok (VTuple [%s])" % "; ".join(py2v.cname(v) for v in result)  # noqa: E731
    try:
        body = tr.S(stmts, set(params), tail)
    except py2v.Unsupported as ex:
        raise SiteError(f"{name}: {ex}") from ex
    missing = set(extern) - tr.used_extern
    if missing:
        raise SiteError(f"{name}: extern keys no longer present in source: {sorted(missing)}")
    seg = "\n".join(ast.unparse(s) for s in stmts)
    h = hashlib.sha256(seg.encode()).hexdigest()[:16]
    args = " ".join(f"({py2v.cname(p)} : pyv)" for p in params)
    return (f"(* {what} srchash={h} *)\nDefinition {name} {args} : res pyv :=\n{body}.\n"), h


def _class_members(e):
    """codes accepted by a class expression: np.X or a union A | B | ..."""
    if isinstance(e, ast.BinOp) and isinstance(e.op, ast.BitOr):
        return sorted(set(_class_members(e.left)) | set(_class_members(e.right)))
    if isinstance(e, ast.Tuple):
        return sorted(set().union(*[set(_class_members(x)) for x in e.elts]))
    t = ast.unparse(e)
    if t not in CLASS_MEMBERS:
        raise SiteError(f"dtype class `{t}` outside the scalar-type table")
    return list(CLASS_MEMBERS[t])


def _dtype_tests(stmts, subject_names):
    """every class test in stmts -> (source text, subject Coq name, accepted codes)"""
    out = []
    for st in stmts:
        for n in ast.walk(st):
            if not isinstance(n, ast.Call):
                continue
            f = ast.unparse(n.func)
            if f == "issubclass" and len(n.args) == 2 and isinstance(n.args[0], ast.Attribute) and n.args[0].attr == "type":
                subj = ast.unparse(n.args[0].value)
            elif f == "np.issubdtype" and len(n.args) == 2:
                subj = ast.unparse(n.args[0])
            elif f in ("issubclass", "np.issubdtype", "isinstance"):
                raise SiteError(f"dtype test `{ast.unparse(n)}` has an unexpected shape")
            else:
                continue
            if subj not in subject_names:
                raise SiteError(f"dtype test on `{subj}`: unknown subject")
            out.append((ast.unparse(n), subject_names[subj], _class_members(n.args[1])))
    return out


class _SplitChained(ast.NodeTransformer):
    """a = b = v  ->  b = v; a = v   (v is a pure expression here)"""

    def visit_Assign(self, node):
        if len(node.targets) > 1:
            return [ast.Assign(targets=[t], value=node.value, lineno=0) for t in reversed(node.targets)]
        return node


def _dtype_fragment(out, rep, tree, qual, name, pick, params, result, what):
    fn = _fn(tree, qual)
    st = None
    for n in fn.body:
        if isinstance(n, ast.If) and pick(ast.unparse(n.test)):
            st = n
            break
    if st is None:
        raise SiteError(f"{qual}: the dtype decision statement was not found")
    blk = ast.parse(ast.unparse(st)).body
    blk = [ast.fix_missing_locations(_SplitChained().visit(b)) for b in blk]
    extern = {"self.dtype": "Ok self_dtype"}
    for lit, code in DTYPE_LITERALS.items():
        if any(lit in ast.unparse(b) for b in blk):
            extern[lit] = f"Ok (VInt {code})"
    tests = _dtype_tests(blk, {"self.dtype": "self_dtype", "dtype": "dtype"})
    if not tests:
        raise SiteError(f"{qual}: no dtype class test found")
    for k, (src, subj, codes) in enumerate(tests, 1):
        out.append(f"(* codes of the dtypes accepted by `{src}` *)\n"
                   f"Definition {name}_test{k}_kinds : list Z := [%s].\n" % "; ".join(str(c) for c in codes))
        extern[src] = f"ext_dtype_in {name}_test{k}_kinds {subj}"
    if not any("self.dtype" == ast.unparse(n) for b in blk for n in ast.walk(b)
               if isinstance(n, ast.Attribute) and not _inside_extern(n, b, extern)):
        extern.pop("self.dtype")
    text, h = _translate(name, blk, params, result, extern, {}, what)
    out.append(text)
    rep[name] = {"status": "ok", "hash": h, "tests": [(t[0], t[2]) for t in tests]}


def _inside_extern(node, root, extern):
    """is `node` part of a sub-expression of root whose source text is an extern key (other than itself)?"""
    for n in ast.walk(root):
        if n is node:
            continue
        if isinstance(n, ast.expr) and ast.unparse(n) in extern and ast.unparse(n) != "self.dtype":
            if any(m is node for m in ast.walk(n)):
                return True
    return False


def _inline_branch_locals(stmts, keep):
    """A name assigned exactly once in the block, inside a branch, and read only later in that same branch is a
    branch-local abbreviation: its (pure) definition is substituted for its uses and the assignment dropped
    (py2v's SSA conversion needs every variable assigned in an `if` to be defined on both paths)."""
    counts = {}
    for st in stmts:
        for n in ast.walk(st):
            if isinstance(n, ast.Assign):
                for t in n.targets:
                    if isinstance(t, ast.Name):
                        counts[t.id] = counts.get(t.id, 0) + 1
    top = {t.id for st in stmts if isinstance(st, ast.Assign) for t in st.targets if isinstance(t, ast.Name)}
    inlined = []

    def body(lst):
        out = []
        for i, st in enumerate(lst):
            if isinstance(st, ast.Assign) and len(st.targets) == 1 and isinstance(st.targets[0], ast.Name):
                v = st.targets[0].id
                if counts.get(v) == 1 and v not in keep and v not in top:
                    val = st.value

                    class Sub(ast.NodeTransformer):
                        def visit_Name(self, n):
                            if n.id == v and isinstance(n.ctx, ast.Load):
                                return ast.parse(ast.unparse(val), mode="eval").body
                            return n
                    rest = [ast.fix_missing_locations(Sub().visit(x)) for x in lst[i + 1:]]
                    inlined.append(v)
                    return out + body(rest)
            if isinstance(st, ast.If):
                st.body = body(st.body)
                st.orelse = body(st.orelse)
            out.append(st)
        return out
    res = body(list(stmts))
    for v in inlined:
        for st in res:
            for n in ast.walk(st):
                if isinstance(n, ast.Name) and n.id == v:
                    raise SiteError(f"branch-local `{v}` is used outside the branch that defines it")
    return res, inlined


class _MaskedAssign(ast.NodeTransformer):
    """data[m] = f(..data[m].., ..e[m]..)  ->  if m: data = f(..data.., ..e..)   (m, data plain names)"""

    def __init__(self):
        self.count = 0

    def visit_Assign(self, node):
        if len(node.targets) == 1 and isinstance(node.targets[0], ast.Subscript):
            t = node.targets[0]
            if isinstance(t.value, ast.Name) and isinstance(t.slice, ast.Name):
                arr, mask = t.value.id, t.slice.id

                class Sub(ast.NodeTransformer):
                    def visit_Subscript(self, n):
                        if isinstance(n.slice, ast.Name) and n.slice.id == mask:
                            return self.visit(n.value)       # e[mask] read per cell is e
                        return self.generic_visit(n)
                val = Sub().visit(node.value)
                self.count += 1
                new = ast.If(test=ast.Name(id=mask, ctx=ast.Load()),
                             body=[ast.Assign(targets=[ast.Name(id=arr, ctx=ast.Store())], value=val, lineno=0)],
                             orelse=[])
                return ast.fix_missing_locations(new)
        return node


def generate(repo):
    rep = {}
    out = ["(* GENERATED by tools/sitegen/reduce.py from /repo — do not edit *)\n"
           "From Coq Require Import ZArith List Bool.\n"
           "From Verif Require Import Py PyExt PyReduce G_reduce.\n"
           "Import ListNotations.\nOpen Scope Z_scope.\n"]
    sa = _parse(repo, SA)
    coo = _parse(repo, COO)
    gc = _parse(repo, GCXS)
    trees = {SA: sa, COO: coo, GCXS: gc}

    # 1. the super-ufunc table
    table = None
    for n in sa.body:
        if isinstance(n, ast.Assign) and len(n.targets) == 1 and isinstance(n.targets[0], ast.Name) \
                and n.targets[0].id == "_reduce_super_ufunc":
            if not isinstance(n.value, ast.Dict):
                raise SiteError("_reduce_super_ufunc is not a dict literal")
            table = []
            for k, v in zip(n.value.keys, n.value.values, strict=True):
                ks, vs = ast.unparse(k), ast.unparse(v)
                if not (ks.startswith("np.") and vs.startswith("np.") and ks[3:] in UFUNC_CODES and vs[3:] in UFUNC_CODES):
                    raise SiteError(f"_reduce_super_ufunc entry {ks}: {vs} outside the ufunc code table")
                table.append((UFUNC_CODES[ks[3:]], UFUNC_CODES[vs[3:]]))
    if table is None:
        raise SiteError("_reduce_super_ufunc not found")
    out.append("(* _reduce_super_ufunc of _sparse_array.py *)\nDefinition s_super_table : list (Z * Z) := [%s].\n"
               % "; ".join(f"({a}, {b})" for a, b in table))
    rep["s_super_table"] = {"status": "ok", "table": table}

    # 2. head of SparseArray.reduce
    red = _fn(sa, "SparseArray.reduce")
    body = _strip_doc(list(red.body))
    cut = None
    for i, s in enumerate(body):
        if isinstance(s, ast.Assign) and ast.unparse(s.value) == "self._reduce_calc(method, axis, keepdims, **kwargs)":
            cut = i
            break
    if cut is None:
        raise SiteError("call of self._reduce_calc(method, axis, keepdims, **kwargs) not found in SparseArray.reduce")
    text, h = _translate(
        "s_reduce_head", body[:cut], ["method", "fill", "axis", "ndim"], ["axis", "reduce_super_ufunc"],
        {"self.ndim": "Ok ndim",
         "method.reduce([self.fill_value, self.fill_value], **kwargs)": "ext_apply method fill fill",
         "_reduce_super_ufunc.get(method)": "ext_table_get s_super_table method",
         "equivalent(zero_reduce_result, self.fill_value)": "py_eq zero_reduce_result fill"},
        {"normalize_axis": "g_normalize_axis"},
        "SparseArray.reduce, statements before the call of self._reduce_calc")
    out.append(text)
    rep["s_reduce_head"] = {"status": "ok", "hash": h}

    # 3. the fill correction, per output cell
    i0 = i1 = None
    for i, st in enumerate(body):
        if isinstance(st, ast.Assign) and ast.unparse(st) == "data, counts, axis, n_cols, arr_attrs = out":
            i0 = i + 1
        if isinstance(st, ast.Assign) and ast.unparse(st.value) == "self._reduce_return(data, arr_attrs, result_fill_value)":
            i1 = i
    if i0 is None or i1 is None or i1 <= i0:
        raise SiteError("the correction block of SparseArray.reduce was not found between the unpacking of "
                        "_reduce_calc's result and the call of _reduce_return")
    blk = [ast.parse(ast.unparse(st)).body[0] for st in body[i0:i1]]
    ma = _MaskedAssign()
    blk = [ma.visit(st) for st in blk]
    blk = [ast.fix_missing_locations(st) for st in blk]
    blk, inl = _inline_branch_locals(blk, {"data", "result_fill_value", "missing_counts"})
    if ma.count != 2:
        raise SiteError(f"expected two masked assignments in the correction block, found {ma.count}")
    text, h = _translate(
        "s_reduce_fix", blk, ["method", "reduce_super_ufunc", "fill", "data", "counts", "n_cols"],
        ["data", "result_fill_value"],
        {"self.fill_value": "Ok fill",
         "method.identity": "ext_identity method",
         "method.reduce(np.empty((0,), dtype=self.dtype), **kwargs)": "ext_identity method",
         "method(data, self.fill_value, **kwargs)": "ext_apply method data fill",
         # the fill value cast to the accumulation dtype of the grouped reduction: the same integer
         # data.dtype.type(self.fill_value): the fill value cast to the accumulation dtype — the same integer
         "method(data, reduce_super_ufunc(data.dtype.type(self.fill_value), n_cols - counts)).astype(data.dtype)":
             "(m_ <- py_sub n_cols counts ;; s_ <- ext_apply reduce_super_ufunc fill m_ ;; ext_apply method data s_)",
         "reduce_super_ufunc(data.dtype.type(self.fill_value), n_cols)": "ext_apply reduce_super_ufunc fill n_cols"}, {},
        "SparseArray.reduce, from `result_fill_value = self.fill_value` to the call of _reduce_return, per output cell "
        "(masked assignments rewritten)")
    out.append(text)
    rep["s_reduce_fix"] = {"status": "ok", "hash": h}
    # in which dtype is the add/multiply correction computed?  1: the fill value is first cast to data.dtype (the
    # accumulation dtype of reduceat: NumPy's platform integer for narrow ints); 0: self.fill_value as it is
    calls = [n for st in body[i0:i1] for n in ast.walk(st)
             if isinstance(n, ast.Call) and ast.unparse(n.func) == "reduce_super_ufunc"]
    if len(calls) != 2:
        raise SiteError("expected two calls of reduce_super_ufunc in the correction block")
    firsts = {ast.unparse(c_.args[0]) for c_ in calls}
    casts = [st for st in ast.walk(red) if isinstance(st, ast.Assign) and ast.unparse(st.targets[0]) == "fill_value"]
    if firsts == {"fill_value"} and len(casts) == 1 and ast.unparse(casts[0].value) == "data.dtype.type(self.fill_value)":
        src = 1
    elif firsts == {"self.fill_value"}:
        src = 0
    else:
        raise SiteError(f"fill operand of reduce_super_ufunc has an unexpected form: {sorted(firsts)}")
    out.append("(* dtype of the fill operand of the add/multiply correction: 1 = cast to data.dtype (accumulation dtype), "
               "0 = the array's own dtype *)\nDefinition s_fix_fill_in_acc_dtype : Z := %d.\n" % src)
    rep["s_fix_fill_in_acc_dtype"] = {"status": "ok", "value": src}

    # 4. COO._reduce_calc: element expression of the axis generator
    calc = _fn(coo, "COO._reduce_calc")
    elt = None
    for s in calc.body:
        if isinstance(s, ast.Assign) and isinstance(s.value, ast.Call) and ast.unparse(s.value.func) == "tuple" \
                and len(s.value.args) == 1 and isinstance(s.value.args[0], ast.GeneratorExp) \
                and ast.unparse(s.targets[0]) == "axis":
            g = s.value.args[0]
            if len(g.generators) != 1 or g.generators[0].ifs or ast.unparse(g.generators[0].target) != "a" \
                    or ast.unparse(g.generators[0].iter) != "axis":
                raise SiteError("axis generator of COO._reduce_calc has an unexpected shape")
            elt = g.elt
    if elt is None:
        raise SiteError("axis = tuple(... for a in axis) not found in COO._reduce_calc")
    text, h = _translate("s_calc_axis_elt", [ast.Return(value=elt)], ["a", "ndim"], [],
                         {"self.ndim": "Ok ndim"}, {},
                         "COO._reduce_calc, element of `axis = tuple(<elt> for a in axis)`")
    out.append(text)
    rep["s_calc_axis_elt"] = {"status": "ok", "hash": h}

    # 5. dtype promotion of mean / var
    _dtype_fragment(out, rep, sa, "SparseArray.mean", "s_mean_dtype", lambda t: t == "dtype is None",
                    ["self_dtype", "dtype"], ["dtype", "inter_dtype"],
                    "SparseArray.mean, `if dtype is None: ... else: ...` over dtype codes")
    _dtype_fragment(out, rep, sa, "SparseArray.var", "s_var_dtype", lambda t: t.startswith("dtype is None and "),
                    ["self_dtype", "dtype"], ["dtype"],
                    "SparseArray.var, `if dtype is None and <integer or bool>: dtype = f8` over dtype codes")

    # 5b. sparse.nanmean: the array result is cast back to the dtype of the sum
    cm = _parse(repo, "sparse/numba_backend/_coo/common.py")
    nm = _fn(cm, "nanmean")
    rets = [ast.unparse(n) for n in ast.walk(nm) if isinstance(n, ast.Return)]
    if "return out.astype(num.dtype) if out.dtype != num.dtype else out" in rets:
        flag = 1
    elif "return np.true_divide(num, den, casting='unsafe')" in rets:
        flag = 0
    else:
        raise SiteError("nanmean: the return of the array branch has an unexpected form")
    out.append("(* nanmean, array result: 1 = cast back to the dtype of the sum, 0 = true_divide's promotion *)\n"
               "Definition s_nanmean_keeps_sum_dtype : Z := %d.\n" % flag)
    rep["s_nanmean_keeps_sum_dtype"] = {"status": "ok", "value": flag}

    # 6. pins
    def stmts_of(rel, qual):
        f = _fn(trees[rel], qual)
        return [n for n in ast.walk(f) if isinstance(n, ast.stmt)]
    missing = []
    for rel, qual, text_ in PINS:
        if not any(ast.unparse(s) == text_ for s in stmts_of(rel, qual) if not isinstance(s, (ast.If, ast.For, ast.FunctionDef))):
            missing.append(f"{qual}: {text_}")
    for rel, qual, text_ in PIN_TESTS:
        if not any(isinstance(s, ast.If) and ast.unparse(s.test) == text_ for s in stmts_of(rel, qual)):
            missing.append(f"{qual}: if {text_}")
    if missing:
        raise SiteError("source lines transcribed by Model/Reduce.v are no longer present: " + " | ".join(missing))
    rep["pins"] = {"status": "ok", "count": len(PINS) + len(PIN_TESTS)}
    out.append("(* %d source pins verified *)\n" % (len(PINS) + len(PIN_TESTS)))
    return {"S_reduce.v": "\n".join(out)}, rep


if __name__ == "__main__":
    files, rep = generate(sys.argv[1] if len(sys.argv) > 1 else "/repo")
    for k, v in files.items():
        print(v)
    print(rep)
