"""Site facts of the MLIR backend (C20) -> coq/Gen/S_mlir.v.

Extracted from the AST of /repo/sparse/mlir_backend/{_common,_array,_conversions,_ops,formats}.py:

* the `_hold_ref(owner, obj)` call sites (which object keeps which alive): view -> storage in
  `Storage.get_constituent_arrays`, storage -> input array in `Storage.from_constituent_arrays`;
  the attribute edge Array -> storage in `Array.__init__`; the meaning of `_hold_ref` itself
  (Py_IncRef on obj now, Py_DecRef in a `weakref.finalize(owner, ...)`);
* the `owns_memory` facts: default of `_get_ctypes_type`, the value at every call site
  (`from_constituent_arrays`: default; `add`/`asformat`/`reshape`: True), `__del__` defined only under
  `if owns_memory:` and freeing every field with `free_memref`;
* keyword facts of the `_determine_format` calls (`union=True` in add; `union=len(shape) > x.ndim`,
  `out_ndim=len(shape)` in reshape); `asformat` returning `x` itself when the format is equal;
* the constituent-array orders of `_from_scipy` / `to_scipy` and the csr/csc level orders;
* which sequence `to_numpy` iterates over to build `storage_shape`.

Fail-closed: any shape of the source this module does not recognise raises SiteError (recorded by
vlib.Build.regenerate as a broken obligation).  The model (coq/Model/Mlir.v) takes these definitions
as its parameters, and Props/C20.v proves `sites_ok` (= every required edge is present) by computation,
so removing a `_hold_ref` call or flipping an `owns_memory` flag breaks a proof at the next build.

generate(repo) -> ({"S_mlir.v": coq_text}, report)"""
import ast
import hashlib
import os
import sys

sys.path.insert(0, os.path.dirname(os.path.dirname(os.path.abspath(__file__))))
import py2v  # noqa: E402

BASE = "sparse/mlir_backend"


class SiteError(Exception):
    pass


def _need(c, msg):
    if not c:
        raise SiteError(msg)


def _parse(repo, name):
    p = os.path.join(repo, BASE, name)
    txt = open(p).read()
    return ast.parse(txt), hashlib.sha256(txt.encode()).hexdigest()[:16]


def _func(tree, qual):
    """find a (possibly nested) def/class by dotted path"""
    node = tree
    for part in qual.split("."):
        found = None
        for ch in ast.walk(node):
            if ch is node:
                continue
            if isinstance(ch, ast.FunctionDef | ast.ClassDef) and ch.name == part:
                found = ch
                break
        _need(found is not None, f"{qual}: `{part}` not found")
        node = found
    return node


def _calls(node, fname):
    out = []
    for ch in ast.walk(node):
        if isinstance(ch, ast.Call):
            f = ch.func
            nm = f.id if isinstance(f, ast.Name) else f.attr if isinstance(f, ast.Attribute) else None
            if nm == fname:
                out.append(ch)
    return out


def _u(n):
    return ast.unparse(n)


def _b(x):
    return "true" if x else "false"


def _zl(xs):
    return "[" + "; ".join(str(int(x)) for x in xs) + "]"


# names of constituent arrays, as numbers
ARR = {"indptr": 0, "indices": 1, "data": 2, "pos": 3, "row": 4, "col": 5, "_": 9}


def _hold_ref_edges(fn):
    """[(owner text, obj text, loop target, loop iterable)] for the _hold_ref calls made UNCONDITIONALLY by fn:
    only `for` loops that are direct statements of the function body count.  Returns (edges, all_unconditional):
    a _hold_ref call anywhere else (under an `if`, in a nested block) makes all_unconditional False."""
    out = []
    for node in fn.body:
        if isinstance(node, ast.For) and not node.orelse:
            for st in node.body:
                if isinstance(st, ast.Expr) and isinstance(st.value, ast.Call) and _calls(st, "_hold_ref") \
                        and st.value in _calls(st, "_hold_ref"):
                    c = st.value
                    _need(len(c.args) == 2 and not c.keywords, "_hold_ref: unexpected arguments")
                    out.append((_u(c.args[0]), _u(c.args[1]), _u(node.target), _u(node.iter)))
    n_all = len(_calls(fn, "_hold_ref"))
    return out, n_all == len(out)


def extract(repo):
    rep = {}
    facts = {}
    # ------------------------------------------------------------ _common.py
    t, h = _parse(repo, "_common.py")
    rep["_common.py"] = {"status": "ok", "hash": h}
    hr = _func(t, "_hold_ref")
    _need([a.arg for a in hr.args.args] == ["owner", "obj"], "_hold_ref signature changed")
    src = _u(hr)
    inc = _calls(hr, "Py_IncRef")
    dec = _calls(hr, "Py_DecRef")
    fin = _calls(hr, "finalize")
    _need(len(inc) == 1 and len(dec) == 1 and len(fin) == 1, "_hold_ref: IncRef/DecRef/finalize shape changed")
    _need("ptr = ctypes.py_object(obj)" in src and _u(inc[0].args[0]) == "ptr", "_hold_ref: IncRef not on obj")
    _need(_u(fin[0].args[0]) == "owner" and _u(fin[0].args[1]) == "finalizer" and _u(fin[0].args[2]) == "ptr",
          "_hold_ref: finalize(owner, finalizer, ptr) changed")
    # the DecRef must be inside the nested finalizer only
    fz = _func(hr, "finalizer")
    _need(len(_calls(fz, "Py_DecRef")) == 1, "_hold_ref: DecRef not in finalizer")
    facts["site_hold_ref_strong"] = True
    fm = _func(t, "free_memref")
    _need(_u(fm.body[-1]) == "libc.free(ctypes.cast(obj.allocated, ctypes.c_void_p))", "free_memref changed")

    # ------------------------------------------------------------ formats.py
    t, h = _parse(repo, "formats.py")
    rep["formats.py"] = {"status": "ok", "hash": h}
    gct = _func(t, "ConcreteFormat._get_ctypes_type")
    kw = {a.arg: d for a, d in zip(gct.args.kwonlyargs, gct.args.kw_defaults, strict=True)}
    _need("owns_memory" in kw and isinstance(kw["owns_memory"], ast.Constant)
          and isinstance(kw["owns_memory"].value, bool), "_get_ctypes_type: owns_memory default not a bool constant")
    facts["site_owns_default"] = kw["owns_memory"].value
    st = _func(gct, "Storage")
    gca = _func(st, "get_constituent_arrays")
    e, uncond = _hold_ref_edges(gca)
    # view -> storage : for arr in arrays: _hold_ref(arr, self), arrays being the returned tuple of views
    ok = (uncond and len(e) == 1 and e[0][0] == e[0][2] and e[0][1] == "self" and e[0][3] == "arrays"
          and _u(gca.body[-1]) == "return arrays"
          and "arrays = tuple((ranked_memref_to_numpy(field) for field in self.get__fields_()))" in _u(gca))
    _need(len(e) <= 1, "get_constituent_arrays: unexpected _hold_ref calls")
    _need("ranked_memref_to_numpy(field) for field in self.get__fields_()" in _u(gca),
          "get_constituent_arrays: views no longer built from every field")
    facts["site_edge_view_storage"] = bool(ok)
    fca = _func(st, "from_constituent_arrays")
    e, uncond = _hold_ref_edges(fca)
    _need(len(e) <= 1, "from_constituent_arrays: unexpected _hold_ref calls")
    _need("storage = cls(*(numpy_to_ranked_memref(arr) for arr in arrs))" in _u(fca),
          "from_constituent_arrays: storage no longer built from memrefs of the arrays")
    ok = (uncond and len(e) == 1 and e[0][0] == "storage" and e[0][1] == e[0][2] and e[0][3] == "arrs"
          and _u(fca.body[-1]) == "return storage")
    facts["site_edge_storage_input"] = bool(ok)
    # __del__ only under `if owns_memory:` and freeing every field
    dels = [n for n in ast.walk(st) if isinstance(n, ast.FunctionDef) and n.name == "__del__"]
    _need(len(dels) <= 1, "more than one __del__")
    guarded = False
    frees_all = False
    for n in st.body:
        if isinstance(n, ast.If) and _u(n.test) == "owns_memory" and not n.orelse:
            inner = [m for m in n.body if isinstance(m, ast.FunctionDef) and m.name == "__del__"]
            if inner and dels and inner[0] is dels[0]:
                guarded = True
                d = inner[0]
                frees_all = (len(d.body) == 1 and isinstance(d.body[0], ast.For)
                             and _u(d.body[0].iter) == "self.get__fields_()"
                             and _u(d.body[0].body[0]) == f"free_memref({_u(d.body[0].target)})"
                             and len(d.body[0].body) == 1)
    _need(bool(dels), "Storage.__del__ disappeared")
    facts["site_del_guarded_by_owns"] = guarded
    facts["site_del_frees_every_field"] = frees_all
    gf = _func(st, "get__fields_")
    _need(_u(gf.body[-1]) == "return [getattr(self, field[0]) for field in self._fields_]", "get__fields_ changed")

    # ------------------------------------------------------------ _array.py
    t, h = _parse(repo, "_array.py")
    rep["_array.py"] = {"status": "ok", "hash": h}
    init = _func(t, "Array.__init__")
    facts["site_edge_array_storage"] = any(_u(s) == "self._storage = storage" for s in init.body)
    _need(_u(_func(t, "Array.get_constituent_arrays").body[-1]) == "return self._storage.get_constituent_arrays()",
          "Array.get_constituent_arrays changed")
    _need(_u(_func(t, "Array._to_module_arg").body[-1]) == "return self._storage.to_module_arg()",
          "Array._to_module_arg changed")
    cp = _u(_func(t, "Array.copy"))
    _need("arrs = tuple((arr.copy() for arr in self.get_constituent_arrays()))" in cp
          and "return from_constituent_arrays(format=self.format, arrays=arrs, shape=self.shape)" in cp,
          "Array.copy changed")

    # ------------------------------------------------------------ _conversions.py
    t, h = _parse(repo, "_conversions.py")
    rep["_conversions.py"] = {"status": "ok", "hash": h}
    fc = _func(t, "from_constituent_arrays")
    g = _calls(fc, "_get_ctypes_type")
    _need(len(g) == 1 and not g[0].args, "from_constituent_arrays: _get_ctypes_type call changed")
    kws = {k.arg: k.value for k in g[0].keywords}
    if "owns_memory" in kws:
        _need(isinstance(kws["owns_memory"], ast.Constant), "from_constituent_arrays: owns_memory not constant")
        facts["site_owns_from"] = bool(kws["owns_memory"].value)
    else:
        facts["site_owns_from"] = facts["site_owns_default"]
    _need("storage = format._get_ctypes_type(" in _u(fc) and ".from_constituent_arrays(arrays)" in _u(fc)
          and _u(fc.body[-1]) == "return Array(storage=storage, shape=shape)", "from_constituent_arrays changed")
    # _from_numpy: flat C-order data
    fn = _u(_func(t, "_from_numpy"))
    _need("arr_flat = np.ascontiguousarray(arr).reshape(-1)" in fn
          and "from_constituent_arrays(format=dense_format, arrays=(arr_flat,), shape=arr.shape)" in fn
          and "dense_format = Dense().with_ndim(arr.ndim).with_dtype(arr.dtype).build()" in fn,
          "_from_numpy changed")
    # to_numpy
    tn = _func(t, "to_numpy")
    tns = _u(tn)
    _need("data, = arr.get_constituent_arrays()" in tns and "arg_order = [0] * arr.format.storage_rank" in tns
          and "for i, o in enumerate(arr.format.order):\n        arg_order[o] = i" in tns
          and "return data.reshape(storage_shape).transpose(arg_order)" in tns, "to_numpy changed")
    if "storage_shape = tuple((int(arr.shape[o]) for o in arg_order))" in tns:
        facts["site_to_numpy_shape_by_inverse"] = True
    elif "storage_shape = tuple((int(arr.shape[o]) for o in arr.format.order))" in tns:
        facts["site_to_numpy_shape_by_inverse"] = False
    else:
        raise SiteError("to_numpy: storage_shape expression not recognised")
    # _from_scipy
    fs = _func(t, "_from_scipy")
    fss = _u(fs)
    _need("order = (0, 1) if arr.format == 'csr' else (1, 0)" in fss, "_from_scipy: csr/csc order changed")
    facts["site_csr_order"] = [0, 1]
    facts["site_csc_order"] = [1, 0]
    fcalls = _calls(fs, "from_constituent_arrays")
    _need(len(fcalls) == 2, "_from_scipy: expected two from_constituent_arrays calls")
    orders = []
    for c in fcalls:
        kws = {k.arg: k.value for k in c.keywords}
        _need(isinstance(kws.get("arrays"), ast.Tuple), "_from_scipy: arrays= not a tuple")
        names = [_u(x) for x in kws["arrays"].elts]
        _need(all(n in ARR for n in names), f"_from_scipy: unknown array names {names}")
        orders.append([ARR[n] for n in names])
    _need(sorted(orders[0]) == [0, 1, 2] and sorted(orders[1]) == [2, 3, 4, 5], "_from_scipy: array sets changed")
    facts["site_from_scipy_csx_arrays"] = orders[0]
    facts["site_from_scipy_coo_arrays"] = orders[1]
    _need("indptr = arr.indptr" in fss and "indices = arr.indices" in fss and "data = arr.data" in fss
          and "row, col = (arr.row, arr.col)" in fss and "pos = np.array([0, arr.nnz], dtype=np.int64)" in fss,
          "_from_scipy: array bindings changed")
    _need(".with_order(order)" in fss and "Csf()" in fss and "Coo()" in fss, "_from_scipy: format factories changed")
    # to_scipy
    ts = _func(t, "to_scipy")
    tss = _u(ts)
    m = [n for n in ast.walk(ts) if isinstance(n, ast.Match)]
    _need(len(m) == 1 and len(m[0].cases) == 3, "to_scipy: match shape changed")
    c0, c1, _c2 = m[0].cases
    _need(_u(c0.pattern) == "[Level(LevelFormat.Dense, _), Level(LevelFormat.Compressed, _)]"
          and _u(c1.pattern) == "[Level(LevelFormat.Compressed, _), Level(LevelFormat.Singleton, _)]",
          "to_scipy: level patterns changed")
    un0 = c0.body[0]
    _need(isinstance(un0, ast.Assign) and _u(un0.value) == "arr.get_constituent_arrays()", "to_scipy csx unpack changed")
    facts["site_to_scipy_csx_unpack"] = [ARR[_u(x)] for x in un0.targets[0].elts]
    _need(_u(c0.body[1]) == "if storage_format.order == (0, 1):\n    return sps.csr_array((data, indices, indptr), shape=arr.shape)"
          and _u(c0.body[2]) == "return sps.csc_array((data, indices, indptr), shape=arr.shape)",
          "to_scipy: csr/csc constructor calls changed")
    facts["site_to_scipy_csr_iff_order"] = [0, 1]
    un1 = c1.body[0]
    _need(isinstance(un1, ast.Assign) and _u(un1.value) == "arr.get_constituent_arrays()", "to_scipy coo unpack changed")
    facts["site_to_scipy_coo_unpack"] = [ARR[_u(x)] for x in un1.targets[0].elts]
    _need(_u(c1.body[1]) == "return sps.coo_array((data, (row, col)), shape=arr.shape)", "to_scipy: coo constructor changed")
    del tss

    # ------------------------------------------------------------ _ops.py
    t, h = _parse(repo, "_ops.py")
    rep["_ops.py"] = {"status": "ok", "hash": h}
    for op in ("add", "asformat", "reshape"):
        f = _func(t, op)
        g = _calls(f, "_get_ctypes_type")
        _need(len(g) == 1, f"{op}: expected one _get_ctypes_type call")
        kws = {k.arg: k.value for k in g[0].keywords}
        if "owns_memory" in kws:
            _need(isinstance(kws["owns_memory"], ast.Constant), f"{op}: owns_memory not constant")
            facts[f"site_owns_{op}"] = bool(kws["owns_memory"].value)
        else:
            facts[f"site_owns_{op}"] = facts["site_owns_default"]
        s = _u(f)
        _need("ret_storage = " in s and "ctypes.pointer(ctypes.pointer(ret_storage))" in s
              and "return Array(storage=ret_storage, shape=" in s, f"{op}: result construction changed")
        # the result must not be built over the operands' storages
        _need(len(_calls(f, "Array")) == 1, f"{op}: more than one Array(...)")
    add = _func(t, "add")
    d = _calls(add, "_determine_format")
    _need(len(d) == 1 and [_u(a) for a in d[0].args] == ["x1.format", "x2.format"], "add: _determine_format args changed")
    kws = {k.arg: _u(k.value) for k in d[0].keywords}
    _need(kws == {"dtype": "x1.dtype", "union": "True"}, f"add: _determine_format keywords changed: {kws}")
    facts["site_add_union"] = True
    rs = _func(t, "reshape")
    d = _calls(rs, "_determine_format")
    _need(len(d) == 1 and [_u(a) for a in d[0].args] == ["x.format"], "reshape: _determine_format args changed")
    kws = {k.arg: _u(k.value) for k in d[0].keywords}
    _need(kws.get("out_ndim") == "len(shape)" and kws.get("dtype") == "x.dtype", f"reshape keywords changed: {kws}")
    if kws.get("union") == "len(shape) > x.ndim":
        facts["site_reshape_union"] = "fun (new_ndim old_ndim : Z) => old_ndim <? new_ndim"
    elif kws.get("union") == "len(shape) >= x.ndim":
        facts["site_reshape_union"] = "fun (new_ndim old_ndim : Z) => old_ndim <=? new_ndim"
    else:
        raise SiteError(f"reshape: union expression not recognised: {kws.get('union')}")
    _need("if math.prod(x.shape) != math.prod(shape):\n        raise ValueError" in _u(rs), "reshape: size guard changed")
    af = _func(t, "asformat")
    s = _u(af)
    facts["site_asformat_same_returns_self"] = "if format == x.format:\n        return x" in s
    _need("if format.rank != x.ndim:\n        raise ValueError" in s, "asformat: rank guard changed")

    # ------------------------------------------------------------ _determine_format fingerprint
    t, h = _parse(repo, "formats.py")
    df = _func(t, "_determine_format")
    body = [s for s in df.body if not (isinstance(s, ast.Expr) and isinstance(s.value, ast.Constant))]
    dfh = hashlib.sha256("\n".join(_u(s) for s in body).encode()).hexdigest()[:16]
    rep["_determine_format"] = {"status": "ok", "hash": dfh,
                                "note": "hand-transcribed in Model/Mlir.v; tied by correspondence (judge_detfmt)"}
    # literal constants of the function that the model uses
    srcdf = _u(df)
    _need("pos_width = 0\n" in srcdf and "crd_width = 0\n" in srcdf
          and "pos_width = max(pos_width, fmt.pos_width)" in srcdf and "crd_width = max(crd_width, fmt.crd_width)" in srcdf,
          "_determine_format: width accumulation changed")
    facts["site_detfmt_width_init"] = 0
    _need("pos_width=64, crd_width=64" in srcdf.replace("\n", " ").replace("  ", " ").replace("( ", "(")
          or ("pos_width=64" in srcdf and "crd_width=64" in srcdf), "_determine_format: empty-case widths changed")
    facts["site_detfmt_empty_width"] = 64
    return facts, rep


# ------------------------------------------------------------------ _determine_format by translation
DF_HEADER = ("(* GENERATED by tools/sitegen/mlir.py from formats._determine_format / _get_sparse_dense_levels — "
             "do not edit.\n   Scalar decision code is translated by tools/py2v.py (class Tr); every other statement is "
             "pinned by its exact text\n   (a change raises SiteError = broken obligation). *)\n"
             "From Verif Require Import Py PyExt.\nFrom Coq Require Import ZArith List.\nImport ListNotations.\n"
             "Open Scope Z_scope.\n\n")


def _pin(stmt, text, what):
    got = ast.unparse(stmt)
    _need(got == text, f"{what}: statement changed:\n  expected: {text}\n  found:    {got}")


def _frag(name, params, stmts, result, extern=None):
    tr = py2v.Tr({}, extern or {})
    if isinstance(result, list):
        tail = lambda env: "Ok (VTuple [%s])" % "; ".join(py2v.cname(v) for v in result)  # noqa: E731
    elif result is None:
        tail = lambda env: "Ok VNone"  # noqa: E731
    else:
        tail = lambda env: "Ok " + py2v.cname(result)  # noqa: E731
    try:
        body = tr.S(list(stmts), set(params), tail)
    except py2v.Unsupported as ex:
        raise SiteError(f"{name}: not translatable: {ex}") from ex
    missing = set((extern or {}).keys()) - tr.used_extern
    _need(not missing, f"{name}: extern keys not found in the source: {sorted(missing)}")
    seg = "\n".join(ast.unparse(x) for x in stmts).replace("(*", "( *").replace("*)", "* )")
    args = " ".join(f"({py2v.cname(p_)} : pyv)" for p_ in params)
    return (f"(* {name}: translated from\n{seg}\n*)\nDefinition {name} {args} : res pyv :=\n{body}.\n")


def _ret(expr):
    return ast.Return(value=expr)


def extract_detfmt(repo):
    t, _h = _parse(repo, "formats.py")
    out = [DF_HEADER]
    df = _func(t, "_determine_format")
    sig = ast.unparse(df.args)
    _need(sig == "*formats: ConcreteFormat, dtype: DType, union: bool, out_ndim: int | None=None",
          f"_determine_format signature changed: {sig}")
    body = [x for x in df.body if not (isinstance(x, ast.Expr) and isinstance(x.value, ast.Constant))]
    _need(len(body) == 13, f"_determine_format: expected 13 statements, found {len(body)}")
    # -- 0: the empty case
    s0 = body[0]
    _need(isinstance(s0, ast.If) and ast.unparse(s0.test) == "len(formats) == 0" and not s0.orelse and len(s0.body) == 2,
          "_determine_format: empty-case guard changed")
    out.append(_frag("g_df_empty_ndim", ["out_ndim"], [s0.body[0]], "out_ndim"))
    r0 = s0.body[1]
    _need(isinstance(r0, ast.Return) and isinstance(r0.value, ast.Call)
          and ast.unparse(r0.value.func) == "get_concrete_format" and not r0.value.args,
          "_determine_format: empty-case return changed")
    kws = {k.arg: k.value for k in r0.value.keywords}
    _need({k: ast.unparse(v) for k, v in kws.items() if k != "levels"}
          == {"order": "'C'", "pos_width": "64", "crd_width": "64", "dtype": "dtype"},
          "_determine_format: empty-case keywords changed")
    lv = kws["levels"]
    _need(isinstance(lv, ast.BinOp) and isinstance(lv.op, ast.Mult) and ast.unparse(lv.right) == "out_ndim"
          and isinstance(lv.left, ast.Tuple) and len(lv.left.elts) == 1 and isinstance(lv.left.elts[0], ast.Call)
          and ast.unparse(lv.left.elts[0].func) == "Level" and len(lv.left.elts[0].args) == 1,
          "_determine_format: empty-case levels expression changed")
    out.append(_frag("g_df_empty_level", ["union"], [_ret(lv.left.elts[0].args[0])], None,
                     {"LevelFormat.Dense": "Ok (VInt 0)", "LevelFormat.Compressed": "Ok (VInt 1)"}))
    # -- 1..6: initialisation
    _pin(body[1], "if out_ndim is None:\n    out_ndim = max((fmt.rank for fmt in formats))", "_determine_format[1]")
    _pin(body[2], "pos_width = 0", "_determine_format[2]")
    _pin(body[3], "crd_width = 0", "_determine_format[3]")
    _need(isinstance(body[4], ast.Assign) and ast.unparse(body[4].targets[0]) == "counter",
          "_determine_format[4]: counter assignment changed")
    out.append(_frag("g_df_counter", ["union"], [_ret(body[4].value)], None,
                     {"_count_sparse_levels": "Ok (VInt 1)", "_count_dense_levels": "Ok (VInt 0)"}))
    _pin(body[5], "n_counted = None", "_determine_format[5]")
    _pin(body[6], "order = ()", "_determine_format[6]")
    # -- 7: the loop
    lp = body[7]
    _need(isinstance(lp, ast.For) and ast.unparse(lp.target) == "fmt" and ast.unparse(lp.iter) == "formats"
          and not lp.orelse and len(lp.body) == 4, "_determine_format: loop header/body length changed")
    out.append(_frag("g_df_step_count", ["n_counted", "c"], [lp.body[0]], "n_counted", {"counter(fmt)": "Ok c"}))
    out.append(_frag("g_df_step_pos", ["pos_width", "w"], [lp.body[1]], "pos_width", {"fmt.pos_width": "Ok w"}))
    out.append(_frag("g_df_step_crd", ["crd_width", "w"], [lp.body[2]], "crd_width", {"fmt.crd_width": "Ok w"}))
    _pin(lp.body[3], "if order != 'C':\n    if fmt.order[:len(order)] == order:\n        order = fmt.order\n"
                     "    elif order[:len(fmt.order)] != fmt.order:\n        order = 'C'", "_determine_format: order update")
    # -- 8: order completion
    _pin(body[8], "if not isinstance(order, str):\n    order = order + tuple(range(len(order), out_ndim))\n"
                  "    order = order[:out_ndim]", "_determine_format[8]")
    # -- 9, 10: clamp and n_sparse
    out.append(_frag("g_df_nsparse", ["out_ndim", "n_counted", "union"], [body[9], body[10]], "n_sparse"))
    _pin(body[11], "levels = _get_sparse_dense_levels(n_sparse=n_sparse, ndim=out_ndim)", "_determine_format[11]")
    _pin(body[12], "return get_concrete_format(levels=levels, order=order, pos_width=pos_width, crd_width=crd_width, "
                   "dtype=dtype)", "_determine_format[12]")
    # -- _get_sparse_dense_levels
    g = _func(t, "_get_sparse_dense_levels")
    _need(ast.unparse(g.args) == "*, n_sparse: int | None=None, n_dense: int | None=None, ndim: int | None=None",
          "_get_sparse_dense_levels signature changed")
    gb = list(g.body)
    _need(len(gb) == 8, f"_get_sparse_dense_levels: expected 8 statements, found {len(gb)}")
    _need(isinstance(gb[0], ast.If) and all(isinstance(x, ast.Assert) for x in gb[0].body) and not gb[0].orelse,
          "_get_sparse_dense_levels: argument-count guard changed")
    out.append(_frag("g_gsdl_guard", ["n_sparse", "n_dense", "ndim"], [_ret(gb[0].test)], None))
    out.append(_frag("g_gsdl_fill", ["n_sparse", "n_dense", "ndim"], gb[1:4], ["n_sparse", "n_dense", "ndim"]))
    _need(all(isinstance(x, ast.Assert) and x.msg is None for x in gb[4:7]), "_get_sparse_dense_levels: asserts changed")
    conj = ast.BoolOp(op=ast.And(), values=[x.test for x in gb[4:7]])
    out.append(_frag("g_gsdl_ok", ["ndim", "n_dense", "n_sparse"], [_ret(conj)], None))
    _pin(gb[7], "return (Level(LevelFormat.Dense),) * n_dense + (Level(LevelFormat.Compressed),) * n_sparse",
         "_get_sparse_dense_levels: return")
    # -- helpers pinned
    _pin(_func(t, "_is_sparse_level").body[-1], "return LevelFormat.Dense != lvl", "_is_sparse_level")
    _pin(_func(t, "_count_sparse_levels").body[-1], "return sum((_is_sparse_level(lvl) for lvl in format.levels))",
         "_count_sparse_levels")
    _pin(_func(t, "_count_dense_levels").body[-1], "return sum((not _is_sparse_level(lvl) for lvl in format.levels))",
         "_count_dense_levels")
    gc = _func(t, "get_concrete_format")
    src = ast.unparse(gc)
    _need("if order == 'C':\n            order = tuple(range(len(levels)))" in src
          and "if order == 'F':\n            order = tuple(reversed(range(len(levels))))" in src,
          "get_concrete_format: order strings changed")
    pi = _func(t, "ConcreteFormat.__post_init__")
    _need(len(pi.body) == 1 and isinstance(pi.body[0], ast.If)
          and ast.unparse(pi.body[0].test) == "sorted(self.order) != list(range(self.rank))"
          and ast.unparse(pi.body[0].body[0]).startswith("raise ValueError("), "ConcreteFormat.__post_init__ changed")
    _pin(_func(t, "ConcreteFormat.rank").body[-1], "return self.storage_rank", "ConcreteFormat.rank")
    _pin(_func(t, "ConcreteFormat.storage_rank").body[-1], "return len(self.levels)", "ConcreteFormat.storage_rank")
    return "\n".join(out)


def render(facts):
    L = ["(* GENERATED by tools/sitegen/mlir.py from /repo/sparse/mlir_backend — do not edit. *)",
         "From Coq Require Import ZArith List Bool.", "Import ListNotations.", "Open Scope Z_scope.", ""]
    for k in sorted(facts):
        v = facts[k]
        if isinstance(v, bool):
            L.append(f"Definition {k} : bool := {_b(v)}.")
        elif isinstance(v, int):
            L.append(f"Definition {k} : Z := {v}.")
        elif isinstance(v, list):
            L.append(f"Definition {k} : list Z := {_zl(v)}.")
        else:
            L.append(f"Definition {k} := {v}.")
    L.append("")
    return "\n".join(L)


def generate(repo):
    facts, rep = extract(repo)
    rep["facts"] = {"status": "ok", **{k: (v if not isinstance(v, list) else list(v)) for k, v in facts.items()}}
    try:
        df = extract_detfmt(repo)
        rep["_determine_format"] = {"status": "ok", "hash": rep["_determine_format"]["hash"],
                                    "note": "scalar decisions translated (S_mlir_df.v), other statements pinned by text"}
    except SiteError as ex:
        df = DF_HEADER + f"(* TRANSLATION FAILED: {ex} *)\n"
        rep["_determine_format"] = {"status": "failed", "error": str(ex)}
    return {"S_mlir.v": render(facts), "S_mlir_df.v": df}, rep


if __name__ == "__main__":
    import sys
    files, rep = generate(sys.argv[1] if len(sys.argv) > 1 else "/repo")
    out = os.path.join(os.path.dirname(os.path.dirname(os.path.dirname(os.path.abspath(__file__)))), "coq", "Gen", "S_mlir.v")
    for name, text in files.items():
        with open(os.path.join(os.path.dirname(out), name), "w") as f:
            f.write(text)
        print(text)
