"""sitegen/dispatch — call-path tables for C17, extracted from the AST of /repo on every run.

generate(repo) -> ({"S_dispatch.v": coq_text}, report).  Fail-closed: a source shape that is not
recognised raises (recorded by vlib as a broken site obligation).

What is extracted (all from the source text, nothing imported from /repo):
  * the sparse namespace: every name bound by sparse/numba_backend/__init__.py and listed in __all__,
    classified as re-exported NumPy ufunc / other NumPy object / *simple delegating wrapper*
    (body = `return x.m(...)`, `return x.a`, `return x1 == x2`, optionally after `a = asCOO(a, ...)`)
    with its signature, forwarding map (positional / keyword, parameter / constant) and decorators /
    opaque function / class;
  * for COO, GCXS, DOK: every attribute visible through the MRO (class, SparseArray,
    numpy.lib.mixins.NDArrayOperatorsMixin): signature and a classification of the body
    (own algorithm / abstract stub / `return np.u.m(self, ...)` / `return self.__array_ufunc__(np.u, "m", self, ...)`
    / `return f(self, other)` with f imported from _common / `return np.f(self)` / mixin operator / alias);
  * the step list of SparseArray.__array_function__, the branch table of __array_ufunc__, the guard of
    __array__, the module returned by __array_namespace__, SparseArray._reduce;
  * from the *installed NumPy* (runtime facts, recorded with the version): which public names are ufuncs /
    gufuncs / NEP-18 dispatched functions (and their __name__/__module__), their signatures.
  * op_classes: operations with more than one spelling, built from the tables above.
The same tables are returned as Python data by tables(repo) for tools/props/c17.py."""
import ast
import hashlib
import inspect
import os

SRC = "sparse/numba_backend"
CLASSES = ["COO", "GCXS", "DOK"]
CLASS_FILES = {"SparseArray": "_sparse_array.py", "COO": "_coo/core.py", "GCXS": "_compressed/compressed.py",
               "DOK": "_dok.py"}
# NumPy's definition of the named reductions as ufunc reductions (spec, numpy/_core/fromnumeric.py)
REDUCTION_SPEC = {"sum": "add", "prod": "multiply", "max": "maximum", "min": "minimum", "any": "logical_or",
                  "all": "logical_and"}
# spec-level aliases that are not object identities inside numpy
EXTRA_ALIASES = [("amax", "max"), ("amin", "min"), ("round_", "round"), ("mT", "matrix_transpose")]
# Python's operator protocol: dunder stem -> (numpy ufunc, arity)   (spec: numpy.lib.mixins documentation)
OPERATOR_SPEC = {
    "lt": "less", "le": "less_equal", "eq": "equal", "ne": "not_equal", "gt": "greater", "ge": "greater_equal",
    "add": "add", "sub": "subtract", "mul": "multiply", "matmul": "matmul", "truediv": "divide",
    "floordiv": "floor_divide", "mod": "remainder", "pow": "power", "lshift": "left_shift",
    "rshift": "right_shift", "and": "bitwise_and", "xor": "bitwise_xor", "or": "bitwise_or",
    "neg": "negative", "pos": "positive", "abs": "absolute", "invert": "invert"}


class ShapeError(Exception):
    pass


def _read(repo, rel):
    p = os.path.join(repo, SRC, rel)
    with open(p) as f:
        return f.read()


def _strip_doc(body):
    if body and isinstance(body[0], ast.Expr) and isinstance(body[0].value, ast.Constant) \
            and isinstance(body[0].value.value, str):
        return body[1:]
    return body


# ------------------------------------------------------------------ literals / signatures
def lit_of(node):
    """Python default/constant expression -> ('none',) | ('bool',b) | ('int',z) | ('float',z) | ('str',s) |
    ('name',s) | ('opaque',text)"""
    if isinstance(node, ast.Constant):
        v = node.value
        if v is None:
            return ("none",)
        if isinstance(v, bool):
            return ("bool", v)
        if isinstance(v, int):
            return ("int", v)
        if isinstance(v, float) and v == int(v):
            return ("float", int(v))
        if isinstance(v, str):
            return ("str", v)
    if isinstance(node, ast.UnaryOp) and isinstance(node.op, ast.USub) and isinstance(node.operand, ast.Constant) \
            and isinstance(node.operand.value, int) and not isinstance(node.operand.value, bool):
        return ("int", -node.operand.value)
    if isinstance(node, ast.UnaryOp) and isinstance(node.op, ast.USub) and isinstance(node.operand, ast.Constant) \
            and isinstance(node.operand.value, float) and node.operand.value == int(node.operand.value):
        return ("float", -int(node.operand.value))
    if isinstance(node, ast.Name):
        return ("name", node.id)
    return ("opaque", ast.unparse(node))


def lit_of_value(v):
    if v is None:
        return ("none",)
    if isinstance(v, bool):
        return ("bool", v)
    if isinstance(v, int):
        return ("int", v)
    if isinstance(v, float) and v == v and abs(v) != float("inf") and v == int(v):
        return ("float", int(v))
    if isinstance(v, str):
        return ("str", v)
    return ("opaque", repr(v)[:40])


def sig_of(args, drop_first=False):
    """ast.arguments -> (params, has_varargs).  params = [(name, kind, default-lit or None)]"""
    out = []
    po = list(args.posonlyargs)
    pk = list(args.args)
    defaults = [None] * (len(po) + len(pk) - len(args.defaults)) + list(args.defaults)
    for i, a in enumerate(po + pk):
        kind = "PosOnly" if i < len(po) else "PosOrKw"
        d = defaults[i]
        out.append((a.arg, kind, None if d is None else lit_of(d)))
    for a, d in zip(args.kwonlyargs, args.kw_defaults, strict=True):
        out.append((a.arg, "KwOnly", None if d is None else lit_of(d)))
    if drop_first:
        out = out[1:]
    return out, (args.vararg is not None or args.kwarg is not None)


def sig_of_callable(f):
    """inspect.signature of an installed-NumPy callable -> params or None"""
    try:
        s = inspect.signature(f)
    except (TypeError, ValueError):
        return None
    out = []
    for p in s.parameters.values():
        if p.kind in (p.VAR_POSITIONAL, p.VAR_KEYWORD):
            return None
        kind = {p.POSITIONAL_ONLY: "PosOnly", p.POSITIONAL_OR_KEYWORD: "PosOrKw", p.KEYWORD_ONLY: "KwOnly"}[p.kind]
        d = None if p.default is p.empty else lit_of_value(p.default) if not _is_novalue(p.default) else ("name", "_NoValue")
        out.append((p.name, kind, d))
    return out


def _is_novalue(v):
    return type(v).__name__ == "_NoValueType"


# ------------------------------------------------------------------ forwarding maps
def _fwd_of_call(call, allow_first_self=None):
    """(fkey, fsrc) list of a Call's arguments; None when an argument is not a parameter name / constant"""
    out = []
    for a in call.args:
        if isinstance(a, ast.Starred):
            return None
        if isinstance(a, ast.Name):
            out.append((("pos",), ("param", a.id)))
        elif isinstance(a, ast.Constant):
            out.append((("pos",), ("const", lit_of(a))))
        else:
            return None
    for k in call.keywords:
        if k.arg is None:
            return None
        if isinstance(k.value, ast.Name):
            out.append((("kw", k.arg), ("param", k.value.id)))
        elif isinstance(k.value, ast.Constant) or (isinstance(k.value, ast.UnaryOp) and isinstance(k.value.operand, ast.Constant)):
            out.append((("kw", k.arg), ("const", lit_of(k.value))))
        else:
            return None
    return out


def classify_wrapper(fn, module):
    """FunctionDef of a namespace function -> wrapper dict, or None when it has its own algorithm"""
    params, varargs = sig_of(fn.args)
    if varargs or not params:
        return None
    decos = [ast.unparse(d) for d in fn.decorator_list]
    if any(d not in ("_support_numpy",) for d in decos):
        return None
    body = _strip_doc(fn.body)
    p0 = params[0][0]
    coerce = False
    if len(body) == 2 and isinstance(body[0], ast.Assign) and len(body[0].targets) == 1 \
            and isinstance(body[0].targets[0], ast.Name) and body[0].targets[0].id == p0 \
            and isinstance(body[0].value, ast.Call) and isinstance(body[0].value.func, ast.Name) \
            and body[0].value.func.id in ("asCOO", "_validate_coo_input") and body[0].value.args \
            and isinstance(body[0].value.args[0], ast.Name) and body[0].value.args[0].id == p0:
        coerce = True
        body = body[1:]
    # `if not isinstance(a, SparseArray): a = asCOO(a, ...)`: converts only NON-sparse receivers; a sparse receiver
    # reaches its own method unchanged (not a coercion in the sense of w_coerce)
    if len(body) == 2 and isinstance(body[0], ast.If) and not body[0].orelse and len(body[0].body) == 1 \
            and ast.unparse(body[0].test) == f"not isinstance({p0}, SparseArray)" \
            and isinstance(body[0].body[0], ast.Assign) and ast.unparse(body[0].body[0].targets[0]) == p0 \
            and isinstance(body[0].body[0].value, ast.Call) and ast.unparse(body[0].body[0].value.func) == "asCOO" \
            and body[0].body[0].value.args and ast.unparse(body[0].body[0].value.args[0]) == p0:
        body = body[1:]
    if len(body) != 1 or not isinstance(body[0], ast.Return) or body[0].value is None:
        return None
    v = body[0].value
    names = {p[0] for p in params}
    w = {"name": fn.name, "module": module, "sig": params, "recv": p0, "coerce": coerce,
         "np_fallback": "_support_numpy" in decos}
    if isinstance(v, ast.Call) and isinstance(v.func, ast.Attribute) and isinstance(v.func.value, ast.Name) \
            and v.func.value.id == p0:
        fwd = _fwd_of_call(v)
        if fwd is None or any(s[0] == "param" and s[1] not in names for _k, s in fwd):
            return None
        m = v.func.attr
        w["target"] = ("dunder", m) if m.startswith("__") else ("method", m)
        w["fwd"] = fwd
        return w
    if isinstance(v, ast.Attribute) and isinstance(v.value, ast.Name) and v.value.id == p0:
        w["target"] = ("property", v.attr)
        w["fwd"] = []
        return w
    if isinstance(v, ast.Compare) and len(v.ops) == 1 and isinstance(v.left, ast.Name) and v.left.id == p0 \
            and len(v.comparators) == 1 and isinstance(v.comparators[0], ast.Name) \
            and len(params) == 2 and v.comparators[0].id == params[1][0]:
        opn = {ast.Eq: "__eq__", ast.NotEq: "__ne__", ast.Lt: "__lt__", ast.LtE: "__le__", ast.Gt: "__gt__",
               ast.GtE: "__ge__"}.get(type(v.ops[0]))
        if opn is None:
            return None
        w["target"] = ("dunder", opn)
        w["fwd"] = [(("pos",), ("param", params[1][0]))]
        return w
    return None


# ------------------------------------------------------------------ namespace
def _module_tree(repo, rel):
    return ast.parse(_read(repo, rel))


def _resolve_relative(mod):
    """'._coo.common' -> candidate source files relative to SRC"""
    parts = [p for p in mod.split(".") if p]
    base = "/".join(parts)
    return [base + ".py", base + "/__init__.py"]


def _find_def(repo, rel_candidates, name, depth=0):
    """definition of `name` in one of the candidate files: ('func', FunctionDef, rel) | ('class', ..) | ('other',..)"""
    if depth > 4:
        raise ShapeError(f"import chain too deep for {name}")
    for rel in rel_candidates:
        p = os.path.join(repo, SRC, rel)
        if not os.path.exists(p):
            continue
        t = ast.parse(open(p).read())
        for n in t.body:
            if isinstance(n, ast.FunctionDef) and n.name == name:
                return ("func", n, rel)
            if isinstance(n, ast.ClassDef) and n.name == name:
                return ("class", n, rel)
        for n in t.body:
            if isinstance(n, ast.ImportFrom) and n.level >= 1:
                for a in n.names:
                    if (a.asname or a.name) == name:
                        pkg = os.path.dirname(rel) if n.level == 1 else os.path.dirname(os.path.dirname(rel))
                        sub = [os.path.join(pkg, c) if pkg else c for c in _resolve_relative(n.module or "")]
                        return _find_def(repo, sub, a.name, depth + 1)
            if isinstance(n, ast.Assign):
                for tg in n.targets:
                    if isinstance(tg, ast.Name) and tg.id == name:
                        return ("other", n, rel)
        return ("missing", None, rel)
    return ("missing", None, rel_candidates[0])


def extract_namespace(repo, np_mod):
    t = _module_tree(repo, "__init__.py")
    bound = {}
    all_names = None
    for n in t.body:
        if isinstance(n, ast.ImportFrom):
            if n.level == 0 and n.module == "numpy":
                for a in n.names:
                    bound[a.asname or a.name] = ("numpy", a.name)
            elif n.level == 1:
                for a in n.names:
                    bound[a.asname or a.name] = ("local", n.module or "", a.name)
            else:
                raise ShapeError(f"unexpected import in __init__.py: {ast.unparse(n)}")
        elif isinstance(n, ast.Assign) and len(n.targets) == 1 and isinstance(n.targets[0], ast.Name) \
                and n.targets[0].id == "__all__":
            all_names = [e.value for e in n.value.elts]
        elif isinstance(n, ast.Expr) and isinstance(n.value, ast.Constant):
            pass
        else:
            raise ShapeError(f"unexpected statement in __init__.py: {ast.unparse(n)[:80]}")
    if all_names is None:
        raise ShapeError("__init__.py has no __all__")
    ns = []
    for name in all_names:
        if name not in bound:
            raise ShapeError(f"__all__ lists {name} which __init__.py does not bind")
        b = bound[name]
        if b[0] == "numpy":
            if not hasattr(np_mod, b[1]):
                raise ShapeError(f"numpy has no attribute {b[1]}")
            obj = getattr(np_mod, b[1])
            if isinstance(obj, np_mod.ufunc):
                ns.append((name, ("ufunc", obj.__name__)))
            else:
                ns.append((name, ("numpy_other", b[1])))
        else:
            kind, node, rel = _find_def(repo, _resolve_relative(b[1]), b[2])
            if kind == "func":
                w = classify_wrapper(node, rel)
                if w is not None:
                    w["name"] = name
                    ns.append((name, ("wrapper", w)))
                else:
                    ns.append((name, ("opaque", rel)))
            elif kind == "class":
                ns.append((name, ("class",)))
            elif kind == "other":
                ns.append((name, ("other",)))
            else:
                raise ShapeError(f"cannot find definition of {name} ({b})")
    return ns


# ------------------------------------------------------------------ classes
def _is_np_attr(node):
    """np.<u> -> u ; np.ndarray.astype -> 'ndarray.astype'"""
    if isinstance(node, ast.Attribute) and isinstance(node.value, ast.Name) and node.value.id == "np":
        return node.attr
    if isinstance(node, ast.Attribute) and isinstance(node.value, ast.Attribute) \
            and isinstance(node.value.value, ast.Name) and node.value.value.id == "np":
        return node.value.attr + "." + node.attr
    return None


def classify_body(fn):
    """body kind of a method/property FunctionDef (first parameter self)"""
    body = _strip_doc(fn.body)
    if not body or all(isinstance(b, ast.Pass) for b in body):
        return ("stub",)
    last = body[-1]
    if len(body) == 1 and isinstance(last, ast.Return) and isinstance(last.value, ast.Call):
        c = last.value
        # return np.u.m(self, k=v, ...)
        if isinstance(c.func, ast.Attribute) and _is_np_attr(c.func.value) and c.args \
                and isinstance(c.args[0], ast.Name) and c.args[0].id == "self":
            fwd = _fwd_of_call(c)
            if fwd is not None:
                return ("ufunc_method", _is_np_attr(c.func.value), c.func.attr, fwd)
        # return np.f(self)
        u = _is_np_attr(c.func)
        if u and len(c.args) == 1 and isinstance(c.args[0], ast.Name) and c.args[0].id == "self" and not c.keywords:
            return ("numpy_call", u)
    # ... ; return self.__array_ufunc__(np.u, "m", self, k=v, ...)
    if isinstance(last, ast.Return) and isinstance(last.value, ast.Call):
        c = last.value
        if isinstance(c.func, ast.Attribute) and c.func.attr == "__array_ufunc__" and isinstance(c.func.value, ast.Name) \
                and c.func.value.id == "self" and len(c.args) >= 3 and _is_np_attr(c.args[0]) \
                and isinstance(c.args[1], ast.Constant) and isinstance(c.args[2], ast.Name) and c.args[2].id == "self":
            # the prelude may only raise / normalise `out` / short-cut on the receiver itself
            return ("array_ufunc", _is_np_attr(c.args[0]), c.args[1].value, len(body) > 1)
    # from .._common import f ; return f(self, other)  [ in try/except NotImplementedError: return NotImplemented ]
    if len(body) == 2 and isinstance(body[0], ast.ImportFrom) and body[0].module in ("_common", None) or \
            (len(body) == 2 and isinstance(body[0], ast.ImportFrom) and (body[0].module or "").endswith("_common")):
        imported = {a.asname or a.name for a in body[0].names}
        st = body[1]
        guard = False
        if isinstance(st, ast.Try) and len(st.body) == 1 and len(st.handlers) == 1 \
                and isinstance(st.handlers[0].type, ast.Name) and st.handlers[0].type.id == "NotImplementedError" \
                and len(st.handlers[0].body) == 1 and isinstance(st.handlers[0].body[0], ast.Return) \
                and isinstance(st.handlers[0].body[0].value, ast.Name) and st.handlers[0].body[0].value.id == "NotImplemented":
            guard = True
            st = st.body[0]
        if isinstance(st, ast.Return) and isinstance(st.value, ast.Call) and isinstance(st.value.func, ast.Name) \
                and st.value.func.id in imported and len(st.value.args) == 2 and not st.value.keywords \
                and all(isinstance(a, ast.Name) for a in st.value.args):
            a0, a1 = (a.id for a in st.value.args)
            other = [a.arg for a in fn.args.args][1] if len(fn.args.args) == 2 else None
            if (a0, a1) == ("self", other):
                return ("namespace_fn", st.value.func.id, False, guard)
            if (a0, a1) == (other, "self"):
                return ("namespace_fn", st.value.func.id, True, guard)
    return ("own",)


def _mixin_table(np_mod):
    """operator table of numpy.lib.mixins.NDArrayOperatorsMixin from ITS source text"""
    import numpy.lib.mixins as mx
    t = ast.parse(inspect.getsource(mx))
    cls = [n for n in t.body if isinstance(n, ast.ClassDef) and n.name == "NDArrayOperatorsMixin"]
    if len(cls) != 1:
        raise ShapeError("NDArrayOperatorsMixin not found in numpy.lib.mixins")
    # check the helper definitions still have the documented call shapes
    helpers = {n.name: ast.unparse(n) for n in t.body if isinstance(n, ast.FunctionDef)}
    want = {"_binary_method": "return ufunc(self, other)", "_reflected_binary_method": "return ufunc(other, self)",
            "_inplace_binary_method": "return ufunc(self, other, out=(self,))", "_unary_method": "return ufunc(self)"}
    for h, frag in want.items():
        if h not in helpers or frag not in helpers[h]:
            raise ShapeError(f"numpy.lib.mixins.{h} no longer has the shape `{frag}`")
    out = {}

    def um(node):
        if isinstance(node, ast.Attribute) and isinstance(node.value, ast.Name) and node.value.id == "um":
            return node.attr
        raise ShapeError("mixin ufunc argument not um.<name>")
    for n in cls[0].body:
        if not isinstance(n, ast.Assign) or not isinstance(n.value, ast.Call) or not isinstance(n.value.func, ast.Name):
            continue
        f = n.value.func.id
        u = um(n.value.args[0])
        tg = n.targets[0]
        if f == "_numeric_methods":
            names = [e.id for e in tg.elts]
            out[names[0]] = ("mixin_binary", u, False)
            out[names[1]] = ("mixin_binary", u, True)
            out[names[2]] = ("mixin_inplace", u)
        elif f == "_binary_method":
            out[tg.id] = ("mixin_binary", u, False)
        elif f == "_reflected_binary_method":
            out[tg.id] = ("mixin_binary", u, True)
        elif f == "_unary_method":
            out[tg.id] = ("mixin_unary", u)
        elif f == "_inplace_binary_method":
            out[tg.id] = ("mixin_inplace", u)
    if "__add__" not in out or "__radd__" not in out:
        raise ShapeError("mixin table incomplete")
    return out


def _dup_body(fn):
    """own body of a method that duplicates a ufunc path (isnan, isinf ...):
       ('ctor', class name, [(keyword, literal)])   last statement `return COO(..., k=v, ...)`
       ('delegate', conversion method, method)      `return self.tocoo().m().asformat(...)`
       ('other',)"""
    body = _strip_doc(fn.body)
    if not body or not isinstance(body[-1], ast.Return) or not isinstance(body[-1].value, ast.Call):
        return ("other",)
    c = body[-1].value
    if isinstance(c.func, ast.Name) and c.func.id in ("COO", "GCXS", "DOK", "cls"):
        kws = []
        for k in c.keywords:
            if k.arg is None:
                return ("other",)
            kws.append((k.arg, lit_of(k.value)))
        return ("ctor", c.func.id, kws)
    # self.<conv>().<m>().asformat(...)
    if isinstance(c.func, ast.Attribute) and c.func.attr == "asformat" and isinstance(c.func.value, ast.Call):
        inner = c.func.value
        if isinstance(inner.func, ast.Attribute) and not inner.args and not inner.keywords \
                and isinstance(inner.func.value, ast.Call) and isinstance(inner.func.value.func, ast.Attribute) \
                and isinstance(inner.func.value.func.value, ast.Name) and inner.func.value.func.value.id == "self" \
                and not inner.func.value.args:
            return ("delegate", inner.func.value.func.attr, inner.func.attr)
    return ("other",)


def extract_dup_bodies(repo, np_mod):
    out = []
    for c in CLASSES:
        node = _class_node(repo, c)
        for n in node.body:
            if isinstance(n, ast.FunctionDef) and isinstance(getattr(np_mod, n.name, None), np_mod.ufunc) \
                    and classify_body(n) == ("own",):
                out.append((c, n.name, _dup_body(n)))
    return out


def _class_node(repo, cname):
    t = _module_tree(repo, CLASS_FILES[cname])
    for n in t.body:
        if isinstance(n, ast.ClassDef) and n.name == cname:
            return n
    raise ShapeError(f"class {cname} not found in {CLASS_FILES[cname]}")


def _own_attrs(cnode):
    """name -> attr tuple for one class body; also the instance attributes assigned in its methods"""
    out = {}
    inst = set()
    for n in cnode.body:
        if isinstance(n, ast.FunctionDef):
            decos = [ast.unparse(d) for d in n.decorator_list]
            if "property" in decos:
                out[n.name] = ("property", cnode.name, classify_body(n))
            elif any(d.endswith(".setter") for d in decos):
                continue
            elif "classmethod" in decos or "staticmethod" in decos:
                sg, va = sig_of(n.args, drop_first="classmethod" in decos)
                out[n.name] = ("method", cnode.name, sg if not va else None, ("own",))
            else:
                sg, va = sig_of(n.args, drop_first=True)
                out[n.name] = ("method", cnode.name, None if va else sg, classify_body(n))
            for sub in ast.walk(n):
                if isinstance(sub, (ast.Assign, ast.AugAssign, ast.AnnAssign)):
                    tgs = sub.targets if isinstance(sub, ast.Assign) else [sub.target]
                    for tg in tgs:
                        for e in (tg.elts if isinstance(tg, ast.Tuple) else [tg]):
                            if isinstance(e, ast.Attribute) and isinstance(e.value, ast.Name) and e.value.id == "self":
                                inst.add(e.attr)
        elif isinstance(n, ast.Assign) and len(n.targets) == 1 and isinstance(n.targets[0], ast.Name):
            nm = n.targets[0].id
            if isinstance(n.value, ast.Name):
                out[nm] = ("alias", cnode.name, n.value.id)
            else:
                out[nm] = ("classattr", cnode.name)
    return out, inst


def extract_classes(repo, np_mod):
    base_attrs, base_inst = _own_attrs(_class_node(repo, "SparseArray"))
    mix = _mixin_table(np_mod)
    attrs = {}
    inst = {}
    for c in CLASSES:
        node = _class_node(repo, c)
        bases = [ast.unparse(b) for b in node.bases]
        if bases != ["SparseArray", "NDArrayOperatorsMixin"]:
            raise ShapeError(f"class {c} has bases {bases}")
        own, oi = _own_attrs(node)
        merged = {}
        for nm, v in mix.items():
            merged[nm] = ("method", "NDArrayOperatorsMixin",
                          [("other", "PosOrKw", None)] if v[0] != "mixin_unary" else [], v)
        merged.update(base_attrs)
        merged.update(own)
        # aliases defined in a class body refer to the function object at class-creation time, i.e. to the
        # definition visible in THAT class body (amax = max in SparseArray -> SparseArray.max)
        for nm, v in list(merged.items()):
            if v[0] == "alias":
                src = (own if v[1] == c else base_attrs).get(v[2])
                if src is not None and src[0] in ("method", "property"):
                    merged[nm] = src
                else:
                    merged[nm] = ("method", v[1], None, ("own",))    # module-level function bound as a method
        attrs[c] = merged
        inst[c] = sorted(base_inst | oi)
    return attrs, inst


# ------------------------------------------------------------------ protocol methods
def _sparse_array_fn(repo, name):
    c = _class_node(repo, "SparseArray")
    for n in c.body:
        if isinstance(n, ast.FunctionDef) and n.name == name:
            return n
    raise ShapeError(f"SparseArray.{name} not found")


DENSIFIERS = ("todense", "maybe_densify", "asnumpy", "asarray", "__array__", "array")


def _calls_densifier(fn):
    bad = []
    for n in ast.walk(fn):
        if isinstance(n, ast.Call):
            f = n.func
            nm = f.attr if isinstance(f, ast.Attribute) else f.id if isinstance(f, ast.Name) else None
            if nm in DENSIFIERS:
                bad.append(nm)
    return bad


def extract_array_function(repo):
    fn = _sparse_array_fn(repo, "__array_function__")
    if [a.arg for a in fn.args.args] != ["self", "func", "types", "args", "kwargs"]:
        raise ShapeError("__array_function__ signature changed")
    if _calls_densifier(fn):
        raise ShapeError(f"__array_function__ calls a densifier: {_calls_densifier(fn)}")
    steps = []
    module_name = None
    for st in _strip_doc(fn.body):
        s = ast.unparse(st)
        if isinstance(st, ast.Import) and len(st.names) == 1 and st.names[0].asname == "module":
            module_name = st.names[0].name
        elif isinstance(st, ast.Assign) and s == "sparse_func = None":
            continue
        elif isinstance(st, ast.Try):
            ok = (len(st.handlers) == 1 and ast.unparse(st.handlers[0].type) == "AttributeError"
                  and all(isinstance(b, ast.Pass) for b in st.handlers[0].body)
                  and "sparse_func = getattr(module, func.__name__)" in s
                  and "submodules = getattr(func, '__module__', 'numpy').split('.')[1:]" in s
                  and "module = getattr(module, submodule)" in s
                  and len(st.orelse) == 1 and ast.unparse(st.orelse[0]) == "return sparse_func(*args, **kwargs)")
            if not ok:
                raise ShapeError("namespace lookup block of __array_function__ changed: " + s[:200])
            steps.append("AfNamespace")
        elif isinstance(st, ast.With):
            ok = (ast.unparse(st.items[0].context_expr) == "contextlib.suppress(AttributeError)" and len(st.body) == 1
                  and ast.unparse(st.body[0]) == "sparse_func = getattr(type(self), func.__name__)")
            if not ok:
                raise ShapeError("type lookup block of __array_function__ changed: " + s[:200])
            steps.append("AfType")
        elif isinstance(st, ast.If) and ast.unparse(st.test) == \
                "not isinstance(sparse_func, Callable) and len(args) == 1 and (len(kwargs) == 0)":
            inner = st.body
            ok = (len(inner) == 1 and isinstance(inner[0], ast.Try)
                  and ast.unparse(inner[0].body[0]) == "return getattr(self, func.__name__)"
                  and ast.unparse(inner[0].handlers[0].type) == "AttributeError" and not st.orelse)
            if not ok:
                raise ShapeError("property shortcut of __array_function__ changed: " + s[:200])
            steps.append("AfProperty")
        elif isinstance(st, ast.If) and ast.unparse(st.test) == "sparse_func is None":
            if not (len(st.body) == 1 and ast.unparse(st.body[0]) == "return NotImplemented" and not st.orelse):
                raise ShapeError("None branch of __array_function__ changed: " + s[:200])
            steps.append("AfNoneNotImplemented")
        elif isinstance(st, ast.Return) and s == "return sparse_func(*args, **kwargs)":
            steps.append("AfCall")
        else:
            raise ShapeError("unrecognised statement in __array_function__: " + s[:200])
    if module_name != "sparse":
        raise ShapeError("__array_function__ no longer looks names up in the `sparse` module")
    return steps


def _outer_order(body):
    """operand-order bookkeeping of the `outer` branch of __array_ufunc__ (after `method = "__call__"`):
         cum_ndim = 0 ; inputs_transformed = []
         for inp in [reversed(]inputs[)]:
             inputs_transformed.append(inp[(Ellipsis,) + (None,) * cum_ndim]) ; cum_ndim += inp.ndim   (either order)
         inputs = tuple([reversed(]inputs_transformed[)])
       -> (loop_reversed, reversed_back, cum_after_append).  Anything else: ShapeError."""
    src = [ast.unparse(b) for b in body]
    if len(body) != 4 or src[0] != "cum_ndim = 0" or src[1] != "inputs_transformed = []" or not isinstance(body[2], ast.For):
        raise ShapeError("outer branch of __array_ufunc__ changed: " + " ; ".join(src)[:200])
    loop = body[2]
    it = ast.unparse(loop.iter)
    if ast.unparse(loop.target) != "inp" or it not in ("reversed(inputs)", "inputs") or loop.orelse:
        raise ShapeError("outer loop header changed: " + it)
    lb = [ast.unparse(b) for b in loop.body]
    app = "inputs_transformed.append(inp[(Ellipsis,) + (None,) * cum_ndim])"
    inc = "cum_ndim += inp.ndim"
    if lb == [app, inc]:
        cum_after = True
    elif lb == [inc, app]:
        cum_after = False
    else:
        raise ShapeError("outer loop body changed: " + " ; ".join(lb)[:200])
    if src[3] == "inputs = tuple(reversed(inputs_transformed))":
        back = True
    elif src[3] in ("inputs = tuple(inputs_transformed)", "inputs = inputs_transformed"):
        back = False
    else:
        raise ShapeError("outer branch: final assignment changed: " + src[3])
    return (it == "reversed(inputs)", back, cum_after)


def extract_array_ufunc(repo):
    fn = _sparse_array_fn(repo, "__array_ufunc__")
    if _calls_densifier(fn):
        raise ShapeError(f"__array_ufunc__ calls a densifier: {_calls_densifier(fn)}")
    facts = {"out_guard": False, "gufunc_to_function": False, "outer_rewrite": None, "outer_order": None, "branches": [],
             "default_notimplemented": False}
    seen_dispatch = False
    order = []
    for st in _strip_doc(fn.body):
        s = ast.unparse(st)
        if isinstance(st, ast.Assign) and s == "out = kwargs.pop('out', None)":
            continue
        if isinstance(st, ast.If):
            t = ast.unparse(st.test)
            if t == "out is not None and (not all((isinstance(x, type(self)) for x in out)))":
                if ast.unparse(st.body[0]) != "return NotImplemented":
                    raise ShapeError("out guard changed")
                facts["out_guard"] = True
                order.append("out_guard")
                continue
            if t == "getattr(ufunc, 'signature', None) is not None":
                if "return self.__array_function__(ufunc," not in ast.unparse(st.body[0]):
                    raise ShapeError("gufunc branch changed")
                facts["gufunc_to_function"] = True
                order.append("gufunc")
                continue
            if t == "out is not None":
                order.append("out_block")
                continue
            if t == "method == 'outer'":
                first = ast.unparse(st.body[0])
                if not first.startswith("method = '"):
                    raise ShapeError("outer rewrite changed")
                facts["outer_rewrite"] = st.body[0].value.value
                facts["outer_order"] = _outer_order(st.body[1:])
                order.append("outer")
                continue
            if t.startswith("method == '") and not seen_dispatch:
                seen_dispatch = True
                cur = st
                while True:
                    tt = ast.unparse(cur.test)
                    if not (isinstance(cur.test, ast.Compare) and tt.startswith("method == '")):
                        raise ShapeError("dispatch chain changed: " + tt)
                    mname = cur.test.comparators[0].value
                    b = ast.unparse(cur.body[0]) if len(cur.body) == 1 else ""
                    if b == "result = elemwise(ufunc, *inputs, **kwargs)":
                        facts["branches"].append((mname, "AuElemwise"))
                    elif b == "result = SparseArray._reduce(ufunc, *inputs, **kwargs)":
                        facts["branches"].append((mname, "AuReduce"))
                    else:
                        raise ShapeError("unrecognised ufunc-method branch: " + b[:120])
                    if len(cur.orelse) == 1 and isinstance(cur.orelse[0], ast.If):
                        cur = cur.orelse[0]
                        continue
                    if len(cur.orelse) == 1 and ast.unparse(cur.orelse[0]) == "return NotImplemented":
                        facts["default_notimplemented"] = True
                    elif cur.orelse:
                        raise ShapeError("default branch of the ufunc-method dispatch changed")
                    break
                order.append("dispatch")
                continue
            raise ShapeError("unrecognised if in __array_ufunc__: " + t[:120])
        if isinstance(st, ast.Return) and s == "return result":
            continue
        raise ShapeError("unrecognised statement in __array_ufunc__: " + s[:120])
    if not seen_dispatch:
        raise ShapeError("no ufunc-method dispatch chain in __array_ufunc__")
    if "gufunc" in order and order.index("gufunc") > order.index("dispatch"):
        raise ShapeError("gufunc branch moved after the dispatch")
    if "outer" in order and order.index("outer") > order.index("dispatch"):
        raise ShapeError("outer rewrite moved after the dispatch")
    # SparseArray._reduce: `return self.reduce(method, **kwargs)`
    r = _sparse_array_fn(repo, "_reduce")
    if ast.unparse(_strip_doc(r.body)[-1]) != "return self.reduce(method, **kwargs)":
        raise ShapeError("SparseArray._reduce no longer returns self.reduce(method, **kwargs)")
    return facts


def extract_array_guard(repo):
    fn = _sparse_array_fn(repo, "__array__")
    body = _strip_doc(fn.body)
    guard = False
    for i, st in enumerate(body):
        if isinstance(st, ast.If) and ast.unparse(st.test) == "not AUTO_DENSIFY" and isinstance(st.body[0], ast.Raise) \
                and "RuntimeError" in ast.unparse(st.body[0]):
            # nothing before the guard may return or densify
            if not any(isinstance(b, ast.Return) for b in body[:i]):
                guard = True
    return guard


def extract_array_namespace(repo):
    fn = _sparse_array_fn(repo, "__array_namespace__")
    body = _strip_doc(fn.body)
    if ast.unparse(body[-1]) != "return sparse" or not any(ast.unparse(b) == "import sparse" for b in body):
        raise ShapeError("__array_namespace__ no longer returns the sparse module")
    return "sparse"


# ------------------------------------------------------------------ numpy facts
def numpy_table(np_mod):
    """public name -> kind, from the installed NumPy (runtime facts)"""
    out = []
    sources = [("", np_mod, list(np_mod.__all__)), ("linalg", np_mod.linalg, list(np_mod.linalg.__all__)),
               ("fft", np_mod.fft, list(np_mod.fft.__all__)), ("emath", np_mod.emath, list(np_mod.emath.__all__)),
               ("ma", np_mod.ma, list(np_mod.ma.__all__)), ("char", np_mod.char, list(np_mod.char.__all__))]
    for prefix, mod, names in sources:
        for name in sorted(set(names)):
            obj = getattr(mod, name, None)
            full = name if not prefix else prefix + "." + name
            if obj is None:
                continue
            if isinstance(obj, np_mod.ufunc):
                out.append((full, ("ufunc", obj.__name__, obj.signature is not None, obj.nin, obj.nout)))
            elif isinstance(obj, type):
                out.append((full, ("type",)))
            elif callable(obj) and hasattr(obj, "_implementation"):
                sub = (getattr(obj, "__module__", "numpy") or "numpy").split(".")[1:]
                out.append((full, ("function", obj.__name__, sub)))
            elif callable(obj):
                out.append((full, ("nodispatch",)))
            else:
                out.append((full, ("const",)))
    return out


# ------------------------------------------------------------------ op classes
def build_op_classes(ns, attrs, inst, nptab, np_mod):
    """operations with more than one spelling.  A class is keyed by a canonical name; spellings are tuples
    ('method', m) | ('attr', a) | ('namespace', n) | ('array_namespace', n) | ('numpy_function', public np name)
    | ('ufunc', public np name, method) | ('operator', stem, side).
    Two names denote the same operation when NumPy binds them to the same object (np.concat is np.concatenate),
    when the namespace re-exports one under the other name (sparse.pow is np.power), when the namespace function
    is a thin wrapper of the method (a wrong delegation therefore MERGES two classes and is caught by
    spellings_agree), or by the small spec tables at the top of this file."""
    nsd = dict(ns)
    parent = {}

    def find(x):
        parent.setdefault(x, x)
        while parent[x] != x:
            parent[x] = parent[parent[x]]
            x = parent[x]
        return x

    def union(a, b):
        ra, rb = find(a), find(b)
        if ra != rb:
            parent[max(ra, rb)] = min(ra, rb)
    byid = {}
    for name in sorted(np_mod.__all__):
        obj = getattr(np_mod, name, None)
        if callable(obj) and not isinstance(obj, type):
            byid.setdefault(id(obj), []).append(name)
    canonical_np = {}      # public name -> the one public name kept per NumPy object
    for names in byid.values():
        obj = getattr(np_mod, names[0])
        keep = obj.__name__ if getattr(obj, "__name__", None) in names else names[0]
        for n in names:
            canonical_np[n] = keep
            union(names[0], n)
    for a, b in EXTRA_ALIASES:
        union(a, b)
    for name, e in ns:
        if e[0] == "ufunc":
            union(name, e[1])
        elif e[0] == "wrapper" and e[1]["target"][0] in ("method", "property"):
            union(name, e[1]["target"][1])
    all_attr_names = {}
    for c in CLASSES:
        for k, v in attrs[c].items():
            if v[0] in ("method", "property") and not k.startswith("_"):
                all_attr_names.setdefault(k, set()).add(v[0])
        for k in inst[c]:
            if not k.startswith("_"):
                all_attr_names.setdefault(k, set()).add("property")
    classes = {}

    def add(key, sp):
        classes.setdefault(find(key), [])
        if sp not in classes[find(key)]:
            classes[find(key)].append(sp)
    for name, e in ns:
        if e[0] in ("ufunc", "wrapper", "opaque"):
            add(name, ("namespace", name))
            add(name, ("array_namespace", name))
    for m in sorted(all_attr_names):
        add(m, ("attr", m) if all_attr_names[m] == {"property"} else ("method", m))
    for name, k in nptab:
        if "." in name or canonical_np.get(name, name) != name:
            continue
        if k[0] == "function":
            add(name, ("numpy_function", name))
        elif k[0] == "ufunc":
            add(name, ("ufunc", name, "__call__"))
    for red, u in REDUCTION_SPEC.items():
        add(red, ("ufunc", u, "reduce"))
    for stem, u in OPERATOR_SPEC.items():
        for side in ("L", "R"):
            dunder = "__" + ("r" if side == "R" else "") + stem + "__"
            if any(dunder in attrs[c] for c in CLASSES):
                add(u, ("operator", stem, side))
    out = []
    for key in classes:
        sps = classes[key]
        kinds = {s[0] for s in sps}
        if len(sps) < 2:
            continue
        # at least two genuinely different routes (namespace and __array_namespace__ are one module object)
        routes = {("namespace" if s[0] == "array_namespace" else s[0]) for s in sps}
        if routes <= {"numpy_function", "ufunc"}:
            continue
        if len(routes) < 2 and len([s for s in sps if s[0] != "array_namespace"]) < 2:
            continue
        # name the class after a namespace function when there is one, else after a method
        label = next((s[1] for s in sps if s[0] == "namespace"), None) or \
            next((s[1] for s in sps if s[0] in ("method", "attr")), key)
        out.append((label, sps))
    out.sort()
    if len({k for k, _ in out}) != len(out):
        raise ShapeError("op class labels are not unique")
    return out


# ------------------------------------------------------------------ Coq printing
def q(s):
    return '"' + str(s).replace('"', '""') + '"'


def cz(z):
    return f"({z})" if z < 0 else str(z)


def clit(l):
    k = l[0]
    if k == "none":
        return "LNone"
    if k == "bool":
        return f"(LBool {'true' if l[1] else 'false'})"
    if k == "int":
        return f"(LInt {cz(l[1])})"
    if k == "float":
        return f"(LFloat {cz(l[1])})"
    if k == "str":
        return f"(LStr {q(l[1])})"
    if k == "name":
        return f"(LName {q(l[1])})"
    return f"(LOpaque {q(l[1])})"


def cparam(p):
    d = "None" if p[2] is None else f"(Some {clit(p[2])})"
    return f"mkParam {q(p[0])} {p[1]} {d}"


def csig(sg):
    return "[" + "; ".join(cparam(p) for p in sg) + "]"


def cfwd(fwd):
    items = []
    for k, s in fwd:
        ck = "KPos" if k[0] == "pos" else f"(KKw {q(k[1])})"
        cs = f"(FParam {q(s[1])})" if s[0] == "param" else f"(FConst {clit(s[1])})"
        items.append(f"({ck}, {cs})")
    return "[" + "; ".join(items) + "]"


def cbool(b):
    return "true" if b else "false"


def cwrapper(w):
    t = w["target"]
    ct = {"method": "WMethod", "property": "WProperty", "dunder": "WDunder"}[t[0]] + " " + q(t[1])
    return (f"mkWrapper {q(w['name'])} {q(w['module'])} {csig(w['sig'])} {q(w['recv'])} {cbool(w['coerce'])} "
            f"{cbool(w['np_fallback'])} ({ct}) {cfwd(w['fwd'])}")


def cbody(b):
    k = b[0]
    if k == "own":
        return "BOwn"
    if k == "stub":
        return "BStub"
    if k == "ufunc_method":
        return f"(BUfuncMethod {q(b[1])} {q(b[2])} {cfwd(b[3])})"
    if k == "array_ufunc":
        return f"(BArrayUfunc {q(b[1])} {q(b[2])} {cbool(b[3])})"
    if k == "namespace_fn":
        return f"(BNamespaceFn {q(b[1])} {cbool(b[2])} {cbool(b[3])})"
    if k == "numpy_call":
        return f"(BNumpyCall {q(b[1])})"
    if k == "mixin_binary":
        return f"(BMixinBinary {q(b[1])} {cbool(b[2])})"
    if k == "mixin_unary":
        return f"(BMixinUnary {q(b[1])})"
    if k == "mixin_inplace":
        return f"(BMixinInplace {q(b[1])})"
    raise ShapeError(f"body kind {k}")


def cattr(a):
    if a[0] == "method":
        sg = "None" if a[2] is None else f"(Some {csig(a[2])})"
        return f"(AMethod {q(a[1])} {sg} {cbody(a[3])})"
    if a[0] == "property":
        return f"(AProperty {q(a[1])} {cbody(a[2])})"
    return f"(AClassAttr {q(a[1])})"


def cspelling(s):
    k = s[0]
    if k == "method":
        return f"Method {q(s[1])}"
    if k == "attr":
        return f"Attr {q(s[1])}"
    if k == "namespace":
        return f"Namespace {q(s[1])}"
    if k == "array_namespace":
        return f"ArrayNamespace {q(s[1])}"
    if k == "numpy_function":
        return f"NumpyFunction {q(s[1])} true"
    if k == "ufunc":
        return f"Ufunc {q(s[1])} {q(s[2])}"
    if k == "operator":
        return f"Operator {q(s[1])} {'SideL' if s[2] == 'L' else 'SideR'}"
    raise ShapeError(k)


def cnp(k):
    if k[0] == "ufunc":
        return f"(NpUfunc {q(k[1])} {cbool(k[2])})"
    if k[0] == "function":
        return f"(NpFunction {q(k[1])} [" + "; ".join(q(x) for x in k[2]) + "])"
    if k[0] == "type":
        return "NpType"
    if k[0] == "nodispatch":
        return "NpNoDispatch"
    return "NpConst"


# ------------------------------------------------------------------ entry points
_CACHE = {}


def tables(repo):
    """all extracted tables as Python data (also used by tools/props/c17.py)"""
    import numpy as np_mod
    key = os.path.realpath(repo)
    ns = extract_namespace(repo, np_mod)
    attrs, inst = extract_classes(repo, np_mod)
    nptab = numpy_table(np_mod)
    T = {
        "namespace": ns,
        "attrs": attrs,
        "instance_attrs": inst,
        "af_steps": extract_array_function(repo),
        "au": extract_array_ufunc(repo),
        "array_guard": extract_array_guard(repo),
        "array_namespace": extract_array_namespace(repo),
        "numpy": nptab,
        "numpy_version": np_mod.__version__,
        "dup_bodies": extract_dup_bodies(repo, np_mod),
    }
    T["op_classes"] = build_op_classes(ns, attrs, inst, nptab, np_mod)
    # NumPy's own signatures of the functions that the namespace wraps (for the call-shape compatibility check)
    nps = []
    for name, e in ns:
        if e[0] == "wrapper":
            f = getattr(np_mod, name, None)
            if f is not None and callable(f) and not isinstance(f, np_mod.ufunc):
                sg = sig_of_callable(f)
                if sg is not None:
                    nps.append((name, sg))
    T["numpy_sigs"] = nps
    _CACHE[key] = T
    return T


def generate(repo):
    T = tables(repo)
    L = []
    A = L.append
    src_hash = hashlib.sha256()
    for rel in ["__init__.py", "_common.py", "_sparse_array.py", "_coo/core.py", "_coo/common.py",
                "_compressed/compressed.py", "_dok.py"]:
        src_hash.update(_read(repo, rel).encode())
    A("(* GENERATED by tools/sitegen/dispatch.py from sparse/numba_backend — do not edit. *)")
    A(f"(* numpy {T['numpy_version']} (installed) supplies the ufunc/function classification and the operator mixin *)")
    A("From Coq Require Import ZArith List String Bool.")
    A("From Verif Require Import Dispatch.")
    A("Import ListNotations.")
    A("Open Scope string_scope.")
    A("Open Scope Z_scope.")
    A("")
    wr = [e[1] for _n, e in T["namespace"] if e[0] == "wrapper"]
    for w in wr:
        A(f"Definition w_{w['name']} : wrapper :=\n  {cwrapper(w)}.")
    A("")
    A("Definition wrappers : list wrapper := [" + "; ".join("w_" + w["name"] for w in wr) + "].")
    A("")
    A("Definition namespace : list (string * ns_entry) := [")
    items = []
    for name, e in T["namespace"]:
        if e[0] == "ufunc":
            items.append(f"  ({q(name)}, NsUfunc {q(e[1])})")
        elif e[0] == "numpy_other":
            items.append(f"  ({q(name)}, NsNumpyOther {q(e[1])})")
        elif e[0] == "wrapper":
            items.append(f"  ({q(name)}, NsWrapper w_{name})")
        elif e[0] == "opaque":
            items.append(f"  ({q(name)}, NsOpaque {q(e[1])})")
        elif e[0] == "class":
            items.append(f"  ({q(name)}, NsClass)")
        else:
            items.append(f"  ({q(name)}, NsOther)")
    A(";\n".join(items) + "].")
    A("")
    for c in CLASSES:
        A(f"Definition attrs_{c} : list (string * attr) := [")
        A(";\n".join(f"  ({q(nm)}, {cattr(a)})" for nm, a in sorted(T['attrs'][c].items())) + "].")
        A("")
    A("Definition class_attrs : list (string * list (string * attr)) := [" +
      "; ".join(f"({q(c)}, attrs_{c})" for c in CLASSES) + "].")
    A("Definition instance_attrs : list (string * list string) := [" +
      "; ".join(f"({q(c)}, [" + "; ".join(q(x) for x in T['instance_attrs'][c]) + "])" for c in CLASSES) + "].")
    A("")
    A("Definition af_steps : list af_step := [" + "; ".join(T["af_steps"]) + "].")
    au = T["au"]
    A("Definition au_facts : au_table := mkAu " + cbool(au["out_guard"]) + " " + cbool(au["gufunc_to_function"]) + " " +
      ("None" if au["outer_rewrite"] is None else f"(Some {q(au['outer_rewrite'])})") + " [" +
      "; ".join(f"({q(m)}, {a})" for m, a in au["branches"]) + "] " + cbool(au["default_notimplemented"]) + " " +
      ("None" if au["outer_order"] is None else
       "(Some (mkOuter " + " ".join(cbool(b) for b in au["outer_order"]) + "))") + ".")
    A(f"Definition array_guard : bool := {cbool(T['array_guard'])}.")
    A(f"Definition array_namespace_module : string := {q(T['array_namespace'])}.")
    A("")
    A("Definition numpy_names : list (string * np_kind) := [")
    A(";\n".join(f"  ({q(n)}, {cnp(k)})" for n, k in T["numpy"]) + "].")
    A("")
    A("Definition numpy_sigs : list (string * list param) := [")
    A(";\n".join(f"  ({q(n)}, {csig(sg)})" for n, sg in T["numpy_sigs"]) + "].")
    A("")
    A("Definition op_classes : list (string * list spelling) := [")
    A(";\n".join(f"  ({q(k)}, [" + "; ".join(cspelling(s) for s in sps) + "])" for k, sps in T["op_classes"]) + "].")
    A("")
    A("Definition dup_bodies : list (string * string * dup_body) := [")
    items = []
    for c, m, b in T["dup_bodies"]:
        if b[0] == "ctor":
            cb = f"DupCtor {q(b[1])} [" + "; ".join(f"({q(k)}, {clit(v)})" for k, v in b[2]) + "]"
        elif b[0] == "delegate":
            cb = f"DupDelegate {q(b[1])} {q(b[2])}"
        else:
            cb = "DupOther"
        items.append(f"  ({q(c)}, {q(m)}, {cb})")
    A(";\n".join(items) + "].")
    A("")
    A("Definition tables : dtables :=")
    A("  mkTables namespace class_attrs instance_attrs af_steps au_facts array_guard array_namespace_module numpy_names.")
    text = "\n".join(L) + "\n"
    report = {
        "dispatch_tables": {
            "status": "ok", "source_sha256": src_hash.hexdigest()[:16], "numpy": T["numpy_version"],
            "wrappers": [w["name"] for w in wr], "namespace_entries": len(T["namespace"]),
            "op_classes": len(T["op_classes"]), "af_steps": T["af_steps"],
            "ufunc_branches": au["branches"], "table_digest": hashlib.sha256(text.encode()).hexdigest()[:16]},
    }
    # the same tables as Python data: the campaign falls back to the COMMITTED copy of this file when the
    # extraction from a modified tree fails closed (it then searches a failing input with the reference tables)
    return {"S_dispatch.v": text, "S_dispatch_tables.txt": repr(T) + "\n"}, report


if __name__ == "__main__":
    import sys
    files, rep = generate(sys.argv[1] if len(sys.argv) > 1 else "/repo")
    out = sys.argv[2] if len(sys.argv) > 2 else None
    if out:
        for k, v in files.items():
            with open(os.path.join(out, k), "w") as f:
                f.write(v)
    import json
    print(json.dumps(rep, indent=1))
