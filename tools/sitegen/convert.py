"""Site extractor for C05: the index-dtype decisions of the COO -> GCXS converters.

generate(repo) -> ({"S_convert.v": text}, report)

`_compressed/compressed.py:_from_coo` stores `indices`, the row numbers and `indptr` in arrays of dtype
`idx_dtype` (plain array assignment: NumPy casts unsafely, values that do not fit WRAP silently).  The
dtype is decided by

    if idx_dtype and not can_store(idx_dtype, E3): raise ValueError          # explicit idx_dtype
    if not idx_dtype:
        idx_dtype = x.coords.dtype
        if not can_store(idx_dtype, E1):
            idx_dtype = np.min_scalar_type(E2)

and `_compressed/convert.py:_transpose` (change_compressed_axes) uses
`coords_dtype = get_out_dtype(x.indices, E4)` with `_utils.get_out_dtype(arr, scalar)` =
`arr.dtype if can_store(arr.dtype, scalar) else np.min_scalar_type(scalar)`.

Whatever the dtype, it can hold every v with 0 <= v <= min(E1, E2) (resp. E3, E4).  The expressions
E1..E4 are translated from the AST into Gallina functions of (sh rsh cshape : list Z) (rs cs nnz : Z);
Model/Convert.v defines the guaranteed capacities from them and Props/C05.v proves that every index, row
number and pointer the converters store is within the capacity (gcxs_from_coo_fits, change_axes_fits).
Replacing the compressed shape by the n-d shape in any of them makes those proofs fail.

Fail-closed: any structural surprise raises (recorded as a broken obligation by the check)."""
import ast
import hashlib
import os

CP = "sparse/numba_backend/_compressed/compressed.py"
CV = "sparse/numba_backend/_compressed/convert.py"
UT = "sparse/numba_backend/_utils.py"


class Shape(Exception):
    pass


def _func(tree, name):
    for n in tree.body:
        if isinstance(n, ast.FunctionDef) and n.name == name:
            return n
    raise Shape(f"function {name} not found")


LISTS_FROM_COO = {"compressed_shape": "cshape", "shape": "sh", "reordered_shape": "rsh"}
LISTS_TRANSPOSE = {"new_compressed_shape": "cshape", "shape": "sh", "new_reordered_shape": "rsh"}
SCALARS = {"row_size": "rs", "col_size": "cs"}


def tr(e, lists):
    """(kind, text): kind 'Z' or 'L'"""
    if isinstance(e, ast.Constant) and isinstance(e.value, int) and not isinstance(e.value, bool):
        return "Z", (f"({e.value})" if e.value < 0 else str(e.value))
    if isinstance(e, ast.Name):
        if e.id in lists:
            return "L", lists[e.id]
        if e.id in SCALARS:
            return "Z", SCALARS[e.id]
        raise Shape(f"unknown name {e.id}")
    if isinstance(e, ast.Attribute) and isinstance(e.value, ast.Name) and e.value.id == "x":
        if e.attr == "nnz":
            return "Z", "nnz"
        if e.attr == "shape":
            return "L", "sh"
        if e.attr == "ndim":
            return "Z", "(Z.of_nat (length sh))"
        raise Shape(f"unknown attribute x.{e.attr}")
    if isinstance(e, ast.Call) and isinstance(e.func, ast.Name) and not e.keywords:
        if e.func.id == "max" and len(e.args) == 1:
            k, t = tr(e.args[0], lists)
            if k != "L":
                raise Shape("max of a scalar")
            return "Z", f"(zmax_list {t})"
        if e.func.id in ("max", "min") and len(e.args) == 2:
            (k1, t1), (k2, t2) = tr(e.args[0], lists), tr(e.args[1], lists)
            if k1 != "Z" or k2 != "Z":
                raise Shape("max/min of sequences")
            return "Z", f"(Z.{e.func.id} {t1} {t2})"
        if e.func.id == "len" and len(e.args) == 1:
            k, t = tr(e.args[0], lists)
            if k != "L":
                raise Shape("len of a scalar")
            return "Z", f"(Z.of_nat (length {t}))"
    if isinstance(e, ast.BinOp) and isinstance(e.op, (ast.Add, ast.Sub, ast.Mult)):
        (k1, t1), (k2, t2) = tr(e.left, lists), tr(e.right, lists)
        if k1 != "Z" or k2 != "Z":
            raise Shape("arithmetic on sequences")
        op = {ast.Add: "+", ast.Sub: "-", ast.Mult: "*"}[type(e.op)]
        return "Z", f"({t1} {op} {t2})"
    if isinstance(e, ast.Subscript) and isinstance(e.slice, ast.Constant) and isinstance(e.slice.value, int) and e.slice.value >= 0:
        k, t = tr(e.value, lists)
        if k != "L":
            raise Shape("subscript of a scalar")
        return "Z", f"(nth {e.slice.value} {t} 0)"
    raise Shape("expression outside the grammar: " + ast.unparse(e))


def trZ(e, lists):
    k, t = tr(e, lists)
    if k != "Z":
        raise Shape("expected an integer expression: " + ast.unparse(e))
    return t


def _is_call(e, name, nargs):
    return (isinstance(e, ast.Call) and not e.keywords and len(e.args) == nargs
            and ((isinstance(e.func, ast.Name) and e.func.id == name)
                 or (isinstance(e.func, ast.Attribute) and e.func.attr == name)))


def _not_can_store(test, var):
    """`not can_store(<var>, E)` -> E"""
    if (isinstance(test, ast.UnaryOp) and isinstance(test.op, ast.Not) and _is_call(test.operand, "can_store", 2)
            and isinstance(test.operand.args[0], ast.Name) and test.operand.args[0].id == var):
        return test.operand.args[1]
    return None


def _assigns(fn):
    out = {}
    for n in ast.walk(fn):
        if isinstance(n, ast.Assign) and len(n.targets) == 1 and isinstance(n.targets[0], ast.Name):
            out.setdefault(n.targets[0].id, []).append(n.value)
    return out


def extract_from_coo(src):
    fn = _func(ast.parse(src), "_from_coo")
    asg = _assigns(fn)
    if [ast.unparse(v) for v in asg.get("compressed_shape", [])] != ["(row_size, col_size)"]:
        raise Shape("_from_coo: compressed_shape is no longer (row_size, col_size)")
    if "x.shape" not in [ast.unparse(v) for v in asg.get("shape", [])] or len(asg.get("shape", [])) != 1:
        raise Shape("_from_coo: shape is no longer x.shape")
    e1 = e2 = e3 = None
    for n in ast.walk(fn):
        if not isinstance(n, ast.If):
            continue
        t = n.test
        # explicit idx_dtype: `idx_dtype and not can_store(idx_dtype, E3)` -> raise
        if (isinstance(t, ast.BoolOp) and isinstance(t.op, ast.And) and len(t.values) == 2
                and isinstance(t.values[0], ast.Name) and t.values[0].id == "idx_dtype"):
            e = _not_can_store(t.values[1], "idx_dtype")
            if e is None or not (len(n.body) == 1 and isinstance(n.body[0], ast.Raise)) or n.orelse:
                raise Shape("_from_coo: explicit idx_dtype guard changed")
            if e3 is not None:
                raise Shape("_from_coo: two explicit idx_dtype guards")
            e3 = e
        # automatic: `not idx_dtype`
        if (isinstance(t, ast.UnaryOp) and isinstance(t.op, ast.Not) and isinstance(t.operand, ast.Name)
                and t.operand.id == "idx_dtype"):
            b = n.body
            ok = (len(b) == 2 and not n.orelse and isinstance(b[0], ast.Assign) and ast.unparse(b[0]) == "idx_dtype = x.coords.dtype"
                  and isinstance(b[1], ast.If) and not b[1].orelse and len(b[1].body) == 1)
            if not ok:
                raise Shape("_from_coo: automatic idx_dtype block changed")
            e = _not_can_store(b[1].test, "idx_dtype")
            a = b[1].body[0]
            if (e is None or not isinstance(a, ast.Assign) or ast.unparse(a.targets[0]) != "idx_dtype"
                    or not _is_call(a.value, "min_scalar_type", 1)):
                raise Shape("_from_coo: automatic idx_dtype upcast changed")
            if e1 is not None:
                raise Shape("_from_coo: two automatic idx_dtype blocks")
            e1, e2 = e, a.value.args[0]
    if e1 is None or e3 is None:
        raise Shape("_from_coo: idx_dtype decision not found")
    # the arrays that receive row numbers, indices and pointers are allocated in idx_dtype
    allocs = [ast.unparse(v) for k in ("coords", "indptr") for v in asg.get(k, [])]
    need = ["np.empty((2, x.nnz), dtype=idx_dtype)", "np.empty(row_size + 1, dtype=idx_dtype)"]
    if any(a not in allocs for a in need):
        raise Shape("_from_coo: coords/indptr are no longer allocated with dtype=idx_dtype: " + repr(allocs))
    return e1, e2, e3


def extract_transpose(src):
    fn = _func(ast.parse(src), "_transpose")
    asg = _assigns(fn)
    if [ast.unparse(v) for v in asg.get("new_compressed_shape", [])] != ["np.array((row_size, col_size))"]:
        raise Shape("_transpose: new_compressed_shape is no longer (row_size, col_size)")
    vals = asg.get("coords_dtype", [])
    if len(vals) != 1 or not _is_call(vals[0], "get_out_dtype", 2) or ast.unparse(vals[0].args[0]) != "x.indices":
        raise Shape("_transpose: coords_dtype is no longer get_out_dtype(x.indices, E)")
    allocs = [ast.unparse(v) for k in ("new_coords", "indptr") for v in asg.get(k, [])]
    need = ["np.empty((2, x.nnz), dtype=coords_dtype)", "np.empty(row_size + 1, dtype=coords_dtype)"]
    if any(a not in allocs for a in need):
        raise Shape("_transpose: new_coords/indptr are no longer allocated with dtype=coords_dtype: " + repr(allocs))
    return vals[0].args[1]


def check_get_out_dtype(src):
    fn = _func(ast.parse(src), "get_out_dtype")
    want = ("def get_out_dtype(arr, scalar):\n    out_type = arr.dtype\n    if not can_store(out_type, scalar):\n"
            "        out_type = np.min_scalar_type(scalar)\n    return out_type")
    if ast.unparse(fn) != want:
        raise Shape("_utils.get_out_dtype changed:\n" + ast.unparse(fn))


def generate(repo):
    srcs = {p: open(os.path.join(repo, p)).read() for p in (CP, CV, UT)}
    e1, e2, e3 = extract_from_coo(srcs[CP])
    e4 = extract_transpose(srcs[CV])
    check_get_out_dtype(srcs[UT])
    defs = [
        ("s_from_coo_auto_check", e1, LISTS_FROM_COO, "_from_coo: `if not can_store(idx_dtype, E)` on the coordinate dtype"),
        ("s_from_coo_auto_choose", e2, LISTS_FROM_COO, "_from_coo: `idx_dtype = np.min_scalar_type(E)`"),
        ("s_from_coo_explicit_check", e3, LISTS_FROM_COO, "_from_coo: `if idx_dtype and not can_store(idx_dtype, E): raise`"),
        ("s_transpose_bound", e4, LISTS_TRANSPOSE, "_transpose: `coords_dtype = get_out_dtype(x.indices, E)`"),
    ]
    h = hashlib.sha256("\n".join(ast.unparse(e) for _n, e, _l, _c in defs).encode()).hexdigest()[:16]
    out = ["(* Gen/S_convert.v — GENERATED by tools/sitegen/convert.py from " + CP + " and " + CV + ".",
           "   Do not edit.  digest of the extracted expressions: " + h + " *)",
           "From Coq Require Import ZArith List.", "Import ListNotations.", "Open Scope Z_scope.", "",
           "(* Python's max() over a sequence of non-negative extents *)",
           "Fixpoint zmax_list (l : list Z) : Z := match l with [] => 0 | x :: r => Z.max x (zmax_list r) end.", ""]
    rep = {}
    for name, e, lists, comment in defs:
        out.append(f"(* {comment}:  E = {ast.unparse(e)} *)")
        out.append(f"Definition {name} (sh rsh cshape : list Z) (rs cs nnz : Z) : Z := {trZ(e, lists)}.")
        out.append("")
        rep[name] = {"status": "ok", "source": ast.unparse(e)}
    return {"S_convert.v": "\n".join(out)}, rep
