"""Site extractor for the join / structural-extraction area (property C09) -> coq/Gen/S_join.v.

What is regenerated from /repo's working tree on every run (fail-closed: any deviation from the
expected syntactic shape raises SiteError, which the build records as a broken obligation):

 1. constructor-flag tables: for the `return COO(...)` inside `_coo/common.py: concatenate, stack,
    triu, tril, diagonal, diagonalize` the arguments `sorted=`, `has_duplicates=`, `prune=` as
    boolean functions of the (normalised) model variable `axis` — e.g. `sorted=(axis == 0)` becomes
    `fun axis => (axis =? 0)`; an absent keyword becomes COO.__init__'s default — and `fill_value=`
    as a symbolic source (FillAbsent | FillFirstArray | FillInput).  The same for the `GCXS(...)`
    call of `_compressed/common.py: concatenate, stack` (fill_value only).
 2. guards: whether the function starts with check_consistent_fill_value / check_zero_fill_value.
 3. scalar decision code, translated by py2v's expression translator (py2v.Tr) with extern maps
    for the array operands: triu / tril mask predicate and ndim guard, `_diagonal_idx` match
    predicate, `diagonal`'s shape guard, its "other axes" predicate and the last-extent arithmetic,
    the `ndim` expression handed to normalize_axis by concatenate / stack.
 4. structural facts checked textually (the hand-written model transcribes them): the glue lines
    of `diagonal` / `diagonalize`, the format dispatch of `_common.py: concatenate / stack`.

The hand-written model functions (Model/Join.v, Model/Extract.v) take these definitions as their
parameters, and the C09 theorems are stated for the instances built from this file."""
import ast
import hashlib
import os
import sys

sys.path.insert(0, os.path.dirname(os.path.dirname(os.path.abspath(__file__))))
import py2v  # noqa: E402

COO_COMMON = "sparse/numba_backend/_coo/common.py"
GCXS_COMMON = "sparse/numba_backend/_compressed/common.py"
COMMON = "sparse/numba_backend/_common.py"


class SiteError(Exception):
    pass


# ------------------------------------------------------------------ helpers
def _func(tree, name):
    for n in tree.body:
        if isinstance(n, ast.FunctionDef) and n.name == name:
            return n
    raise SiteError(f"function {name} not found")


def _zexpr(e, allowed):
    """integer expression over the allowed names -> Coq Z term"""
    if isinstance(e, ast.Name) and e.id in allowed:
        return e.id
    if isinstance(e, ast.Constant) and isinstance(e.value, int) and not isinstance(e.value, bool):
        return f"({e.value})" if e.value < 0 else str(e.value)
    if isinstance(e, ast.UnaryOp) and isinstance(e.op, ast.USub) and isinstance(e.operand, ast.Constant) \
            and isinstance(e.operand.value, int):
        return f"({-e.operand.value})"
    raise SiteError(f"integer expression `{ast.unparse(e)}` outside the flag grammar")


def _bexpr(e, allowed):
    """boolean flag expression over the allowed integer names -> Coq bool term"""
    if isinstance(e, ast.Constant) and isinstance(e.value, bool):
        return "true" if e.value else "false"
    if isinstance(e, ast.Compare) and len(e.ops) == 1:
        a, b = _zexpr(e.left, allowed), _zexpr(e.comparators[0], allowed)
        op = e.ops[0]
        if isinstance(op, ast.Eq):
            return f"({a} =? {b})"
        if isinstance(op, ast.NotEq):
            return f"(negb ({a} =? {b}))"
        if isinstance(op, ast.Lt):
            return f"({a} <? {b})"
        if isinstance(op, ast.LtE):
            return f"({a} <=? {b})"
        if isinstance(op, ast.Gt):
            return f"({b} <? {a})"
        if isinstance(op, ast.GtE):
            return f"({b} <=? {a})"
    if isinstance(e, ast.BoolOp):
        parts = [_bexpr(v, allowed) for v in e.values]
        return "(" + (" && " if isinstance(e.op, ast.And) else " || ").join(parts) + ")"
    if isinstance(e, ast.UnaryOp) and isinstance(e.op, ast.Not):
        return f"(negb {_bexpr(e.operand, allowed)})"
    raise SiteError(f"flag expression `{ast.unparse(e)}` outside the flag grammar")


FILL_SOURCES = {None: "FillAbsent", "arrays[0].fill_value": "FillFirstArray",
                "x.fill_value": "FillInput", "a.fill_value": "FillInput"}
CTOR_DEFAULTS = {"sorted": "false", "has_duplicates": "true", "prune": "false"}   # COO.__init__ defaults


def _return_ctor(fn, cls):
    """the unique `return <cls>(...)[.method(...)]` of fn: the constructor Call node"""
    found = []
    for n in ast.walk(fn):
        if isinstance(n, ast.Return) and n.value is not None:
            v = n.value
            # GCXS(...).change_compressed_axes(compressed_axes)
            if isinstance(v, ast.Call) and isinstance(v.func, ast.Attribute) and isinstance(v.func.value, ast.Call):
                v = v.func.value
            if isinstance(v, ast.Call) and isinstance(v.func, ast.Name) and v.func.id == cls:
                found.append(v)
    if len(found) != 1:
        raise SiteError(f"{fn.name}: expected exactly one `return {cls}(...)`, found {len(found)}")
    return found[0]


def _ctor_flags(fn, cls="COO", allowed_kw=("shape", "has_duplicates", "sorted", "prune", "fill_value")):
    call = _return_ctor(fn, cls)
    kws = {}
    for k in call.keywords:
        if k.arg is None or k.arg not in allowed_kw:
            raise SiteError(f"{fn.name}: unexpected constructor keyword {k.arg}")
        kws[k.arg] = k.value
    if len(call.args) not in (2, 3):
        raise SiteError(f"{fn.name}: constructor with {len(call.args)} positional arguments")
    if len(call.args) == 3 and "shape" in kws:
        raise SiteError(f"{fn.name}: shape given twice")
    if len(call.args) == 2 and "shape" not in kws:
        raise SiteError(f"{fn.name}: no shape passed")
    flags = {}
    for name, dflt in CTOR_DEFAULTS.items():
        flags[name] = _bexpr(kws[name], {"axis"}) if name in kws else dflt
    fv = ast.unparse(kws["fill_value"]) if "fill_value" in kws else None
    if fv not in FILL_SOURCES:
        raise SiteError(f"{fn.name}: fill_value source `{fv}` not understood")
    flags["fill_value"] = FILL_SOURCES[fv]
    flags["_src"] = ast.unparse(call)
    return flags


def _first_guard(fn):
    """name of the fill guard called before anything else happens (after the docstring, imports and
    the conversion `a = as_coo(a)`)"""
    for s in fn.body:
        if isinstance(s, ast.Expr) and isinstance(s.value, ast.Constant):
            continue
        if isinstance(s, (ast.Import, ast.ImportFrom)):
            continue
        if isinstance(s, ast.Assign) and ast.unparse(s) in ("a = as_coo(a)",):
            continue
        if isinstance(s, ast.Expr) and isinstance(s.value, ast.Call) and isinstance(s.value.func, ast.Name) \
                and s.value.func.id in ("check_consistent_fill_value", "check_zero_fill_value") \
                and len(s.value.args) == 1 and ast.unparse(s.value.args[0]) in ("arrays", "x", "a"):
            return s.value.func.id
        return None
    return None


def _effective(fn):
    """top-level statements after the docstring and the local imports"""
    return [s for s in fn.body if not (isinstance(s, ast.Expr) and isinstance(s.value, ast.Constant))
            and not isinstance(s, (ast.Import, ast.ImportFrom))]


def _guard_exc(fn, test_text):
    """the exception class raised by the unique top-level `if <test_text>: raise X(...)`"""
    hits = [s for s in fn.body if isinstance(s, ast.If) and ast.unparse(s.test) == test_text]
    if len(hits) != 1:
        raise SiteError(f"{fn.name}: expected exactly one `if {test_text}`")
    body = hits[0].body
    if not (len(body) == 1 and isinstance(body[0], ast.Raise) and not hits[0].orelse):
        raise SiteError(f"{fn.name}: `if {test_text}` no longer just raises")
    ex = body[0].exc
    name = ast.unparse(ex.func) if isinstance(ex, ast.Call) else ast.unparse(ex)
    if name not in py2v.EXCS:
        raise SiteError(f"{fn.name}: raise of {name}")
    return name, hits[0]


def _index_of(fn, stmt_or_text):
    eff = _effective(fn)
    for i, s in enumerate(eff):
        if s is stmt_or_text or (isinstance(stmt_or_text, str) and ast.unparse(s) == stmt_or_text):
            return i
    raise SiteError(f"{fn.name}: statement `{stmt_or_text}` not found at top level")


NDIM_MISMATCH = "any((x.ndim != arrays[0].ndim for x in arrays))"
OFFAXIS_MISMATCH = ("any((x.shape[ax] != arrays[0].shape[ax] for x in arrays "
                    "for ax in set(range(arrays[0].ndim)) - {axis}))")
SHAPES_DIFFER = "len({x.shape for x in arrays}) != 1"
TO_COO = "arrays = [x if isinstance(x, COO) else COO(x) for x in arrays]"


def _names_outside_extern(e, extern):
    out = set()

    def go(n):
        if isinstance(n, ast.expr) and ast.unparse(n) in extern:
            return
        if isinstance(n, ast.Name):
            out.add(n.id)
        for c in ast.iter_child_nodes(n):
            go(c)
    go(e)
    return out


BUILTINS = {"abs", "min", "max", "len", "int"}


def _tr_expr(name, e, params, extern, comment):
    """Definition name (params : pyv) : res pyv := <py2v translation of expression e>."""
    free = {n for n in _names_outside_extern(e, extern) if n not in BUILTINS}
    if not free <= set(params):
        raise SiteError(f"{name}: free names {sorted(free - set(params))} in `{ast.unparse(e)}`")
    tr = py2v.Tr({}, extern)
    try:
        term = tr.Em(e)
    except py2v.Unsupported as ex:
        raise SiteError(f"{name}: {ex}") from ex
    missing = set(extern) - tr.used_extern
    if missing:
        raise SiteError(f"{name}: extern keys no longer present: {sorted(missing)}")
    h = hashlib.sha256(ast.unparse(e).encode()).hexdigest()[:16]
    args = " ".join(f"({py2v.cname(p)} : pyv)" for p in params)
    return (f"(* {comment}: `{ast.unparse(e)}` srchash={h} *)\n"
            f"Definition {name} {args} : res pyv :=\n{term}.\n")


def _tr_stmts(name, stmts, params, extern, comment):
    tr = py2v.Tr({}, extern)
    try:
        body = tr.S(list(stmts), set(params), lambda env: "Ok VNone")
    except py2v.Unsupported as ex:
        raise SiteError(f"{name}: {ex}") from ex
    missing = set(extern) - tr.used_extern
    if missing:
        raise SiteError(f"{name}: extern keys no longer present: {sorted(missing)}")
    seg = "\n".join(ast.unparse(s) for s in stmts)
    h = hashlib.sha256(seg.encode()).hexdigest()[:16]
    args = " ".join(f"({py2v.cname(p)} : pyv)" for p in params)
    first = seg.splitlines()[0]
    return (f"(* {comment}: `{first} ...` srchash={h} *)\n"
            f"Definition {name} {args} : res pyv :=\n{body}.\n")


def _assign_value(fn, target):
    hits = [s for s in ast.walk(fn) if isinstance(s, ast.Assign) and len(s.targets) == 1
            and ast.unparse(s.targets[0]) == target]
    if len(hits) != 1:
        raise SiteError(f"{fn.name}: expected exactly one assignment to {target}, found {len(hits)}")
    return hits[0].value


def _require_line(fn, text):
    for s in ast.walk(fn):
        if isinstance(s, ast.stmt) and ast.unparse(s) == text:
            return
    raise SiteError(f"{fn.name}: statement `{text}` not found")


def _ndim_guard(fn):
    hits = [s for s in fn.body if isinstance(s, ast.If) and "ndim" in ast.unparse(s.test)]
    if len(hits) != 1:
        raise SiteError(f"{fn.name}: expected exactly one ndim guard")
    return hits[0]


def _axis_norm_ndim(fn):
    hits = [s.value for s in ast.walk(fn) if isinstance(s, ast.Assign) and ast.unparse(s.targets[0]) == "axis"
            and isinstance(s.value, ast.Call) and ast.unparse(s.value.func) == "normalize_axis"]
    if len(hits) != 1:
        raise SiteError(f"{fn.name}: expected exactly one `axis = normalize_axis(...)`")
    call = hits[0]
    if len(call.args) != 2 or call.keywords or ast.unparse(call.args[0]) != "axis":
        raise SiteError(f"{fn.name}: normalize_axis call shape changed: {ast.unparse(call)}")
    return call.args[1]


# ------------------------------------------------------------------ main
HEADER = ("(* Gen/S_join.v — GENERATED by tools/sitegen/join.py from /repo (constructor flags, guards and\n"
          "   scalar decision code of the join / structural-extraction functions).  Do not edit. *)\n"
          "From Coq Require Import ZArith List Bool.\nFrom Verif Require Import Py PyExt.\n"
          "Import ListNotations.\nOpen Scope Z_scope.\n\n"
          "(* where a constructor call takes its fill value from *)\n"
          "Inductive fill_src := FillAbsent | FillFirstArray | FillInput.\n")


def _sec_coo_site(coo_tree, fname):
    out = []
    fn = _func(coo_tree, fname)
    fl = _ctor_flags(fn)
    g = _first_guard(fn)
    out.append(f"(* {COO_COMMON}:{fname}: `{fl['_src']}` *)")
    for k in ("sorted", "has_duplicates", "prune"):
        out.append(f"Definition site_{fname}_{k} : Z -> bool := fun axis => {fl[k]}.")
    out.append(f"Definition site_{fname}_fill : fill_src := {fl['fill_value']}.")
    out.append(f"Definition site_{fname}_checks_consistent_fill : bool := "
               f"{'true' if g == 'check_consistent_fill_value' else 'false'}.")
    out.append(f"Definition site_{fname}_checks_zero_fill : bool := "
               f"{'true' if g == 'check_zero_fill_value' else 'false'}.\n")
    info = {"flags": {k: v for k, v in fl.items() if k != "_src"}, "guard": g,
            "hash": hashlib.sha256(fl["_src"].encode()).hexdigest()[:16]}
    if fname == "concatenate":
        # order: fill guard, conversion of every member to COO, `if axis is None` (flatten), normalize_axis,
        # ndim mismatch, off-axis mismatch
        e1, if1 = _guard_exc(fn, NDIM_MISMATCH)
        e2, if2 = _guard_exc(fn, OFFAXIS_MISMATCH)
        if e1 != e2:
            raise SiteError("concatenate: the two mismatch guards raise different exceptions")
        idx = [_index_of(fn, "check_consistent_fill_value(arrays)"), _index_of(fn, TO_COO),
               _index_of(fn, "if axis is None:\n    axis = 0\n    arrays = [x.flatten() for x in arrays]"),
               _index_of(fn, "axis = normalize_axis(axis, arrays[0].ndim)"), _index_of(fn, if1), _index_of(fn, if2)]
        if idx != sorted(idx) or idx[0] != 0:
            raise SiteError(f"concatenate: statement order changed: {idx}")
        out.append(f"(* `if {NDIM_MISMATCH}` / off-axis extents differ: raise {e1} *)")
        out.append(f"Definition site_concatenate_mismatch_exc : exc := {e1}.\n")
        info["mismatch_exc"] = e1
    if fname == "stack":
        e1, if1 = _guard_exc(fn, SHAPES_DIFFER)
        idx = [_index_of(fn, "check_consistent_fill_value(arrays)"), _index_of(fn, if1), _index_of(fn, TO_COO),
               _index_of(fn, "axis = normalize_axis(axis, arrays[0].ndim + 1)")]
        if idx != sorted(idx) or idx[0] != 0:
            raise SiteError(f"stack: statement order changed: {idx}")
        out.append(f"(* `if {SHAPES_DIFFER}`: raise {e1} *)")
        out.append(f"Definition site_stack_mismatch_exc : exc := {e1}.\n")
        info["mismatch_exc"] = e1
    if fname in ("triu", "tril"):
        # check_zero_fill_value(x); x = asCOO(x, name=...): any sparse format is accepted
        eff = _effective(fn)
        if [ast.unparse(x) for x in eff[:2]] != ["check_zero_fill_value(x)", f"x = asCOO(x, name='{fname}')"]:
            raise SiteError(f"{fname}: guard / conversion lines changed")
        out.append(f"Definition site_{fname}_converts_input : bool := true.\n")
    if fname == "diagonal":
        eff = _effective(fn)
        if ast.unparse(eff[0]) != "a = asCOO(a, name='diagonal')":
            raise SiteError("diagonal: conversion line changed")
        out.append("Definition site_diagonal_converts_input : bool := true.\n")
    return out, info


def _sec_gcxs_site(gcxs_tree, fname):
    out = []
    fn = _func(gcxs_tree, fname)
    call = _return_ctor(fn, "GCXS")
    kws = {k.arg: ast.unparse(k.value) for k in call.keywords}
    if set(kws) != {"shape", "compressed_axes", "fill_value"} or kws["fill_value"] not in FILL_SOURCES:
        raise SiteError(f"gcxs {fname}: GCXS(...) keywords changed: {kws}")
    if kws["compressed_axes"] != "arrays[0].compressed_axes" or ast.unparse(call.args[0]) != "(data, indices, indptr)":
        raise SiteError(f"gcxs {fname}: GCXS(...) arguments changed")
    g = _first_guard(fn)
    # the suffix-add loop (transcribed by hand as Model.Join.splice_loop): its text must not change
    for line in ("indptr[ptr_len:] += nnz", "nnz = arrays[i].nnz", "ptr_len += arrays[i].indptr.shape[0] - 1",
                 "ptr_len = arrays[0].indptr.shape[0]", "nnz = arrays[0].nnz",
                 "ptr_list.append(arr.indptr[1:])" if fname == "concatenate" else "ptr_list.append(arrays[i].indptr[1:])",
                 "indptr = np.concatenate(ptr_list)", "for i in range(1, len(arrays)):\n    indptr[ptr_len:] += nnz\n"
                 "    nnz = arrays[i].nnz\n    ptr_len += arrays[i].indptr.shape[0] - 1"):
        _require_line(fn, line)
    out.append(f"(* {GCXS_COMMON}:{fname}: `{ast.unparse(call)}` *)")
    out.append(f"Definition site_gcxs_{fname}_fill : fill_src := {FILL_SOURCES[kws['fill_value']]}.")
    out.append(f"Definition site_gcxs_{fname}_checks_consistent_fill : bool := "
               f"{'true' if g == 'check_consistent_fill_value' else 'false'}.")
    out.append(_tr_expr(f"site_gcxs_{fname}_axis_ndim", _axis_norm_ndim(fn), ["ndim"],
                        {"arrays[0].ndim": "Ok ndim"}, f"{GCXS_COMMON}:{fname} second argument of normalize_axis"))
    # index-pointer width: the largest number the pointer's dtype must be able to hold (entries AND row numbers)
    out.append(_tr_expr(f"site_gcxs_{fname}_indptr_needed", _assign_value(fn, "needed"), ["total_nnz", "ptr_len"],
                        {"indptr.shape[0]": "Ok ptr_len"}, f"{GCXS_COMMON}:{fname} `needed`"))
    coo_path = [x for x in fn.body if isinstance(x, ast.If) and ast.unparse(x.test).startswith("arrays[0].ndim")]
    if len(coo_path) != 1 or ast.unparse(coo_path[0].body[-1]) != \
            f"return coo_{'concat' if fname == 'concatenate' else 'stack'}(arrays, axis=axis)" \
            or ast.unparse(coo_path[0].body[-2]) != "arrays = [arr.tocoo() for arr in arrays]":
        raise SiteError(f"gcxs {fname}: COO shortcut changed")
    out.append(_tr_expr(f"site_gcxs_{fname}_coo_path", coo_path[0].test, ["ndim"], {"arrays[0].ndim": "Ok ndim"},
                        f"{GCXS_COMMON}:{fname} low-dimensional members go through the COO joiner when"))
    if fname == "concatenate":
        e1, if1 = _guard_exc(fn, NDIM_MISMATCH)
        e2, if2 = _guard_exc(fn, OFFAXIS_MISMATCH)
        if e1 != e2:
            raise SiteError("gcxs concatenate: the two mismatch guards raise different exceptions")
        idx = [_index_of(fn, "check_consistent_fill_value(arrays)"),
               _index_of(fn, "if axis is None:\n    axis = 0\n    arrays = [x.flatten() for x in arrays]"),
               _index_of(fn, "axis = normalize_axis(axis, arrays[0].ndim)"), _index_of(fn, if1), _index_of(fn, if2),
               _index_of(fn, coo_path[0])]
    else:
        e1, if1 = _guard_exc(fn, SHAPES_DIFFER)
        idx = [_index_of(fn, "check_consistent_fill_value(arrays)"),
               _index_of(fn, "axis = normalize_axis(axis, arrays[0].ndim + 1)"), _index_of(fn, if1),
               _index_of(fn, coo_path[0])]
    if idx != sorted(idx) or idx[0] != 0:
        raise SiteError(f"gcxs {fname}: statement order changed: {idx}")
    out.append(f"Definition site_gcxs_{fname}_mismatch_exc : exc := {e1}.")
    for line in ("total_nnz = sum((int(arr.nnz) for arr in arrays))",
                 "if not can_store(indptr.dtype, needed):\n    indptr = indptr.astype(np.min_scalar_type(needed))"):
        _require_line(fn, line)
    return out, {"fill": kws["fill_value"], "guard": g}


def _sec_axis_ndim(coo_tree, fname):
    fn = _func(coo_tree, fname)
    return [_tr_expr(f"site_{fname}_axis_ndim", _axis_norm_ndim(fn), ["ndim"],
                     {"arrays[0].ndim": "Ok ndim"}, f"{COO_COMMON}:{fname} second argument of normalize_axis")], {}


def _sec_tri(coo_tree, fname):
    out = []
    fn = _func(coo_tree, fname)
    if [a.arg for a in fn.args.args] != ["x", "k"]:
        raise SiteError(f"{fname}: parameters changed")
    out.append(_tr_expr(f"site_{fname}_keep", _assign_value(fn, "mask"), ["row", "col", "k"],
                        {"x.coords[-2].astype(np.int64)": "Ok row", "x.coords[-1].astype(np.int64)": "Ok col"},
                        f"{COO_COMMON}:{fname} mask"))
    out.append(_tr_stmts(f"site_{fname}_ndim_guard", [_ndim_guard(fn)], ["ndim"], {"x.ndim": "Ok ndim"},
                         f"{COO_COMMON}:{fname} guard"))
    for line in ("coords = x.coords[:, mask]", "data = x.data[mask]"):
        _require_line(fn, line)
    return out, {}


def _sec_diagonal_idx(coo_tree):
    fn = _func(coo_tree, "_diagonal_idx")
    rets = [s for s in fn.body if isinstance(s, ast.Return)]
    if len(rets) != 1:
        raise SiteError("_diagonal_idx: expected one return")
    v = rets[0].value
    if not (isinstance(v, ast.Call) and ast.unparse(v.func) == "np.array" and len(v.args) == 1
            and isinstance(v.args[0], ast.ListComp)):
        raise SiteError("_diagonal_idx: return shape changed")
    lc = v.args[0]
    if not (ast.unparse(lc.elt) == "i" and len(lc.generators) == 1 and len(lc.generators[0].ifs) == 1
            and ast.unparse(lc.generators[0].target) == "i"
            and ast.unparse(lc.generators[0].iter) == "range(len(coordlist[axis1]))"):
        raise SiteError("_diagonal_idx: comprehension shape changed")
    if [a.arg for a in fn.args.args] != ["coordlist", "axis1", "axis2", "offset"]:
        raise SiteError("_diagonal_idx: parameters changed")
    return [_tr_expr("site_diagonal_match", lc.generators[0].ifs[0], ["c1", "c2", "offset"],
                     {"coordlist[axis1][i]": "Ok c1", "coordlist[axis2][i]": "Ok c2"},
                     f"{COO_COMMON}:_diagonal_idx condition")], {}


def _sec_diagonal(coo_tree):
    out = []
    fn = _func(coo_tree, "diagonal")
    if [a.arg for a in fn.args.args] != ["a", "offset", "axis1", "axis2"]:
        raise SiteError("diagonal: parameters changed")
    # the body must start (after docstring / import) with the two axis normalisations, then the two guards
    eff = _effective(fn)[1:]          # [0] is the conversion `a = asCOO(a, name='diagonal')` (site_diagonal section)
    if [ast.unparse(x) for x in eff[:2]] != ["axis1 = normalize_axis(axis1, a.ndim)", "axis2 = normalize_axis(axis2, a.ndim)"]:
        raise SiteError("diagonal: the axis normalisation lines changed")
    out.append(_tr_expr("site_diagonal_axis_ndim", eff[0].value.args[1], ["ndim"], {"a.ndim": "Ok ndim"},
                        f"{COO_COMMON}:diagonal second argument of normalize_axis"))
    guards = [s for s in fn.body if isinstance(s, ast.If)]
    if len(guards) != 2 or eff[2] is not guards[0] or eff[3] is not guards[1]:
        raise SiteError("diagonal: expected exactly two `if` guards right after the axis normalisation")
    out.append(_tr_stmts("site_diagonal_same_axis_guard", guards[:1], ["axis1", "axis2"], {},
                         f"{COO_COMMON}:diagonal equal-axes guard"))
    out.append(_tr_stmts("site_diagonal_guard", guards[1:], ["d1", "d2"],
                         {"a.shape[axis1]": "Ok d1", "a.shape[axis2]": "Ok d2"}, f"{COO_COMMON}:diagonal guard"))
    da = _assign_value(fn, "diag_axes")
    if not (isinstance(da, ast.BinOp) and isinstance(da.op, ast.Add) and isinstance(da.left, ast.ListComp)
            and ast.unparse(da.right) == "[axis1]" and ast.unparse(da.left.elt) == "axis"
            and len(da.left.generators) == 1 and len(da.left.generators[0].ifs) == 1
            and ast.unparse(da.left.generators[0].target) == "axis"
            and ast.unparse(da.left.generators[0].iter) == "range(len(a.shape))"):
        raise SiteError("diagonal: diag_axes shape changed")
    out.append(_tr_expr("site_diagonal_other_axis", da.left.generators[0].ifs[0], ["axis", "axis1", "axis2"], {},
                        f"{COO_COMMON}:diagonal diag_axes condition"))
    last = _assign_value(fn, "diag_shape[-1]")
    out.append(_tr_expr("site_diagonal_last_extent", last, ["last", "offset"], {"diag_shape[-1]": "Ok last"},
                        f"{COO_COMMON}:diagonal `diag_shape[-1] = ...`"))
    pa = _assign_value(fn, "pos_axes")
    if not (isinstance(pa, ast.BinOp) and isinstance(pa.op, ast.Add) and ast.unparse(pa.left) == "diag_axes[:-1]"
            and isinstance(pa.right, ast.List) and len(pa.right.elts) == 1):
        raise SiteError("diagonal: pos_axes shape changed")
    out.append(_tr_expr("site_diagonal_pos_axis", pa.right.elts[0], ["axis1", "axis2", "offset"], {},
                        f"{COO_COMMON}:diagonal last entry of pos_axes"))
    for line in ("diag_shape = [a.shape[axis] for axis in diag_axes]",
                 "diag_idx = _diagonal_idx(a.coords, axis1, axis2, offset)",
                 "diag_coords = [a.coords[axis][diag_idx] for axis in pos_axes]",
                 "diag_data = a.data[diag_idx]",
                 "return COO(diag_coords, diag_data, diag_shape, fill_value=a.fill_value)"):
        _require_line(fn, line)
    return out, {}


def _sec_glue(coo_tree):
    fn = _func(coo_tree, "diagonalize")
    for line in ("a = as_coo(a)", "diag_shape = a.shape + (a.shape[axis],)",
                 "diag_coords = np.vstack([a.coords, a.coords[axis]])",
                 "return COO(diag_coords, a.data, diag_shape)"):
        _require_line(fn, line)
    fn = _func(coo_tree, "take")
    for line in ("x = _validate_coo_input(x)", "axis = normalize_axis(axis, x.ndim)",
                 "full_index = (slice(None),) * axis + (indices, ...)", "return x[full_index]",
                 "x = x.flatten()", "return x[indices]"):
        _require_line(fn, line)
    # the hand-transcribed loops of the COO joiners: their text must not change
    fn = _func(coo_tree, "concatenate")
    for line in ("coords[axis, nnz:x.nnz + nnz] += dim", "dim += x.shape[axis]", "nnz += x.nnz", "dim = 0",
                 "shape[axis] = dim", "dim = sum((x.shape[axis] for x in arrays))",
                 "data = np.concatenate([x.data for x in arrays])",
                 "coords = np.concatenate([x.coords for x in arrays], axis=1)",
                 "arrays = [x.flatten() for x in arrays]",
                 "for x in arrays:\n    if dim:\n        coords[axis, nnz:x.nnz + nnz] += dim\n"
                 "    dim += x.shape[axis]\n    nnz += x.nnz"):
        _require_line(fn, line)
    fn = _func(coo_tree, "stack")
    for line in ("shape.insert(axis, len(arrays))", "coords.insert(axis, new)",
                 "for dim, x in enumerate(arrays):\n    new[nnz:x.nnz + nnz] = dim\n    nnz += x.nnz"):
        _require_line(fn, line)
    return ["(* glue lines of diagonalize / take and the loops of the COO joiners are textually as transcribed in\n"
            "   Model/Join.v and Model/Extract.v *)\nDefinition site_join_glue_unchanged : bool := true.\n"], {}


def _sec_dispatch(common_tree):
    for fname in ("concatenate", "stack"):
        fn = _func(common_tree, fname)
        ifs = [s for s in fn.body if isinstance(s, ast.If)]
        if not (len(ifs) == 1 and ast.unparse(ifs[0].test) ==
                "not builtins.all((isinstance(arr, GCXS) for arr in arrays))"):
            raise SiteError(f"_common.{fname}: dispatch test changed")
        short = "concat" if fname == "concatenate" else "stack"
        if ast.unparse(ifs[0].body[-1]) != f"return coo_{short}(arrays, axis)":
            raise SiteError(f"_common.{fname}: COO branch changed")
        if ast.unparse(fn.body[-1]) != f"return gcxs_{short}(arrays, axis, compressed_axes)":
            raise SiteError(f"_common.{fname}: GCXS branch changed")
    alias = [s for s in common_tree.body if isinstance(s, ast.Assign) and ast.unparse(s) == "concat = concatenate"]
    if len(alias) != 1:
        raise SiteError("_common: `concat = concatenate` alias not found")
    return ["(* sparse/numba_backend/_common.py: concatenate / stack go to the GCXS joiner iff every member\n"
            "   is a GCXS, otherwise to the COO joiner; `concat` is an alias of `concatenate` *)\n"
            "Definition site_dispatch_gcxs_iff_all_gcxs : bool := true.\n"], {}


def generate(repo):
    """-> ({"S_join.v": text}, report).  A section that no longer has the expected shape is left out
    of the file (so everything depending on it stops compiling) and reported as failed."""
    rep = {}
    out = [HEADER]
    trees = {}
    for key, path in (("coo", COO_COMMON), ("gcxs", GCXS_COMMON), ("common", COMMON)):
        try:
            with open(os.path.join(repo, path)) as f:
                trees[key] = ast.parse(f.read())
        except (OSError, SyntaxError) as ex:
            trees[key] = ast.parse("")
            rep["parse_" + key] = {"status": "failed", "error": f"{type(ex).__name__}: {ex}"}

    def section(name, fn, *args):
        try:
            lines, info = fn(*args)
            out.extend(lines)
            rep[name] = dict(status="ok", **info)
        except (SiteError, py2v.Unsupported) as ex:
            out.append(f"(* section {name}: EXTRACTION FAILED: {ex} *)\n")
            rep[name] = {"status": "failed", "error": str(ex)}

    for fname in ("concatenate", "stack", "triu", "tril", "diagonal", "diagonalize"):
        section(f"site_{fname}", _sec_coo_site, trees["coo"], fname)
    for fname in ("concatenate", "stack"):
        section(f"site_gcxs_{fname}", _sec_gcxs_site, trees["gcxs"], fname)
    for fname in ("concatenate", "stack"):
        section(f"site_{fname}_axis_ndim", _sec_axis_ndim, trees["coo"], fname)
    for fname in ("triu", "tril"):
        section(f"site_{fname}_code", _sec_tri, trees["coo"], fname)
    section("site_diagonal_idx_code", _sec_diagonal_idx, trees["coo"])
    section("site_diagonal_code", _sec_diagonal, trees["coo"])
    section("site_join_glue", _sec_glue, trees["coo"])
    section("site_dispatch", _sec_dispatch, trees["common"])
    return {"S_join.v": "\n".join(out)}, rep


if __name__ == "__main__":
    files, rep = generate(sys.argv[1] if len(sys.argv) > 1 else "/repo")
    for k, v in files.items():
        print(v)
    import json
    print(json.dumps(rep, indent=1), file=sys.stderr)
