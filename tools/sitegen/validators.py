"""sitegen/validators.py — the validation fragments of property C18 that py2v's plain selectors cannot
address (tools/frags/validators.py:SITE) -> coq/Gen/S_validators.v.

Each entry is located in /repo's AST by exact source text (fail-closed), wrapped into a synthetic
one-function module and translated by the unmodified tools/py2v.py; the generated file imports
Lib/PyValid.v for the hand-written meanings of the NumPy / builtin expressions named in `extern`.

generate(repo) -> ({"S_validators.v": coq_text}, report)"""
import ast
import hashlib
import importlib.util
import os
import sys

_HERE = os.path.dirname(os.path.abspath(__file__))
sys.path.insert(0, os.path.dirname(_HERE))
import py2v  # noqa: E402

HEADER = ("From Verif Require Import Py PyExt PyValid.\n\n"
          "From Coq Require Import ZArith List String.\nImport ListNotations.\nOpen Scope Z_scope.\n")


class SiteError(Exception):
    pass


def _indent(text, n=4):
    return "\n".join(" " * n + line for line in text.splitlines())


def synthesize(src_text, spec):
    """returns (synthetic module text, function name) or (None, None) for presence-only facts"""
    tree = ast.parse(src_text)
    fn = py2v.find_function(tree, spec["func"])
    loc = spec["locator"]
    kind = loc[0]
    fname = spec["func"].split(".")[-1]
    args = ", ".join(spec.get("params") or [])
    if kind == "func":
        return src_text, spec["func"]
    if kind == "stmt_present":
        for n in ast.walk(fn):
            if isinstance(n, ast.stmt) and ast.unparse(n) == loc[1]:
                return None, None
        raise SiteError(f"statement `{loc[1]}` no longer present in {spec['func']}")
    if kind == "if_test_present":
        for n in ast.walk(fn):
            if isinstance(n, ast.If) and ast.unparse(n.test) == loc[1]:
                return None, None
        raise SiteError(f"`if {loc[1]}` no longer present in {spec['func']}")
    if kind in ("if_stmt", "if_test"):
        for n in ast.walk(fn):
            if isinstance(n, ast.If) and ast.unparse(n.test) == loc[1]:
                if kind == "if_test":
                    return f"def {fname}({args}):\n    return {ast.unparse(n.test)}\n", fname
                if n.orelse or len(n.body) != 1 or not isinstance(n.body[0], ast.Raise):
                    raise SiteError(f"`if {loc[1]}` is no longer a bare guard (one raise, no else)")
                ex = n.body[0].exc
                exname = ast.unparse(ex.func) if isinstance(ex, ast.Call) else ast.unparse(ex)
                return (f"def {fname}({args}):\n    if {ast.unparse(n.test)}:\n        raise {exname}\n"
                        f"    return None\n"), fname
        raise SiteError(f"`if {loc[1]}` not found in {spec['func']}")
    if kind == "assign_value":
        hits = [n for n in ast.walk(fn) if isinstance(n, ast.Assign) and len(n.targets) == 1
                and isinstance(n.targets[0], ast.Name) and n.targets[0].id == loc[1]]
        if len(hits) != 1:
            raise SiteError(f"expected exactly one assignment to {loc[1]} in {spec['func']}, found {len(hits)}")
        return f"def {fname}({args}):\n    return {ast.unparse(hits[0].value)}\n", fname
    if kind == "if_or_first":
        for n in ast.walk(fn):
            if isinstance(n, ast.If) and isinstance(n.test, ast.BoolOp) and isinstance(n.test.op, ast.Or) and len(n.test.values) == 2:
                x, y = n.test.values
                if (isinstance(y, ast.UnaryOp) and isinstance(y.op, ast.Not) and isinstance(y.operand, ast.Call)
                        and ast.unparse(y.operand.func) == "all" and len(y.operand.args) == 1
                        and ast.unparse(y.operand.args[0]) == loc[1]):
                    if n.orelse or len(n.body) != 1 or not isinstance(n.body[0], ast.Raise):
                        raise SiteError("the broadcast guard is no longer a bare `raise`")
                    return f"def {fname}({args}):\n    return {ast.unparse(x)}\n", fname
        raise SiteError(f"`if X or not all({loc[1][:40]}...)` not found in {spec['func']}")
    if kind == "while_test":
        loops = [n for n in fn.body if isinstance(n, ast.While)]
        if len(loops) <= loc[1]:
            raise SiteError(f"{spec['func']} has no top-level while #{loc[1]}")
        return f"def {fname}({args}):\n    return {ast.unparse(loops[loc[1]].test)}\n", fname
    if kind == "gen_elt":
        for n in ast.walk(fn):
            if isinstance(n, (ast.GeneratorExp, ast.ListComp)) and ast.unparse(n) == loc[1]:
                if len(n.generators) != 1 or n.generators[0].ifs:
                    raise SiteError("comprehension has filters / several generators")
                return f"def {fname}({args}):\n    return {ast.unparse(n.elt)}\n", fname
        raise SiteError(f"comprehension `{loc[1]}` not found in {spec['func']}")
    raise SiteError(f"unknown locator {loc!r}")


class _Prog:
    """call skeleton of a function as a Coq term of type Lib/PyValid.v:prog"""

    def __init__(self, tables, spec):
        self.V, self.K, self.N = tables
        self.neutral_text = set(spec.get("neutral_text") or [])
        self.used_text = set()

    @staticmethod
    def callee(c):
        f = c.func
        if isinstance(f, ast.Name):
            return f.id
        if isinstance(f, ast.Attribute):
            return f.attr
        raise SiteError(f"call through an expression: {ast.unparse(c)}")

    def events(self, e):
        """events of an expression, arguments before the call (post-order)"""
        out = []
        if e is None:
            return out
        for ch in ast.iter_child_nodes(e):
            out += self.events(ch)
        if isinstance(e, ast.Call):
            n = self.callee(e)
            txt = ast.unparse(e)
            if txt in self.neutral_text:
                self.used_text.add(txt)
            elif n in self.V:
                out.append(f'(PVal "{n}"%string)')
            elif n in self.K:
                out.append(f'(PKer "{n}"%string)')
            elif n not in self.N:
                raise SiteError(f"unclassified call `{n}` in `{txt[:60]}`")
        return out

    @staticmethod
    def seq(items):
        if any(x == "PJump" for x in items):
            items = [x for x in items if x != "PJump"] + ["PJump"]
        items = [x for x in items if x != "PSkip"]
        if not items:
            return "PSkip"
        t = items[-1]
        for x in reversed(items[:-1]):
            t = f"(PSeq {x} {t})"
        return t

    def block(self, stmts, in_loop=False):
        """statement list; inside a loop body `if c: X; continue` followed by REST is the structured
        `if c: X else: REST` (same executions), which removes the jump"""
        out = []
        for k, st in enumerate(stmts):
            if (in_loop and isinstance(st, ast.If) and not st.orelse and st.body and isinstance(st.body[-1], ast.Continue)
                    and not any(isinstance(n, (ast.Break, ast.Continue)) for b in st.body[:-1] for n in ast.walk(b))):
                a = self.block(st.body[:-1], in_loop)
                b = self.block(stmts[k + 1:], in_loop)
                out += self.events(st.test)
                if (a, b) != ("PSkip", "PSkip"):
                    out.append(f"(PIf {a} {b})")
                return self.seq(out)
            out.append(self.stmt(st))
        return self.seq(out)

    def stmt(self, s):
        if isinstance(s, (ast.Import, ast.ImportFrom, ast.Pass, ast.Global, ast.Nonlocal)):
            return "PSkip"
        if isinstance(s, ast.Expr) and isinstance(s.value, ast.Constant):
            return "PSkip"
        if isinstance(s, ast.Raise):
            return "PRaise"                      # the exception constructor's arguments are message formatting
        if isinstance(s, ast.Return):
            return self.seq(self.events(s.value) + ["PReturn"])
        if isinstance(s, (ast.Expr, ast.Assign, ast.AugAssign, ast.AnnAssign)):
            return self.seq(self.events(s))
        if isinstance(s, ast.Assert):
            return self.seq(self.events(s.test) + ["(PIf PSkip PRaise)"])
        if isinstance(s, ast.If):
            a, b = self.block(s.body), self.block(s.orelse)
            return self.seq(self.events(s.test) + ([f"(PIf {a} {b})"] if (a, b) != ("PSkip", "PSkip") else []))
        if isinstance(s, (ast.For, ast.While)):
            if s.orelse:
                raise SiteError("loop with an else clause")
            head = self.events(s.iter if isinstance(s, ast.For) else s.test)
            body = self.block(s.body, in_loop=True)
            jumps = "PJump" in body
            if jumps:
                if any(tok in body for tok in ("PVal", "PKer", "PRaise", "PReturn")):
                    raise SiteError("loop with break/continue around validator / kernel calls")
                return self.seq(head)
            if isinstance(s, ast.While):
                body = self.seq([body] + head)
            return self.seq(head + ([f"(PLoop {body})"] if body != "PSkip" else []))
        if isinstance(s, ast.Try):
            # the guarded body must be free of validator / kernel calls (so a partial execution of it is
            # invisible); then: either it completes (-> else clause) or one of the handlers runs
            if self.block(s.body) != "PSkip" or self.block(s.finalbody) != "PSkip":
                raise SiteError("try body / finally with validator / kernel calls")
            t = self.block(s.orelse)
            for h in s.handlers:
                hb = self.block(h.body)
                if (t, hb) != ("PSkip", "PSkip"):
                    t = f"(PIf {t} {hb})"
            return t
        if isinstance(s, (ast.Break, ast.Continue)):
            return "PJump"          # only legal where the enclosing loop body has no validator / kernel / raise
        if isinstance(s, ast.FunctionDef):
            return "PSkip"          # defining a helper executes nothing; every CALL of it must be classified by name
        if isinstance(s, ast.ClassDef):
            raise SiteError("nested class definition")
        raise SiteError(f"statement `{type(s).__name__}`")


def extract_prog(src_text, spec, tables):
    tree = ast.parse(src_text)
    fn = py2v.find_function(tree, spec["func"])
    pr = _Prog(tables, spec)
    term = pr.block(fn.body)
    missing = set(spec.get("neutral_text") or []) - pr.used_text
    if missing:
        raise SiteError(f"neutral_text no longer present: {sorted(missing)}")
    h = hashlib.sha256(term.encode()).hexdigest()[:16]
    return (f"(* call skeleton {spec['name']} of {spec['file']}:{spec['func']} skelhash={h} *)\n"
            f"Definition {spec['name']} : prog :=\n{term}.\n"), h


def float_expr(e, params):
    """a float expression of the source as a term over Lib/PyValid.v:fops (fail-closed)"""
    if isinstance(e, ast.Name):
        if e.id not in params:
            raise SiteError(f"free name {e.id} in float expression")
        return e.id
    if isinstance(e, ast.Constant) and isinstance(e.value, int) and not isinstance(e.value, bool):
        return f"(f_of_Z F ({e.value}))"
    if isinstance(e, ast.BinOp) and isinstance(e.op, (ast.Mult, ast.Div, ast.Add)):
        fn = {ast.Mult: "f_mul", ast.Div: "f_div", ast.Add: "f_add"}[type(e.op)]
        return f"({fn} F {float_expr(e.left, params)} {float_expr(e.right, params)})"
    if isinstance(e, ast.Call) and not e.keywords:
        f = ast.unparse(e.func)
        if f == "np.log" and len(e.args) == 1:
            return f"(f_log F {float_expr(e.args[0], params)})"
        if f == "max" and len(e.args) == 2:
            return f"(f_max F {float_expr(e.args[0], params)} {float_expr(e.args[1], params)})"
    if isinstance(e, ast.Compare) and len(e.ops) == 1 and isinstance(e.ops[0], ast.Gt):
        return f"(f_gt F {float_expr(e.left, params)} {float_expr(e.comparators[0], params)})"
    raise SiteError(f"float expression `{ast.unparse(e)}`")


def float_test(src_text, spec):
    tree = ast.parse(src_text)
    fn = py2v.find_function(tree, spec["func"])
    loops = [n for n in fn.body if isinstance(n, ast.While)]
    k = spec["locator"][1]
    if len(loops) <= k:
        raise SiteError(f"{spec['func']} has no top-level while #{k}")
    hits = [n for n in loops[k].body if isinstance(n, ast.If) and len(n.body) == 1 and isinstance(n.body[0], ast.Break) and not n.orelse]
    if len(hits) != 1:
        raise SiteError("expected exactly one `if <test>: break` in the loop")
    term = float_expr(hits[0].test, spec["params"])
    src = ast.unparse(hits[0].test)
    h = hashlib.sha256(src.encode()).hexdigest()[:16]
    args = " ".join(spec["params"])
    return (f"(* float test {spec['name']} from {spec['file']}:{spec['func']}: `{src}` srchash={h} *)\n"
            f"Definition {spec['name']} (F : fops) ({args} : ft F) : bool :=\n{term}.\n"), h


MV_STEPS = {
    "source = normalize_axis(source, a.ndim)": "MvNormSrc",
    "destination = normalize_axis(destination, a.ndim)": "MvNormDst",
    "len(set(destination)) < len(destination)": "MvRepeatDst",
    "len(source) != len(destination)": "MvLen",
}


def moveaxis_steps(src_text, spec):
    """the four validation statements of moveaxis, in the order in which the function executes them"""
    tree = ast.parse(src_text)
    fn = py2v.find_function(tree, spec["func"])
    steps = []
    for st in fn.body:
        if isinstance(st, ast.Assign) and ast.unparse(st) in MV_STEPS:
            steps.append(MV_STEPS[ast.unparse(st)])
        elif isinstance(st, ast.If) and ast.unparse(st.test) in MV_STEPS:
            if st.orelse or len(st.body) != 1 or not isinstance(st.body[0], ast.Raise) or \
                    not ast.unparse(st.body[0].exc).startswith("ValueError"):
                raise SiteError("moveaxis guard is no longer `if <test>: raise ValueError`")
            steps.append(MV_STEPS[ast.unparse(st.test)])
        elif any(isinstance(n, ast.Raise) for n in ast.walk(st)) or "normalize_axis" in ast.unparse(st):
            raise SiteError(f"unexpected validation statement in moveaxis: {ast.unparse(st)[:60]}")
    if sorted(steps) != sorted(MV_STEPS.values()):
        raise SiteError(f"moveaxis validation statements changed: {steps}")
    if not isinstance(fn.body[-1], ast.Return) or ast.unparse(fn.body[-1]) != "return a.transpose(order)":
        raise SiteError("moveaxis no longer ends in a.transpose(order)")
    h = hashlib.sha256(" ".join(steps).encode()).hexdigest()[:16]
    return (f"(* validation steps of {spec['file']}:{spec['func']} in source order; the function ends in a.transpose(order) *)\n"
            f"Definition {spec['name']} : list mv_step := [{'; '.join(steps)}].\n"), h


def generate(repo):
    sp = importlib.util.spec_from_file_location(
        "frags_validators", os.path.join(os.path.dirname(_HERE), "frags", "validators.py"))
    m = importlib.util.module_from_spec(sp)
    sp.loader.exec_module(m)
    out = [HEADER]
    report = {}
    for spec in m.SITE:
        try:
            with open(os.path.join(repo, spec["file"])) as f:
                text = f.read()
            if spec["locator"][0] == "moveaxis_steps":
                coq, h = moveaxis_steps(text, spec)
                out.append(coq)
                report[spec["name"]] = {"status": "ok", "hash": h}
                continue
            if spec["locator"][0] == "float_test":
                coq, h = float_test(text, spec)
                out.append(coq)
                report[spec["name"]] = {"status": "ok", "hash": h}
                continue
            synth, fname = synthesize(text, spec)
            if synth is None:
                h = hashlib.sha256(str(spec["locator"][1]).encode()).hexdigest()[:16]
                out.append(f"(* site fact {spec['name']}: `{spec['locator'][1]}` present in "
                           f"{spec['file']}:{spec['func']} *)\n"
                           f"Definition {spec['name']} : bool := true.\n")
                report[spec["name"]] = {"status": "ok", "hash": h}
                continue
            sp2 = dict(spec, func=fname, selector=None)
            coq, h = py2v.translate_fragment(synth, sp2, {})
            out.append(coq)
            report[spec["name"]] = {"status": "ok", "hash": h}
        except (py2v.Unsupported, SiteError, OSError, SyntaxError) as ex:
            out.append(f"(* site fragment {spec['name']}: TRANSLATION FAILED: {ex} *)\n")
            report[spec["name"]] = {"status": "failed", "error": str(ex)}
    names = []
    for spec in getattr(m, "PROGS", []):
        try:
            with open(os.path.join(repo, spec["file"])) as f:
                text = f.read()
            coq, h = extract_prog(text, spec, (m.VALIDATOR_CALLS, m.KERNEL_CALLS, m.NEUTRAL_CALLS))
            out.append(coq)
            names.append(spec["name"])
            report[spec["name"]] = {"status": "ok", "hash": h}
        except (py2v.Unsupported, SiteError, OSError, SyntaxError) as ex:
            out.append(f"(* call skeleton {spec['name']}: EXTRACTION FAILED: {ex} *)\n")
            report[spec["name"]] = {"status": "failed", "error": str(ex)}
    if len(names) == len(getattr(m, "PROGS", [])):
        out.append("Definition site_programs : list (String.string * prog) :=\n  [" +
                   ";\n   ".join(f'("{n}"%string, {n})' for n in names) + "].\n")
    return {"S_validators.v": "\n".join(out)}, report


if __name__ == "__main__":
    files, rep = generate(sys.argv[1] if len(sys.argv) > 1 else "/repo")
    print(files["S_validators.v"])
    print(rep, file=sys.stderr)
