"""Site extractor for the products area (property C04) -> coq/Gen/S_dot.v.

Regenerated from /repo's working tree on every run, fail-closed (any deviation from the expected
syntactic shape raises SiteError, which the build records as a broken obligation):

 1. `s_dot_table` — the kernel-selection table of `_common._dot`, obtained by EXECUTING the function's
    AST over the finite abstract domain  operand kind in {COO, GCXS(0,), GCXS(1,), ndarray}^2 x
    return_type in {None, COO, GCXS, ndarray} x argmin(a.shape) in {0, 1}: for every combination, which
    `_dot_*_type` factory is called (and whether on (b, a) / the transposes) and what kind of object
    is returned.  The branch on `a.nbytes > b.nbytes` is executed both ways and must not matter.
    Model/Dot.v's `dot_dispatch` is proved equal to this table (Props/C04.v,
    dot_dispatch_matches_source).
 2. `s_matmul_case` — the case chain of `matmul` (which of the five strategies: dot / dot then move
    the first axis / squeeze a to a vector / squeeze b to a matrix / batch recursion): the TESTS are
    translated by py2v from the source, the strategy bodies are pinned by their exact text.
 3. `s_td_newshape_a`, `s_td_newshape_b`, `s_td_shortcut` — the 2-d target shapes of tensordot's
    reshapes and its zero-size shortcut condition (any(dim == 0 ...) over exactly those two tuples).
 3b. `s_td_shortcut_kinds` — what kind of object that zero-size block returns for every operand kind pair and
    return_type (abstract execution of its statements): it must honour the requested return type.
 5. `s_es_rep_from_end`, `s_es_out_from_end` — from which end of the pool of unused letters `_parse_einsum_input` takes the
    letters standing for `...` (a term's and the output's): they must agree so that a shorter ellipsis lines up
    with the TRAILING axes of a longer one (NumPy broadcasting).
 4. `s_dot_index_allocs`, `s_coo_indptr_dtype_a/b` — the dtype of every pointer / index / counter array
    allocated in `_dot` (the COO -> CSR row pointers) and in the product kernels: they hold cumulative
    counts of stored elements, so they must not be allocated in an operand's (possibly narrow)
    coordinate dtype.  Model/Dot.v's `coo_csr_indptr` takes the dtype code from here.
"""
import ast
import hashlib
import os
import sys

sys.path.insert(0, os.path.dirname(os.path.dirname(os.path.abspath(__file__))))
import py2v  # noqa: E402

COMMON = "sparse/numba_backend/_common.py"


class SiteError(Exception):
    pass


def _func(tree, name):
    for n in tree.body:
        if isinstance(n, ast.FunctionDef) and n.name == name:
            return n
    raise SiteError(f"function {name} not found")


U = ast.unparse

# ---------------------------------------------------------------------------- 1. _dot dispatch
KIND_CODE = {"coo": 0, "g0": 1, "g1": 2, "nd": 3}
RT_CODE = {None: 0, "COO": 1, "GCXS": 2, "ND": 3}
RK_CODE = {"coo": 0, "g0": 1, "g1": 2, "gauto": 3, "nd": 4}
KERNELS = {  # factory -> (code when called on (a, b), code when called on (b, a) / on the transposes)
    "_dot_csr_csr_type": (0, 1), "_dot_csr_ndarray_type": (2, 8), "_dot_csr_ndarray_type_sparse": (3, 9),
    "_dot_csc_ndarray_type": (4, 6), "_dot_csc_ndarray_type_sparse": (5, 7), "_dot_coo_coo_type": (10, None),
    "_dot_coo_ndarray_type": (11, None), "_dot_coo_ndarray_type_sparse": (12, None),
    "_dot_ndarray_coo_type": (13, None), "_dot_ndarray_coo_type_sparse": (14, None),
}
NP_DOT = 15
SKIP_ASSIGN_CALLS = ("np.empty", "np.result_type")          # buffers for the COO indptr computation, dtypes


class Return(Exception):
    def __init__(self, v):
        self.v = v


class Interp:
    """abstract execution of _dot for one (kind_a, kind_b, return_type, argmin, nbytes_gt)"""

    def __init__(self, ka, kb, rt, argmin, nbytes_gt):
        self.env = {"a": self.mk(ka), "b": self.mk(kb), "return_type": rt}
        self.argmin = argmin
        self.nbytes_gt = nbytes_gt
        self.kernel = None
        self.used_nbytes = False

    @staticmethod
    def mk(k):
        return {"coo": ("coo",), "g0": ("gcxs", 0), "g1": ("gcxs", 1), "nd": ("nd",)}[k]

    # ---- expressions
    def ev(self, e):
        src = U(e)
        if isinstance(e, ast.Name):
            if e.id in self.env:
                return self.env[e.id]
            raise SiteError(f"_dot: unbound name {e.id}")
        if isinstance(e, ast.Constant):
            return ("const", e.value)
        if isinstance(e, ast.Tuple):
            if src in ("(a.shape[0], b.shape[1])",):
                return ("shape",)
            if all(isinstance(x, ast.Constant) for x in e.elts):
                return ("const", tuple(x.value for x in e.elts))
            return ("tuple", [self.ev(x) if not isinstance(x, ast.Attribute) else ("buf",) for x in e.elts])
        if isinstance(e, ast.Subscript) and src == "out_shape[::-1]":
            return ("shape",)
        if src == "np.ndarray":
            return ("rtconst", "ND")
        if isinstance(e, ast.Attribute):
            base = self.ev(e.value)
            if e.attr == "T":
                if base[0] == "gcxs":
                    return ("gcxs", 1 - base[1])
                return base
            if e.attr == "compressed_axes":
                if base[0] != "gcxs":
                    raise SiteError(f"_dot: compressed_axes of a {base[0]}")
                return ("const", (base[1],))
            if e.attr in ("data", "indices", "indptr", "coords", "dtype", "shape"):
                return ("buf",)
            raise SiteError(f"_dot: attribute `{src}`")
        if isinstance(e, ast.Call):
            return self.call(e)
        raise SiteError(f"_dot: expression `{src}`")

    def call(self, e):
        src = U(e)
        f = e.func
        fs = U(f)
        # kernel: _dot_X_type(dt1, dt2)(args...)
        if isinstance(f, ast.Call) and isinstance(f.func, ast.Name) and f.func.id in KERNELS:
            first = f.args[0]
            if not (isinstance(first, ast.Attribute) and first.attr == "dtype" and isinstance(first.value, ast.Name)):
                raise SiteError(f"_dot: kernel factory arguments `{U(f)}`")
            direct, swapped = KERNELS[f.func.id]
            code = direct if first.value.id == "a" else swapped
            if code is None:
                raise SiteError(f"_dot: {f.func.id} called on swapped operands")
            if self.kernel is not None:
                raise SiteError("_dot: two kernels on one path")
            self.kernel = code
            return ("kres",)
        if fs == "np.dot":
            self.kernel = NP_DOT
            return ("nd",)
        if fs in SKIP_ASSIGN_CALLS:
            return ("buf",)
        if isinstance(f, ast.Attribute):
            base = self.ev(f.value)
            kw = {k.arg: k.value for k in e.keywords}
            if f.attr == "asformat":
                fmt = self.ev(e.args[0])
                if fmt != ("const", "gcxs"):
                    raise SiteError(f"_dot: `{src}`")
                if "compressed_axes" in kw:
                    ca = self.ev(kw["compressed_axes"])
                    return ("gcxs", ca[1][0])
                if base[0] == "gcxs":
                    return base
                if base[0] == "coo":
                    # COO.asformat("gcxs"): compressed axis argmin(shape) for an operand, "auto" for a result
                    return ("gcxs", self.argmin) if f.value.id in ("a", "b") else ("gcxs", "auto")
                raise SiteError(f"_dot: asformat of {base}")
            if f.attr == "change_compressed_axes":
                ca = self.ev(e.args[0])
                return ("gcxs", ca[1][0])
            if f.attr == "view":
                return base
            if f.attr == "tocoo":
                return ("coo",)
            if f.attr == "todense":
                return ("nd",)
            raise SiteError(f"_dot: method `{src}`")
        if fs == "GCXS":
            kw = {k.arg: k.value for k in e.keywords}
            ca = self.ev(kw["compressed_axes"])
            if ca[0] != "const" or len(ca[1]) != 1:
                raise SiteError(f"_dot: `{src}`")
            return ("gcxs", ca[1][0])
        if fs == "COO":
            return ("coo",)
        raise SiteError(f"_dot: call `{src}`")

    # ---- tests
    def test(self, e):
        src = U(e)
        if src == ("builtins.all((isinstance(arr, SparseArray) for arr in [a, b])) and "
                   "builtins.any((isinstance(arr, GCXS) for arr in [a, b]))"):
            a, b = self.env["a"], self.env["b"]
            return a[0] != "nd" and b[0] != "nd" and (a[0] == "gcxs" or b[0] == "gcxs")
        if isinstance(e, ast.BoolOp):
            vals = [self.test(v) for v in e.values]
            return all(vals) if isinstance(e.op, ast.And) else any(vals)
        if isinstance(e, ast.Call) and U(e.func) == "isinstance":
            v = self.ev(e.args[0])
            cls = U(e.args[1])
            return {"GCXS": v[0] == "gcxs", "COO": v[0] == "coo", "np.ndarray": v[0] == "nd"}[cls]
        if src == "a.nbytes > b.nbytes":
            self.used_nbytes = True
            return self.nbytes_gt
        if isinstance(e, ast.Compare) and len(e.ops) == 1:
            left, right = e.left, e.comparators[0]
            if U(left) == "return_type":
                rt = self.env["return_type"]
                if isinstance(e.ops[0], ast.Is) and U(right) == "None":
                    return rt is None
                if isinstance(e.ops[0], ast.Eq):
                    want = {"np.ndarray": "ND", "COO": "COO", "GCXS": "GCXS"}.get(U(right))
                    if want is None:
                        raise SiteError(f"_dot: `{src}`")
                    return rt == want
            if isinstance(e.ops[0], ast.Eq):
                lv, rv = self.ev(left), self.ev(right)
                if lv[0] == "const" and rv[0] == "const":
                    return lv[1] == rv[1]
        raise SiteError(f"_dot: test `{src}`")

    # ---- statements
    def run(self, stmts):
        for s in stmts:
            if isinstance(s, (ast.ImportFrom, ast.Import)):
                continue
            if isinstance(s, ast.Expr):
                if isinstance(s.value, ast.Constant) or U(s.value).startswith("np.cumsum("):
                    continue
                raise SiteError(f"_dot: statement `{U(s)}`")
            if isinstance(s, ast.Assign):
                t = s.targets[0]
                if isinstance(t, ast.Subscript):        # a_indptr[0] = 0
                    continue
                v = self.ev(s.value)
                if isinstance(t, ast.Name) and t.id == "return_type":
                    if v[0] != "rtconst":
                        raise SiteError(f"assignment `{U(s)}`")
                    self.env["return_type"] = v[1]
                elif isinstance(t, ast.Name):
                    self.env[t.id] = v
                elif isinstance(t, ast.Tuple):
                    for x in t.elts:
                        self.env[x.id] = ("buf",)
                else:
                    raise SiteError(f"_dot: assignment `{U(s)}`")
                continue
            if isinstance(s, ast.If):
                self.run(s.body if self.test(s.test) else s.orelse)
                continue
            if isinstance(s, ast.Return):
                raise Return(self.ev(s.value))
            if isinstance(s, ast.Raise):
                raise Return(None)
            raise SiteError(f"_dot: statement `{U(s).splitlines()[0]}`")
        return None


def dot_table(fn):
    rows = []
    for argmin in (0, 1):
        for ka in ("coo", "g0", "g1", "nd"):
            for kb in ("coo", "g0", "g1", "nd"):
                for rt in (None, "COO", "GCXS", "ND"):
                    outs = set()
                    for gt in (False, True):
                        it = Interp(ka, kb, rt, argmin, gt)
                        try:
                            it.run(fn.body)
                            raise SiteError("_dot: fell off the end")
                        except Return as r:
                            v = r.v
                        if v is None:
                            outs.add(None)
                        else:
                            if it.kernel is None:
                                raise SiteError(f"_dot: no kernel on the path of {(ka, kb, rt)}")
                            if v[0] == "kres":
                                rk = "nd"       # a dense kernel's array is returned as it is
                            elif v[0] == "gcxs":
                                rk = {0: "g0", 1: "g1", "auto": "gauto"}[v[1]]
                            elif v[0] in ("coo", "nd"):
                                rk = v[0]
                            else:
                                raise SiteError(f"_dot: returns {v}")
                            outs.add((it.kernel, RK_CODE[rk]))
                    if len(outs) != 1:
                        raise SiteError(f"_dot: the result for {(ka, kb, rt)} depends on a.nbytes > b.nbytes: {outs}")
                    rows.append((argmin, KIND_CODE[ka], KIND_CODE[kb], RT_CODE[rt], outs.pop()))
    return rows


# ---------------------------------------------------------------------------- 2. matmul case chain
MATMUL_BODIES = [
    ("b.ndim <= 2", "return dot(a, b)"),
    ("a.ndim == 1", "return dot(a, b)"),
    ("a.ndim == 2", "res = dot(a, b)\naxes = list(range(res.ndim))\naxes.insert(-1, axes.pop(0))\nreturn res.transpose(axes)"),
    ("a.ndim <= b.ndim and np.prod(a.shape[:-1]) == 1",
     "res = dot(a.reshape(-1), b)\nshape = list(res.shape)\nshape.insert(-1, 1)\nreturn res.reshape(shape)"),
    ("b.ndim <= a.ndim and np.prod(b.shape[:-2]) == 1", "return dot(a, b.reshape(b.shape[-2:]))"),
]


def matmul_case(fn):
    """the four `if <test>: <strategy>` statements in front of the batch recursion, in order"""
    ifs = [s for s in fn.body if isinstance(s, ast.If) and any(isinstance(n, ast.Return) for n in ast.walk(s))]
    if len(ifs) != len(MATMUL_BODIES):
        raise SiteError(f"matmul: {len(ifs)} returning if-statements (expected {len(MATMUL_BODIES)})")
    lines = ["def matmul_case(a_ndim, b_ndim, a_lead, b_lead):"]
    # rejections in front of the strategies: `if <test>: raise ValueError(...)` (the hasattr TypeError guard is not
    # about the scalar parameters and is skipped by its pinned text)
    guards = []
    for s in fn.body:
        if s is ifs[0]:
            break
        if isinstance(s, ast.If) and len(s.body) == 1 and isinstance(s.body[0], ast.Raise) and not s.orelse:
            if U(s.test) == "not hasattr(a, 'ndim') or not hasattr(b, 'ndim')":
                continue
            exc = s.body[0].exc
            name = U(exc.func) if isinstance(exc, ast.Call) else U(exc)
            if name != "ValueError":
                raise SiteError(f"matmul: guard `{U(s.test)}` raises {name}")
            guards.append(U(s.test))
            lines.append(f"    if {U(s.test)}:\n        raise ValueError")
    for k, (s, (test, body)) in enumerate(zip(ifs, MATMUL_BODIES, strict=True), 1):
        got = "\n".join(U(x) for x in s.body)
        if got != body or s.orelse:
            raise SiteError(f"matmul: strategy {k} changed: `{got}`")
        lines.append(f"    if {U(s.test)}:\n        return {k}")
    last = fn.body[-1]
    if not (isinstance(last, ast.Return) and U(last.value) == "_matmul_recurser(a, b)"):
        raise SiteError("matmul: does not end in the batch recursion")
    lines.append(f"    return {len(MATMUL_BODIES) + 1}")
    src = "\n".join(lines) + "\n"
    spec = dict(name="s_matmul_case", file=COMMON, func="matmul_case", callable=False,
                extern={"a.ndim": "Ok a_ndim", "b.ndim": "Ok b_ndim",
                        "np.prod(a.shape[:-1])": "Ok a_lead", "np.prod(b.shape[:-2])": "Ok b_lead"})
    try:
        coq, h = py2v.translate_fragment(src, spec, {})
    except py2v.Unsupported as ex:
        raise SiteError(f"matmul: {ex}") from ex
    return coq, guards + [U(s.test) for s in ifs]


# ---------------------------------------------------------------------------- 3. tensordot shortcut
def td_shortcut(fn):
    tuples = {}
    test = None
    for s in fn.body:
        if isinstance(s, ast.Assign) and isinstance(s.targets[0], ast.Name) and s.targets[0].id in ("newshape_a", "newshape_b"):
            if not isinstance(s.value, ast.Tuple):
                raise SiteError(f"tensordot: `{U(s)}`")
            elts = []
            for x in s.value.elts:
                if isinstance(x, ast.Name) and x.id == "N2":
                    elts.append("N2")
                elif isinstance(x, ast.UnaryOp) and isinstance(x.op, ast.USub) and isinstance(x.operand, ast.Constant):
                    elts.append(f"({-x.operand.value})")
                elif isinstance(x, ast.Constant) and isinstance(x.value, int):
                    elts.append(str(x.value))
                else:
                    raise SiteError(f"tensordot: entry `{U(x)}` of {s.targets[0].id}")
            tuples[s.targets[0].id] = elts
        if isinstance(s, ast.If) and "chain(" in U(s.test):
            test = U(s.test)
            if len(s.body) == 0 or not isinstance(s.body[-1], ast.Return):
                raise SiteError("tensordot: the zero-size block does not return")
    if set(tuples) != {"newshape_a", "newshape_b"}:
        raise SiteError("tensordot: newshape_a / newshape_b not found")
    if test != "builtins.any((dim == 0 for dim in chain(newshape_a, newshape_b)))":
        raise SiteError(f"tensordot: zero-size shortcut test changed: `{test}`")
    return tuples, test


def td_shortcut_kinds(fn):
    """what kind of object the zero-size block of tensordot returns, for every operand kind pair and return_type
    (abstract execution of the block's statements)"""
    blk = None
    for s in fn.body:
        if isinstance(s, ast.If) and "chain(" in U(s.test):
            blk = s.body
    if blk is None:
        raise SiteError("tensordot: zero-size block not found")
    rows = []
    for ka in ("coo", "g0", "g1", "nd"):
        for kb in ("coo", "g0", "g1", "nd"):
            for rt in (None, "COO", "GCXS", "ND"):
                it = Interp(ka, kb, rt, 0, False)
                try:
                    it.run(blk)
                    raise SiteError("tensordot: the zero-size block fell off its end")
                except Return as r:
                    v = r.v
                if v is None or v[0] not in ("coo", "nd", "gcxs"):
                    raise SiteError(f"tensordot: the zero-size block returns {v}")
                rk = v[0] if v[0] != "gcxs" else {0: "g0", 1: "g1", "auto": "gauto"}[v[1]]
                rows.append((KIND_CODE[ka], KIND_CODE[kb], RT_CODE[rt], RK_CODE[rk]))
    return rows


# ---------------------------------------------------------------------------- 4. index-array allocations
INDEX_NAMES = ("a_indptr", "b_indptr", "indptr", "indices", "coords", "mask", "next_")
DATA_NAMES = ("sums", "data", "out")      # value buffers / accumulators of the kernels: must have the result dtype dtr
DATA_FUNCS = ("_dot_csr_csr_type", "_dot_csr_ndarray_type", "_dot_csr_ndarray_type_sparse", "_dot_csc_ndarray_type",
              "_dot_csc_ndarray_type_sparse", "_dot_coo_coo_type", "_dot_coo_ndarray_type", "_dot_ndarray_coo_type")
ALLOC_FUNCS = ("_dot", "_csr_csr_count_nnz", "_csc_ndarray_count_nnz", "_dot_csr_csr_type", "_dot_csr_ndarray_type_sparse",
               "_dot_csc_ndarray_type_sparse", "_dot_coo_coo_type")
DTYPE_CODE = {"np.intp": 0, "a.coords.dtype": 1, "b.coords.dtype": 1, "dtr": 2, None: 3}


def index_allocs(tree):
    """every `X = np.empty/np.zeros/np.full(..., dtype=D)` of a pointer / index / counter array in _dot and in the
    product kernels: (function, variable, dtype code).  A dtype expression outside DTYPE_CODE fails closed."""
    rows = []
    for fname in ALLOC_FUNCS:
        fn = _func(tree, fname)
        for n in ast.walk(fn):
            if isinstance(n, ast.Assign) and len(n.targets) == 1 and isinstance(n.targets[0], ast.Name) \
                    and n.targets[0].id in INDEX_NAMES and isinstance(n.value, ast.Call) \
                    and U(n.value.func) in ("np.empty", "np.zeros", "np.full"):
                dt = None
                for k in n.value.keywords:
                    if k.arg == "dtype":
                        dt = U(k.value)
                if dt not in DTYPE_CODE:
                    raise SiteError(f"{fname}: `{U(n)}`: dtype expression `{dt}` of an index array is not one the model knows")
                rows.append((fname, n.targets[0].id, dt, DTYPE_CODE[dt]))
    need = {("_dot", "a_indptr"), ("_dot", "b_indptr"), ("_dot_csr_csr_type", "indptr"), ("_dot_csr_csr_type", "indices"),
            ("_dot_coo_coo_type", "coords"), ("_dot_csr_ndarray_type_sparse", "indptr"), ("_dot_csc_ndarray_type_sparse", "indptr")}
    have = {(f, v) for f, v, _d, _c in rows}
    if not need <= have:
        raise SiteError(f"index-array allocations not found: {sorted(need - have)}")
    return rows


def data_allocs(tree):
    """every `sums/data/out = np.empty/np.zeros(..., dtype=D)` of the product kernels: (function, variable, dtype code)"""
    rows = []
    for fname in DATA_FUNCS:
        fn = _func(tree, fname)
        for n in ast.walk(fn):
            if isinstance(n, ast.Assign) and len(n.targets) == 1 and isinstance(n.targets[0], ast.Name) \
                    and n.targets[0].id in DATA_NAMES and isinstance(n.value, ast.Call) \
                    and U(n.value.func) in ("np.empty", "np.zeros", "np.full"):
                dt = None
                for k in n.value.keywords:
                    if k.arg == "dtype":
                        dt = U(k.value)
                if dt not in DTYPE_CODE:
                    raise SiteError(f"{fname}: `{U(n)}`: dtype expression `{dt}` of a value buffer is not one the model knows")
                rows.append((fname, n.targets[0].id, dt, DTYPE_CODE[dt]))
    need = {("_dot_csr_csr_type", "sums"), ("_dot_csc_ndarray_type_sparse", "sums"), ("_dot_coo_coo_type", "sums"),
            ("_dot_csr_csr_type", "data"), ("_dot_csr_ndarray_type", "out"), ("_dot_csc_ndarray_type", "out")}
    have = {(f, v) for f, v, _d, _c in rows}
    if not need <= have:
        raise SiteError(f"value-buffer allocations not found: {sorted(need - have)}")
    return rows


# ---------------------------------------------------------------------------- 5. einsum: letters standing for `...`
def _slice_end(e, name, count):
    """`name[-count:]` -> True (letters from the END of the pool), `name[:count]` -> False; anything else fails closed"""
    if isinstance(e, ast.Subscript) and isinstance(e.value, ast.Name) and e.value.id == name and isinstance(e.slice, ast.Slice) \
            and e.slice.step is None:
        lo, up = e.slice.lower, e.slice.upper
        if up is None and isinstance(lo, ast.UnaryOp) and isinstance(lo.op, ast.USub) and U(lo.operand) == count:
            return True
        if lo is None and up is not None and U(up) == count:
            return False
    raise SiteError(f"_parse_einsum_input: ellipsis letters `{U(e)}`")


def einsum_ellipsis(fn):
    rep = out = None
    for n in ast.walk(fn):
        if isinstance(n, ast.Assign) and len(n.targets) == 1 and isinstance(n.targets[0], ast.Name):
            if n.targets[0].id == "rep_inds":
                rep = _slice_end(n.value, "ellipse_inds", "ellipse_count")
            if n.targets[0].id == "out_ellipse":
                v = n.value
                if isinstance(v, ast.IfExp):
                    if not (U(v.test) == "longest == 0" and U(v.body) == "''"):
                        raise SiteError(f"_parse_einsum_input: `{U(n)}`")
                    v = v.orelse
                out = _slice_end(v, "ellipse_inds", "longest")
    if rep is None or out is None:
        raise SiteError("_parse_einsum_input: rep_inds / out_ellipse not found")
    return rep, out


# ---------------------------------------------------------------------------- output
def generate(repo):
    path = os.path.join(repo, COMMON)
    text = open(path).read()
    tree = ast.parse(text)
    rows = dot_table(_func(tree, "_dot"))
    mm_coq, mm_tests = matmul_case(_func(tree, "matmul"))
    tuples, sc_test = td_shortcut(_func(tree, "tensordot"))
    allocs = index_allocs(tree)
    sc_kinds = td_shortcut_kinds(_func(tree, "tensordot"))
    dallocs = data_allocs(tree)
    es_rep, es_out = einsum_ellipsis(_func(tree, "_parse_einsum_input"))
    h = hashlib.sha256((U(_func(tree, "_dot")) + U(_func(tree, "matmul")) + U(_func(tree, "tensordot"))).encode()).hexdigest()[:16]
    out = ["(* Gen/S_dot.v — generated by tools/sitegen/dot.py from sparse/numba_backend/_common.py (_dot, matmul,",
           f"   tensordot; srchash={h}).  Do not edit. *)",
           "From Verif Require Import Py PyExt.", "From Coq Require Import ZArith List Bool.", "Import ListNotations.",
           "Open Scope Z_scope.", "",
           "(* _dot: (argmin(a.shape), kind of a, kind of b, return_type, Some (kernel, result kind)) with the codes",
           "   kinds 0 COO | 1 GCXS(0,) | 2 GCXS(1,) | 3 ndarray;  return_type 0 None | 1 COO | 2 GCXS | 3 ndarray;",
           "   result 0 COO | 1 GCXS(0,) | 2 GCXS(1,) | 3 COO.asformat(\"gcxs\") | 4 ndarray;",
           "   kernels 0 csr_csr(a,b) 1 csr_csr(b,a) 2 csr_nd 3 csr_nd_sparse 4 csc_nd 5 csc_nd_sparse 6 csc_nd(bT,aT)",
           "   7 csc_nd_sparse(bT,aT) 8 csr_nd(bT,aT) 9 csr_nd_sparse(bT,aT) 10 coo_coo 11 coo_nd 12 coo_nd_sparse",
           "   13 nd_coo 14 nd_coo_sparse 15 np.dot;  None = raise TypeError *)",
           "Definition s_dot_table : list (Z * Z * Z * Z * option (Z * Z)) := ["]
    body = []
    for (am, ka, kb, rt, res) in rows:
        r = "None" if res is None else f"Some ({res[0]}, {res[1]})"
        body.append(f"  ({am}, {ka}, {kb}, {rt}, {r})")
    out.append(";\n".join(body))
    out.append("].")
    out.append("")
    out.append("(* matmul: which strategy — 1 dot (b.ndim <= 2) | 2 dot (a 1-d) | 3 dot, then move the first axis (a 2-d) |")
    out.append("   4 squeeze a to a vector | 5 squeeze b to a matrix | 6 batch recursion.")
    out.append("   a_lead = np.prod(a.shape[:-1]), b_lead = np.prod(b.shape[:-2]) *)")
    out.append(mm_coq)
    out.append("(* tensordot: the 2-d reshape targets and the zero-size shortcut test")
    out.append(f"   `{sc_test}` *)")
    out.append("Definition s_td_newshape_a (N2 : Z) : list Z := [%s]." % "; ".join(tuples["newshape_a"]))
    out.append("Definition s_td_newshape_b (N2 : Z) : list Z := [%s]." % "; ".join(tuples["newshape_b"]))
    out.append("Definition s_td_shortcut (N2a N2b : Z) : bool :=")
    out.append("  existsb (fun dim => dim =? 0) (s_td_newshape_a N2a ++ s_td_newshape_b N2b).")
    out.append("")
    out.append("(* tensordot's zero-size block: (kind of a, kind of b, return_type, kind of the returned object), codes as in s_dot_table *)")
    out.append("Definition s_td_shortcut_kinds : list (Z * Z * Z * Z) := [")
    out.append(";\n".join(f"  ({a_}, {b_}, {r_}, {k_})" for (a_, b_, r_, k_) in sc_kinds))
    out.append("].")
    out.append("")
    out.append("(* dtypes of the pointer / index / counter arrays allocated in _dot and in the product kernels:")
    out.append("   0 np.intp | 1 the operand's coordinate dtype (may be narrow) | 2 the data dtype | 3 no dtype= (platform integer) *)")
    for (f, v, dt, c) in allocs:
        out.append(f"(*   {f}: {v} = np.*(..., dtype={dt}) *)")
    out.append("Definition s_dot_index_allocs : list Z := [%s]." % "; ".join(str(c) for (_f, _v, _d, c) in allocs))
    out.append("(* value buffers / accumulators of the kernels (2 = the result dtype dtr; anything else loses values:")
    out.append("   a float64 accumulator rounds int64 beyond 2**53 and cannot hold complex numbers) *)")
    for (f, v, dt, c) in dallocs:
        out.append(f"(*   {f}: {v} = np.*(..., dtype={dt}) *)")
    out.append("Definition s_dot_data_allocs : list Z := [%s]." % "; ".join(str(c) for (_f, _v, _d, c) in dallocs))
    out.append("(* _parse_einsum_input: the letters that replace `...` in a term covering ellipse_count axes, and in the output")
    out.append("   (longest of them), are taken from the END of the pool of unused letters (true) or from its front (false) *)")
    out.append(f"Definition s_es_rep_from_end : bool := {'true' if es_rep else 'false'}.")
    out.append(f"Definition s_es_out_from_end : bool := {'true' if es_out else 'false'}.")
    da = [c for (f, v, _d, c) in allocs if (f, v) == ("_dot", "a_indptr")]
    db = [c for (f, v, _d, c) in allocs if (f, v) == ("_dot", "b_indptr")]
    if len(da) != 1 or len(db) != 1:
        raise SiteError("_dot: a_indptr / b_indptr allocated more than once")
    out.append("(* the row pointers of the COO @ COO branch of _dot (a_indptr, b_indptr) *)")
    out.append(f"Definition s_coo_indptr_dtype_a : Z := {da[0]}.")
    out.append(f"Definition s_coo_indptr_dtype_b : Z := {db[0]}.")
    out.append("")
    report = {"s_es_ellipsis": {"status": "ok", "rep_from_end": es_rep, "out_from_end": es_out},
              "s_dot_index_allocs": {"status": "ok", "allocs": [[f, v, dt] for (f, v, dt, _c) in allocs]},
              "s_dot_table": {"status": "ok", "rows": len(rows), "hash": h},
              "s_matmul_case": {"status": "ok", "tests": mm_tests},
              "s_td_shortcut": {"status": "ok", "newshape_a": tuples["newshape_a"], "newshape_b": tuples["newshape_b"]}}
    return {"S_dot.v": "\n".join(out)}, report


if __name__ == "__main__":
    files, rep = generate(sys.argv[1] if len(sys.argv) > 1 else "/repo")
    print(files["S_dot.v"])
    print(rep, file=sys.stderr)
