"""Sliced fragments of the creation area (C19) -> coq/Gen/S_create.v.

For every entry of tools/frags/create.py:SLICED, cut the translated statement range out of the
function, check (fail-closed) that what is NOT translated is exactly what the table says, apply two
semantics-preserving rewrites, and translate with the unmodified tools/py2v.py.

generate(repo) -> ({"S_create.v": coq_text}, report)"""
import ast
import copy
import importlib.util
import os
import sys

_HERE = os.path.dirname(os.path.abspath(__file__))
sys.path.insert(0, os.path.dirname(_HERE))
import py2v  # noqa: E402

HEADER = ("From Verif Require Import Py PyExt PyCreate.\n\n"
          "From Coq Require Import ZArith List.\nImport ListNotations.\nOpen Scope Z_scope.\n")


class SliceError(Exception):
    pass


class _Rewrite(ast.NodeTransformer):
    """builtins.min / builtins.max -> min / max (the module shadows the builtins with its own
    reductions, which is why the source spells them out; the callee is Python's builtin)."""

    def visit_Attribute(self, node):
        self.generic_visit(node)
        if isinstance(node.value, ast.Name) and node.value.id == "builtins" and node.attr in ("min", "max"):
            return ast.copy_location(ast.Name(id=node.attr, ctx=node.ctx), node)
        return node


def _split_chained(stmts):
    """a = b = e  ->  a = e ; b = a   (recursively inside if/else bodies).  Python evaluates e once and
    assigns the targets left to right; for plain names the two forms are equivalent."""
    out = []
    for s in stmts:
        if isinstance(s, ast.If):
            s.body = _split_chained(s.body)
            s.orelse = _split_chained(s.orelse)
            out.append(s)
        elif isinstance(s, ast.Assign) and len(s.targets) > 1:
            if not all(isinstance(t, ast.Name) for t in s.targets):
                raise SliceError("chained assignment to a non-name")
            first = s.targets[0]
            out.append(ast.Assign(targets=[first], value=s.value, lineno=0, col_offset=0))
            for t in s.targets[1:]:
                out.append(ast.Assign(targets=[t], value=ast.Name(id=first.id, ctx=ast.Load()),
                                      lineno=0, col_offset=0))
        else:
            out.append(s)
    return out


def slice_function(src_text, spec):
    tree = ast.parse(src_text)
    fn = py2v.find_function(tree, spec["func"])
    body = list(fn.body)
    if body and isinstance(body[0], ast.Expr) and isinstance(body[0].value, ast.Constant) \
            and isinstance(body[0].value.value, str):
        body = body[1:]
    texts = [ast.unparse(s) for s in body]
    tail = spec["tail"]
    if len(texts) < len(tail) or texts[len(texts) - len(tail):] != tail:
        raise SliceError(f"untranslated tail of {spec['func']} changed: {texts[-len(tail):]!r}")
    body = body[:len(body) - len(tail)]
    texts = texts[:len(body)]
    kept = []
    drops = list(spec["drop"])
    for s, t in zip(body, texts, strict=True):
        if t in drops:
            drops.remove(t)
            continue
        kept.append(copy.deepcopy(s))
    if drops:
        raise SliceError(f"statements expected to be dropped are no longer present: {drops!r}")
    kept = [_Rewrite().visit(s) for s in kept]
    kept = _split_chained(kept)
    args = ", ".join(spec["params"])
    synth = f"def {spec['func']}({args}):\n" + "\n".join(
        "    " + line for s in kept for line in ast.unparse(ast.fix_missing_locations(s)).splitlines()) + "\n"
    return synth


def generate(repo):
    sp = importlib.util.spec_from_file_location("frags_create", os.path.join(os.path.dirname(_HERE), "frags", "create.py"))
    m = importlib.util.module_from_spec(sp)
    sp.loader.exec_module(m)
    out = [HEADER]
    report = {}
    for spec in m.SLICED:
        try:
            with open(os.path.join(repo, spec["file"])) as f:
                text = f.read()
            synth = slice_function(text, spec)
            coq, h = py2v.translate_fragment(synth, dict(spec, selector=None), dict(spec.get("calls") or {}))
            out.append(coq)
            report[spec["name"]] = {"status": "ok", "hash": h}
        except (py2v.Unsupported, SliceError, OSError, SyntaxError) as ex:
            out.append(f"(* sliced fragment {spec['name']}: TRANSLATION FAILED: {ex} *)\n")
            report[spec["name"]] = {"status": "failed", "error": str(ex)}
    return {"S_create.v": "\n".join(out)}, report


if __name__ == "__main__":
    files, rep = generate(sys.argv[1] if len(sys.argv) > 1 else "/repo")
    print(files["S_create.v"])
    print(rep, file=sys.stderr)
