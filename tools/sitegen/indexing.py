"""Picked fragments of the indexing area (C02) -> coq/Gen/S_indexing.v.

For every entry of tools/frags/indexing.py:WHOLE the function is translated as it stands; for every
entry of PICKED one expression / statement is picked out of the function's AST by a structural address
(fail-closed: the statements around it must have the expected shape), wrapped into a synthetic function
and translated with the unmodified tools/py2v.py.  The only rewrites applied are
  * `p[k]` (constant subscript of a parameter) -> a fresh parameter `p_k`   (py2v wants pure operands
    late in a comparison chain; the subscript is a read of an immutable row), and
  * `continue` as the LAST statement of a loop body -> `pass`.

generate(repo) -> ({"S_indexing.v": coq_text}, report)"""
import ast
import copy
import importlib.util
import os
import sys

_HERE = os.path.dirname(os.path.abspath(__file__))
sys.path.insert(0, os.path.dirname(_HERE))
import py2v  # noqa: E402


class PickError(Exception):
    pass


def _stmts_no_doc(fn):
    body = list(fn.body)
    if body and isinstance(body[0], ast.Expr) and isinstance(body[0].value, ast.Constant) \
            and isinstance(body[0].value.value, str):
        body = body[1:]
    return body


def _unique(nodes, what):
    nodes = list(nodes)
    if len(nodes) != 1:
        raise PickError(f"expected exactly one {what}, found {len(nodes)}")
    return nodes[0]


def _if_with_test(fn, text):
    return _unique((n for n in ast.walk(fn) if isinstance(n, ast.If) and ast.unparse(n.test) == text),
                   f"`if {text}`")


class _Sub(ast.NodeTransformer):
    def __init__(self, table):
        self.table = table

    def visit_Subscript(self, node):
        self.generic_visit(node)
        if isinstance(node.value, ast.Name) and node.value.id in self.table:
            names = self.table[node.value.id]
            if not (isinstance(node.slice, ast.Constant) and isinstance(node.slice.value, int)
                    and 0 <= node.slice.value < len(names)):
                raise PickError(f"unexpected subscript `{ast.unparse(node)}`")
            return ast.copy_location(ast.Name(id=names[node.slice.value], ctx=ast.Load()), node)
        return node


def _ret(expr):
    return [ast.Return(value=copy.deepcopy(expr))]


def pick(fn, spec):
    """returns the list of statements of the synthetic function"""
    p = spec["pick"]
    kind = p[0]
    if kind == "augassign_value":
        n = _unique((n for n in ast.walk(fn) if isinstance(n, ast.AugAssign) and isinstance(n.target, ast.Name)
                     and n.target.id == p[1]), f"augmented assignment to {p[1]}")
        if not isinstance(n.op, ast.BitAnd):
            raise PickError("`match` is no longer accumulated with &=")
        return _ret(n.value)
    if kind == "call_arg":
        blk = _if_with_test(fn, p[1])
        n = _unique((s for s in blk.body if isinstance(s, ast.Expr) and isinstance(s.value, ast.Call)
                     and ast.unparse(s.value.func) == p[2]), f"call of {p[2]} under `if {p[1]}`")
        if len(n.value.args) != 1 or n.value.keywords:
            raise PickError(f"{p[2]} no longer takes one argument")
        return _ret(n.value.args[0])
    if kind == "assign_value":
        n = _unique((s for s in fn.body if isinstance(s, ast.Assign) and len(s.targets) == 1
                     and isinstance(s.targets[0], ast.Name) and s.targets[0].id == p[1]),
                    f"top-level assignment to {p[1]}")
        return _ret(n.value)
    if kind == "if_stmt":
        blk = _if_with_test(fn, p[1])
        n = _unique((s for s in blk.body if isinstance(s, ast.If) and ast.unparse(s.test) == p[2]),
                    f"`if {p[2]}` under `if {p[1]}`")
        return [copy.deepcopy(n), ast.Return(value=ast.Name(id=p[3], ctx=ast.Load()))]
    if kind == "prune_test":
        loop = _unique((s for s in fn.body if isinstance(s, ast.For)), "for loop in _prune_indices")
        if ast.unparse(loop.target) != "(idx, sh)" or \
                ast.unparse(loop.iter) != "zip(indices[::-1], shape[::-1], strict=True)":
            raise PickError("loop header of _prune_indices changed")
        b = loop.body
        ok = (len(b) == 4 and isinstance(b[0], ast.If)
              and ast.unparse(b[0]) == "if not isinstance(idx, slice):\n    break"
              and all(isinstance(b[k], ast.If) and not b[k].orelse
                      and [ast.unparse(s) for s in b[k].body] == ["i += 1", "continue"] for k in (1, 2))
              and isinstance(b[3], ast.Break))
        if not ok:
            raise PickError("loop body of _prune_indices changed shape")
        return _ret(b[p[1]].test)
    if kind == "count_loop":
        body = _stmts_no_doc(fn)
        loop = _unique((s for s in body if isinstance(s, ast.For) and ast.unparse(s.target) == "i"
                        and ast.unparse(s.iter) == "idx"), "`for i in idx` in normalize_index")
        if len(loop.body) != 1 or not isinstance(loop.body[0], ast.If) or loop.orelse:
            raise PickError("counting loop of normalize_index changed shape")
        st = copy.deepcopy(loop.body[0])

        def tail_continue(stmts):
            if stmts and isinstance(stmts[-1], ast.Continue):
                stmts[-1] = ast.Pass()
            for s in stmts:
                if isinstance(s, ast.If):
                    tail_continue(s.body)
                    tail_continue(s.orelse)
        tail_continue([st])
        if any(isinstance(n, (ast.Continue, ast.Break)) for n in ast.walk(st)):
            raise PickError("continue/break outside tail position in the counting loop")
        return [st, ast.Return(value=ast.Name(id=p[1], ctx=ast.Load()))]
    if kind == "pad_count":
        n = _unique((s for s in fn.body if isinstance(s, ast.AugAssign) and ast.unparse(s.target) == "idx"),
                    "`idx += ...` in normalize_index")
        v = n.value
        if not (isinstance(n.op, ast.Add) and isinstance(v, ast.BinOp) and isinstance(v.op, ast.Mult)
                and ast.unparse(v.left) == "(slice(None),)"):
            raise PickError("padding statement of normalize_index changed shape")
        return _ret(v.right)
    if kind == "raise_test":
        n = _unique((s for s in fn.body if isinstance(s, ast.If) and len(s.body) == 1 and not s.orelse
                     and isinstance(s.body[0], ast.Raise) and ast.unparse(s.body[0].exc) == p[1]),
                    f"`if ...: raise {p[1]}`")
        return _ret(n.test)
    raise PickError(f"unknown picker {kind}")


def synthesize(src_text, spec):
    tree = ast.parse(src_text)
    fn = py2v.find_function(tree, spec["func"])
    stmts = pick(fn, spec)
    if spec.get("subscripts"):
        stmts = [_Sub(spec["subscripts"]).visit(s) for s in stmts]
    args = ", ".join(spec["params"])
    lines = []
    for s in stmts:
        lines.extend("    " + ln for ln in ast.unparse(ast.fix_missing_locations(s)).splitlines())
    return f"def {spec['func'].split('.')[-1]}({args}):\n" + "\n".join(lines) + "\n"


def generate(repo):
    sp = importlib.util.spec_from_file_location("frags_indexing",
                                                os.path.join(os.path.dirname(_HERE), "frags", "indexing.py"))
    m = importlib.util.module_from_spec(sp)
    sp.loader.exec_module(m)
    out = [m.HEADER, "From Coq Require Import ZArith List.\nImport ListNotations.\nOpen Scope Z_scope.\n"]
    report = {}
    for spec in m.WHOLE:
        try:
            with open(os.path.join(repo, spec["file"])) as f:
                text = f.read()
            coq, h = py2v.translate_fragment(text, spec, {})
            out.append(coq)
            report[spec["name"]] = {"status": "ok", "hash": h}
        except (py2v.Unsupported, OSError, SyntaxError) as ex:
            out.append(f"(* fragment {spec['name']}: TRANSLATION FAILED: {ex} *)\n")
            report[spec["name"]] = {"status": "failed", "error": str(ex)}
    for spec in m.PICKED:
        try:
            with open(os.path.join(repo, spec["file"])) as f:
                text = f.read()
            synth = synthesize(text, spec)
            coq, h = py2v.translate_fragment(synth, dict(spec, selector=None, func=spec["func"].split(".")[-1]), {})
            out.append("(* picked: " + " | ".join(synth.strip().splitlines()[1:]).replace("*)", "* )") + " *)\n" + coq)
            report[spec["name"]] = {"status": "ok", "hash": h}
        except (py2v.Unsupported, PickError, OSError, SyntaxError) as ex:
            out.append(f"(* picked fragment {spec['name']}: TRANSLATION FAILED: {ex} *)\n")
            report[spec["name"]] = {"status": "failed", "error": str(ex)}
    return {"S_indexing.v": "\n".join(out)}, report


if __name__ == "__main__":
    files, rep = generate(sys.argv[1] if len(sys.argv) > 1 else "/repo")
    print(files["S_indexing.v"])
    print(rep, file=sys.stderr)
