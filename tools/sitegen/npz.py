"""sitegen/npz.py — call-site facts of persistence and copying (property C14), extracted from the AST of
/repo on every run and emitted as coq/Gen/S_npz.v.  Fail-closed: any statement of the inspected
functions that is not of the expected shape raises SiteError (the check records a broken obligation).

Extracted:
  _io.save_npz      the `nodes` member table (member name -> attribute of `matrix`), the chain of
                    `type(matrix) is K` / `isinstance(matrix, K)` tests with the members each adds (and whether a
                    member is guarded by `if matrix.<attr> is not None`),
                    the two writer calls (np.savez_compressed / np.savez with **nodes) and their
                    allow_pickle argument
  _io.load_npz      np.load(...) arguments (allow_pickle), the `fp.zip.testzip()` guard, the sequence of try-blocks:
                    members read (in order, with the conversion applied, and whether the read is the optional form
                    `fp[m] if m in fp else None`), the constructor called, which member feeds which
                    constructor parameter, constant flags (sorted=, has_duplicates=), the exception caught
                    and the handler's action (pass | raise E)
  COO / GCXS / _Compressed2d / CSR / CSC / SparseArray
                    class hierarchy; __getstate__ tuple, __setstate__ targets (+ attributes reset to None);
                    absence of __copy__/__deepcopy__/__reduce__/__reduce_ex__/__slots__; body of copy();
                    attributes assigned by GCXS.__init__ (the default pickle state); defaults of COO.__init__
  _coo/numba_extension
                    unbox_COO field order, struct members, box_COO constructor call (positional/keyword
                    arguments), which dtype types the shape tuple and the fill value
"""
import ast
import hashlib
import os

BACKEND = "sparse/numba_backend"
KLASSES = ["COO", "GCXS", "CSR", "CSC"]


class SiteError(Exception):
    pass


def need(cond, msg):
    if not cond:
        raise SiteError(msg)


def parse(repo, rel):
    p = os.path.join(repo, BACKEND, rel)
    src = open(p).read()
    return ast.parse(src), src


def find_func(tree, name):
    for n in tree.body:
        if isinstance(n, ast.FunctionDef) and n.name == name:
            return n
    raise SiteError(f"function {name} not found")


def find_class(tree, name):
    for n in tree.body:
        if isinstance(n, ast.ClassDef) and n.name == name:
            return n
    raise SiteError(f"class {name} not found")


def method(cls, name):
    for n in cls.body:
        if isinstance(n, ast.FunctionDef) and n.name == name:
            return n
    return None


def body_nodoc(fn):
    b = fn.body
    if b and isinstance(b[0], ast.Expr) and isinstance(b[0].value, ast.Constant) and isinstance(b[0].value.value, str):
        b = b[1:]
    return b


def is_name(n, s):
    return isinstance(n, ast.Name) and n.id == s


def is_attr(n, base, attr=None):
    return isinstance(n, ast.Attribute) and is_name(n.value, base) and (attr is None or n.attr == attr)


def sconst(n):
    need(isinstance(n, ast.Constant) and isinstance(n.value, str), f"expected a string constant, got {ast.dump(n)[:80]}")
    return n.value


# --------------------------------------------------------------------------------- save_npz
def extract_save(tree):
    fn = find_func(tree, "save_npz")
    args = [a.arg for a in fn.args.args]
    need(args == ["filename", "matrix", "compressed"], f"save_npz signature changed: {args}")
    need(len(fn.args.defaults) == 1 and isinstance(fn.args.defaults[0], ast.Constant)
         and fn.args.defaults[0].value is True, "save_npz: default of `compressed` is not True")
    b = body_nodoc(fn)
    need(len(b) == 3, f"save_npz: expected 3 statements (nodes = ..., if type..., if compressed...), found {len(b)}")
    a0 = b[0]
    need(isinstance(a0, ast.Assign) and len(a0.targets) == 1 and is_name(a0.targets[0], "nodes")
         and isinstance(a0.value, ast.Dict), "save_npz: first statement is not `nodes = {...}`")
    base = []
    for k, v in zip(a0.value.keys, a0.value.values, strict=True):
        need(is_attr(v, "matrix"), "save_npz: a base member is not an attribute of `matrix`")
        base.append((sconst(k), v.attr))
    branches = []
    node = b[1]
    while node is not None:
        need(isinstance(node, ast.If), "save_npz: class selection is not an if/elif chain")
        t = node.test
        if (isinstance(t, ast.Compare) and len(t.ops) == 1 and isinstance(t.ops[0], ast.Is)
                and isinstance(t.left, ast.Call) and is_name(t.left.func, "type") and len(t.left.args) == 1
                and is_name(t.left.args[0], "matrix") and isinstance(t.comparators[0], ast.Name)):
            test = ("TypeIs", t.comparators[0].id)
        elif (isinstance(t, ast.Call) and is_name(t.func, "isinstance") and len(t.args) == 2
              and is_name(t.args[0], "matrix") and isinstance(t.args[1], ast.Name)):
            test = ("IsInstance", t.args[1].id)
        else:
            raise SiteError(f"save_npz: unsupported class test {ast.unparse(t)}")
        need(test[1] in KLASSES, f"save_npz: test on unmodelled class {test[1]}")
        mem = []

        def plain_assign(st):
            """nodes["m"] = matrix.a   |   nodes["m"] = () if matrix.a is None else matrix.a"""
            need(isinstance(st, ast.Assign) and len(st.targets) == 1 and isinstance(st.targets[0], ast.Subscript)
                 and is_name(st.targets[0].value, "nodes"),
                 f"save_npz: unsupported statement in class branch: {ast.unparse(st)}")
            v = st.value
            if is_attr(v, "matrix"):
                return sconst(st.targets[0].slice), v.attr, "WPlain"
            ok = (isinstance(v, ast.IfExp) and isinstance(v.body, ast.Tuple) and not v.body.elts and is_attr(v.orelse, "matrix")
                  and isinstance(v.test, ast.Compare) and len(v.test.ops) == 1 and isinstance(v.test.ops[0], ast.Is)
                  and is_attr(v.test.left, "matrix", v.orelse.attr) and isinstance(v.test.comparators[0], ast.Constant)
                  and v.test.comparators[0].value is None)
            need(ok, f"save_npz: unsupported member value {ast.unparse(v)}")
            return sconst(st.targets[0].slice), v.orelse.attr, "WNoneAsEmpty"
        for s in node.body:
            if isinstance(s, ast.If):
                # if matrix.a is not None: nodes["m"] = matrix.a
                t2 = s.test
                need(isinstance(t2, ast.Compare) and len(t2.ops) == 1 and isinstance(t2.ops[0], ast.IsNot)
                     and is_attr(t2.left, "matrix") and isinstance(t2.comparators[0], ast.Constant)
                     and t2.comparators[0].value is None and not s.orelse and len(s.body) == 1,
                     f"save_npz: unsupported guard in class branch: {ast.unparse(s)[:80]}")
                m, a, mode = plain_assign(s.body[0])
                need(a == t2.left.attr and mode == "WPlain", "save_npz: unsupported guarded member write")
                mem.append((m, a, "WIfNotNone"))
            else:
                mem.append(plain_assign(s))
        branches.append((test, mem))
        if not node.orelse:
            node = None
        else:
            need(len(node.orelse) == 1 and isinstance(node.orelse[0], ast.If),
                 "save_npz: class chain has an else branch that is not an elif")
            node = node.orelse[0]
    w = b[2]
    need(isinstance(w, ast.If) and is_name(w.test, "compressed") and len(w.body) == 1 and len(w.orelse) == 1,
         "save_npz: writer selection is not `if compressed: ... else: ...`")
    allow = []
    for stmt, fname in ((w.body[0], "savez_compressed"), (w.orelse[0], "savez")):
        need(isinstance(stmt, ast.Expr) and isinstance(stmt.value, ast.Call) and is_attr(stmt.value.func, "np", fname),
             f"save_npz: writer call is not np.{fname}")
        c = stmt.value
        need(len(c.args) == 1 and is_name(c.args[0], "filename"), f"save_npz: np.{fname} first argument is not filename")
        star = [k for k in c.keywords if k.arg is None]
        need(len(star) == 1 and is_name(star[0].value, "nodes"), f"save_npz: np.{fname} does not receive **nodes")
        ap = True
        for k in c.keywords:
            if k.arg is None:
                continue
            need(k.arg == "allow_pickle" and isinstance(k.value, ast.Constant) and isinstance(k.value.value, bool),
                 f"save_npz: unsupported keyword {k.arg} of np.{fname}")
            ap = k.value.value
        allow.append(ap)
    need(allow[0] == allow[1], "save_npz: the two writers differ in allow_pickle")
    return {"base": base, "branches": branches, "allow_pickle": allow[0]}


# --------------------------------------------------------------------------------- load_npz
EXPECTED_CONV = {"shape": "tuple", "fill_value": "item"}


def read_expr(e):
    """fp["m"] | tuple(fp["m"]) | fp["m"][()] | fp["m"] if "m" in fp else None  ->  (member, conversion, optional)"""
    def plain(x):
        if isinstance(x, ast.Subscript) and is_name(x.value, "fp") and isinstance(x.slice, ast.Constant):
            return sconst(x.slice)
        return None
    m = plain(e)
    if m is not None:
        return m, "plain", False
    if isinstance(e, ast.Call) and is_name(e.func, "tuple") and len(e.args) == 1 and not e.keywords and plain(e.args[0]):
        return plain(e.args[0]), "tuple", False
    if (isinstance(e, ast.Subscript) and isinstance(e.slice, ast.Tuple) and not e.slice.elts and plain(e.value)):
        return plain(e.value), "item", False
    if isinstance(e, ast.IfExp) and plain(e.body) is not None:
        t = e.test
        ok = (isinstance(t, ast.Compare) and len(t.ops) == 1 and isinstance(t.ops[0], ast.In)
              and isinstance(t.left, ast.Constant) and t.left.value == plain(e.body) and is_name(t.comparators[0], "fp")
              and isinstance(e.orelse, ast.Constant) and e.orelse.value is None)
        if ok:
            return plain(e.body), "plain", True
    raise SiteError(f"load_npz: unsupported member read {ast.unparse(e)}")


def testzip_guard(st):
    """if fp.zip.testzip() is not None: raise E(...)  ->  E"""
    if not isinstance(st, ast.If):
        return None
    t = st.test
    ok = (isinstance(t, ast.Compare) and len(t.ops) == 1 and isinstance(t.ops[0], ast.IsNot)
          and isinstance(t.comparators[0], ast.Constant) and t.comparators[0].value is None
          and isinstance(t.left, ast.Call) and not t.left.args and not t.left.keywords
          and isinstance(t.left.func, ast.Attribute) and t.left.func.attr == "testzip"
          and is_attr(t.left.func.value, "fp", "zip"))
    need(ok, f"load_npz: unsupported if-statement {ast.unparse(t)}")
    need(not st.orelse and len(st.body) == 1 and isinstance(st.body[0], ast.Raise) and isinstance(st.body[0].exc, ast.Call)
         and isinstance(st.body[0].exc.func, ast.Name), "load_npz: the testzip guard does not raise an exception class")
    return st.body[0].exc.func.id


def extract_load(tree):
    fn = find_func(tree, "load_npz")
    need([a.arg for a in fn.args.args] == ["filename"], "load_npz signature changed")
    b = body_nodoc(fn)
    need(len(b) == 1 and isinstance(b[0], ast.With) and len(b[0].items) == 1, "load_npz: body is not a single with-block")
    it = b[0].items[0]
    c = it.context_expr
    need(isinstance(c, ast.Call) and is_attr(c.func, "np", "load") and len(c.args) == 1 and is_name(c.args[0], "filename")
         and is_name(it.optional_vars, "fp"), "load_npz: not `with np.load(filename, ...) as fp`")
    allow = False   # numpy's default
    for k in c.keywords:
        need(k.arg == "allow_pickle" and isinstance(k.value, ast.Constant) and isinstance(k.value.value, bool),
             f"load_npz: unsupported np.load keyword {k.arg}")
        allow = k.value.value
    attempts = []
    stmts = list(b[0].body)
    testzip = None
    if stmts and isinstance(stmts[0], ast.If):
        testzip = testzip_guard(stmts[0])
        stmts = stmts[1:]
    for t in stmts:
        need(isinstance(t, ast.Try) and not t.orelse and not t.finalbody and len(t.handlers) == 1,
             f"load_npz: unexpected statement {type(t).__name__} in the with-block")
        reads, var2mem = [], {}
        need(t.body and isinstance(t.body[-1], ast.Return), "load_npz: try-block does not end in return")
        for s in t.body[:-1]:
            if isinstance(s, ast.If):
                # if v.size == 0: v = None     (directly after the read of v)
                tt = s.test
                ok = (isinstance(tt, ast.Compare) and len(tt.ops) == 1 and isinstance(tt.ops[0], ast.Eq)
                      and isinstance(tt.left, ast.Attribute) and tt.left.attr == "size" and isinstance(tt.left.value, ast.Name)
                      and isinstance(tt.comparators[0], ast.Constant) and tt.comparators[0].value == 0
                      and not s.orelse and len(s.body) == 1 and isinstance(s.body[0], ast.Assign)
                      and len(s.body[0].targets) == 1 and is_name(s.body[0].targets[0], tt.left.value.id)
                      and isinstance(s.body[0].value, ast.Constant) and s.body[0].value.value is None)
                need(ok, f"load_npz: unsupported if-statement {ast.unparse(s)[:80]}")
                v = tt.left.value.id
                need(reads and var2mem.get(v) == reads[-1][0] and reads[-1][1] == "RPlain",
                     "load_npz: the empty-to-None mapping does not follow the read of its variable")
                reads[-1] = (reads[-1][0], "REmptyAsNone")
                continue
            need(isinstance(s, ast.Assign) and len(s.targets) == 1 and isinstance(s.targets[0], ast.Name),
                 f"load_npz: unsupported statement {ast.unparse(s)}")
            m, conv, optional = read_expr(s.value)
            need(conv == EXPECTED_CONV.get(m, "plain"), f"load_npz: member {m} is read with conversion {conv}")
            reads.append((m, "ROptionalNone" if optional else "RPlain"))
            var2mem[s.targets[0].id] = m
        call = t.body[-1].value
        need(isinstance(call, ast.Call) and isinstance(call.func, ast.Name) and call.func.id in KLASSES,
             "load_npz: return value is not a constructor call of a modelled class")

        def mem_of(n):
            need(isinstance(n, ast.Name) and n.id in var2mem, f"load_npz: constructor argument {ast.unparse(n)} is not a member read")
            return var2mem[n.id]
        args, flags = [], []
        for i, a in enumerate(call.args):
            if isinstance(a, ast.Tuple):
                for j, e in enumerate(a.elts):
                    args.append((f"arg{i}.{j}", mem_of(e)))
            else:
                args.append((f"arg{i}", mem_of(a)))
        for k in call.keywords:
            need(k.arg is not None, "load_npz: ** in constructor call")
            if isinstance(k.value, ast.Constant) and isinstance(k.value.value, bool):
                flags.append((k.arg, k.value.value))
            else:
                args.append((k.arg, mem_of(k.value)))
        h = t.handlers[0]
        need(isinstance(h.type, ast.Name), "load_npz: handler catches something else than a single exception class")
        caught = h.type.id
        if len(h.body) == 1 and isinstance(h.body[0], ast.Pass):
            action = ("Pass", None)
        elif (len(h.body) == 1 and isinstance(h.body[0], ast.Raise) and isinstance(h.body[0].exc, ast.Call)
              and isinstance(h.body[0].exc.func, ast.Name)):
            action = ("RaiseExc", h.body[0].exc.func.id)
        else:
            raise SiteError("load_npz: unsupported handler body")
        attempts.append({"class": call.func.id, "reads": reads, "args": args, "flags": flags,
                         "caught": caught, "action": action})
    need(attempts, "load_npz: no attempts")
    return {"allow_pickle": allow, "attempts": attempts, "testzip": testzip}


# --------------------------------------------------------------------------------- classes, pickle, copy
SPECIAL = ["__copy__", "__deepcopy__", "__reduce__", "__reduce_ex__", "__getnewargs__", "__getnewargs_ex__", "__new__"]


def self_attr_targets(t):
    if is_attr(t, "self"):
        return [t.attr]
    if isinstance(t, ast.Tuple):
        out = []
        for e in t.elts:
            out += self_attr_targets(e)
        return out
    return []


def init_attrs(fn):
    out = []
    for n in ast.walk(fn):
        if isinstance(n, ast.Assign):
            for t in n.targets:
                for a in self_attr_targets(t):
                    if a not in out:
                        out.append(a)
    return out


def extract_copy(cls):
    fn = method(cls, "copy")
    need(fn is not None, f"{cls.name}.copy not found")
    need([a.arg for a in fn.args.args] == ["self", "deep"] and len(fn.args.defaults) == 1
         and isinstance(fn.args.defaults[0], ast.Constant) and fn.args.defaults[0].value is True,
         f"{cls.name}.copy signature changed")
    b = body_nodoc(fn)
    ok = (len(b) == 1 and isinstance(b[0], ast.Return) and isinstance(b[0].value, ast.IfExp)
          and is_name(b[0].value.test, "deep"))
    need(ok, f"{cls.name}.copy body is not `return A if deep else B`")
    e = b[0].value
    for part, fname in ((e.body, "deepcopy"), (e.orelse, "copy")):
        need(isinstance(part, ast.Call) and is_attr(part.func, "_copy", fname) and len(part.args) == 1
             and is_name(part.args[0], "self") and not part.keywords, f"{cls.name}.copy: not _copy.{fname}(self)")
    return True


def has_import_copy(tree):
    for n in tree.body:
        if isinstance(n, ast.Import):
            for a in n.names:
                if a.name == "copy" and a.asname == "_copy":
                    return True
    return False


def extract_classes(coo_tree, gcxs_tree, base_tree):
    coo = find_class(coo_tree, "COO")
    gcxs = find_class(gcxs_tree, "GCXS")
    c2d = find_class(gcxs_tree, "_Compressed2d")
    csr = find_class(gcxs_tree, "CSR")
    csc = find_class(gcxs_tree, "CSC")
    sa = find_class(base_tree, "SparseArray")

    def bases(c):
        return [b.id for b in c.bases if isinstance(b, ast.Name)]
    need("SparseArray" in bases(coo) and "SparseArray" in bases(gcxs), "COO/GCXS no longer derive from SparseArray")
    need(bases(c2d) == ["GCXS"] and bases(csr) == ["_Compressed2d"] and bases(csc) == ["_Compressed2d"],
         "CSR/CSC/_Compressed2d hierarchy changed")
    need(has_import_copy(coo_tree) and has_import_copy(gcxs_tree), "`import copy as _copy` missing")
    hooks = []
    for c in (coo, gcxs, c2d, csr, csc, sa):
        for n in c.body:
            if isinstance(n, ast.FunctionDef) and n.name in SPECIAL:
                hooks.append(f"{c.name}.{n.name}")
            if isinstance(n, ast.Assign) and any(is_name(t, "__slots__") for t in n.targets):
                hooks.append(f"{c.name}.__slots__")
    # pickle state of COO
    gs, ss = method(coo, "__getstate__"), method(coo, "__setstate__")
    need(gs is not None and ss is not None, "COO.__getstate__/__setstate__ missing")
    b = body_nodoc(gs)
    need(len(b) == 1 and isinstance(b[0], ast.Return) and isinstance(b[0].value, ast.Tuple)
         and all(is_attr(e, "self") for e in b[0].value.elts), "COO.__getstate__ is not `return (self.a, ...)`")
    getstate = [e.attr for e in b[0].value.elts]
    b = body_nodoc(ss)
    need([a.arg for a in ss.args.args] == ["self", "state"], "COO.__setstate__ signature changed")
    need(len(b) >= 1 and isinstance(b[0], ast.Assign) and len(b[0].targets) == 1 and isinstance(b[0].targets[0], ast.Tuple)
         and all(is_attr(e, "self") for e in b[0].targets[0].elts) and is_name(b[0].value, "state"),
         "COO.__setstate__ does not start with `self.a, ... = state`")
    setstate = [e.attr for e in b[0].targets[0].elts]
    reset = []
    for s in b[1:]:
        need(isinstance(s, ast.Assign) and len(s.targets) == 1 and is_attr(s.targets[0], "self")
             and isinstance(s.value, ast.Constant) and s.value.value is None,
             f"COO.__setstate__: unsupported statement {ast.unparse(s)}")
        reset.append(s.targets[0].attr)
    # GCXS family: default object pickling (instance __dict__)
    for c in (gcxs, c2d, csr, csc, sa):
        for nm in ("__getstate__", "__setstate__"):
            need(method(c, nm) is None, f"{c.name}.{nm} appeared: the GCXS pickle model (instance __dict__) is stale")
    gi = method(gcxs, "__init__")
    need(gi is not None, "GCXS.__init__ missing")
    gattrs = init_attrs(gi)
    # the subclasses must not add instance attributes
    for c in (c2d, csr, csc):
        i = method(c, "__init__")
        if i is not None:
            need(init_attrs(i) == [], f"{c.name}.__init__ assigns instance attributes")
    ci = method(coo, "__init__")
    cattrs = init_attrs(ci)
    for a in init_attrs(method(sa, "__init__")):
        if a not in cattrs:
            cattrs.append(a)
    # defaults of COO.__init__
    names = [a.arg for a in ci.args.args]
    defs = dict(zip(names[len(names) - len(ci.args.defaults):], ci.args.defaults, strict=True))
    cdef = []
    for k in ("has_duplicates", "sorted", "prune"):
        need(k in defs and isinstance(defs[k], ast.Constant) and isinstance(defs[k].value, bool),
             f"COO.__init__: default of {k} is not a boolean constant")
        cdef.append((k, defs[k].value))
    need(names[1:4] == ["coords", "data", "shape"], "COO.__init__: positional parameters changed")
    extract_copy(coo)
    extract_copy(gcxs)
    for c in (c2d, csr, csc):
        need(method(c, "copy") is None, f"{c.name}.copy overrides GCXS.copy")
    return {"hooks": hooks, "getstate": getstate, "setstate": setstate, "setstate_reset": reset,
            "gcxs_init_attrs": gattrs, "coo_init_attrs": cattrs, "coo_ctor_defaults": cdef}


# --------------------------------------------------------------------------------- numba boxing
def extract_numba(tree):
    unbox = find_func(tree, "unbox_COO")
    box = find_func(tree, "box_COO")
    fields = []
    var2field = {}
    for n in ast.walk(unbox):
        if isinstance(n, ast.Assign) and isinstance(n.value, ast.Call) and is_name(n.value.func, "_unbox_native_field"):
            a = n.value.args
            need(len(a) == 4 and is_attr(a[0], "typ") and is_name(a[1], "obj"), "unbox_COO: unexpected _unbox_native_field call")
            f = sconst(a[2])
            need(a[0].attr == f + "_type", f"unbox_COO: field {f} unboxed with type {a[0].attr}")
            fields.append(f)
            var2field[n.targets[0].id] = f
    struct = []
    for n in ast.walk(unbox):
        if isinstance(n, ast.Assign) and len(n.targets) == 1 and is_attr(n.targets[0], "coo"):
            v = n.value
            need(isinstance(v, ast.Attribute) and v.attr == "value" and isinstance(v.value, ast.Name)
                 and var2field.get(v.value.id) == n.targets[0].attr,
                 f"unbox_COO: struct member {n.targets[0].attr} is not filled from the attribute of the same name")
            struct.append(n.targets[0].attr)
    need(sorted(struct) == sorted(fields) and len(fields) == 4, "unbox_COO: fields and struct members differ")
    # box: X_obj = c.box(typ.X_type, coo.X)
    boxed = {}
    pos, kw, klass = None, None, None
    for n in ast.walk(box):
        if isinstance(n, ast.Assign) and isinstance(n.value, ast.Call) and len(n.targets) == 1 and isinstance(n.targets[0], ast.Name):
            c = n.value
            if is_attr(c.func, "c", "box"):
                need(len(c.args) == 2 and is_attr(c.args[0], "typ") and is_attr(c.args[1], "coo")
                     and c.args[0].attr == c.args[1].attr + "_type", "box_COO: unexpected c.box call")
                boxed[n.targets[0].id] = c.args[1].attr
            elif isinstance(c.func, ast.Attribute) and c.func.attr == "tuple_pack":
                pos = [e.id for e in c.args[0].elts]
            elif isinstance(c.func, ast.Attribute) and c.func.attr == "dict_pack":
                kw = [(sconst(e.elts[0]), e.elts[1].id) for e in c.args[0].elts]
            elif isinstance(c.func, ast.Attribute) and c.func.attr == "unserialize":
                inner = c.args[0]
                need(isinstance(inner, ast.Call) and inner.func.attr == "serialize_object" and isinstance(inner.args[0], ast.Name),
                     "box_COO: class object is not serialize_object(<Name>)")
                klass = inner.args[0].id
    need(pos is not None and kw is not None and klass in KLASSES, "box_COO: constructor call not recognised")
    need(all(p in boxed for p in pos) and all(v in boxed for _k, v in kw), "box_COO: constructor argument is not a boxed field")
    # the final call is c.pyapi.call(class_obj, args, kwargs)
    calls = [n for n in ast.walk(box) if isinstance(n, ast.Call) and isinstance(n.func, ast.Attribute) and n.func.attr == "call"
             and is_attr(n.func.value, "c", "pyapi")]
    need(len(calls) == 1 and [getattr(a, "id", None) for a in calls[0].args] == ["class_obj", "args", "kwargs"],
         "box_COO: not a single c.pyapi.call(class_obj, args, kwargs)")
    # COOType: which dtype types shape / fill_value
    ct = find_class(tree, "COOType")
    src = {}
    for prop, key in (("shape_type", "shape"), ("fill_value_type", "fill_value"), ("data_type", "data"), ("coords_type", "coords")):
        m = method(ct, prop)
        need(m is not None, f"COOType.{prop} missing")
        used = sorted({n.attr for n in ast.walk(m) if is_attr(n, "self") and n.attr.endswith("_dtype")})
        if prop == "shape_type" and not used:
            # UniTuple(types.intp, self.ndim): the extents are native intp values
            need(any(is_attr(n, "types", "intp") for n in ast.walk(m)), "COOType.shape_type: element type not recognised")
            used = ["intp"]
        need(len(used) == 1, f"COOType.{prop}: uses {used}")
        src[key] = used[0]
    if True:
        m = method(ct, "shape_type")
        unis = [n for n in ast.walk(m) if isinstance(n, ast.Call) and isinstance(n.func, ast.Attribute) and n.func.attr == "UniTuple"]
        need(len(unis) == 1 and is_attr(unis[0].args[1], "self", "ndim"), "COOType.shape_type is not UniTuple(<dt>, self.ndim)")
    # impl_COO: how the shape argument is stored into the native record
    ic = find_func(tree, "impl_COO")
    stores = [n for n in ast.walk(ic) if isinstance(n, ast.Assign) and len(n.targets) == 1 and is_attr(n.targets[0], "coo", "shape")]
    need(len(stores) == 1, "impl_COO: not a single store to coo.shape")
    v = stores[0].value
    if is_name(v, "shape"):
        shape_cast = False
    elif (isinstance(v, ast.Call) and is_attr(v.func, "context", "cast") and len(v.args) == 4 and is_name(v.args[0], "builder")
          and is_name(v.args[1], "shape") and is_attr(v.args[3], "typ", "shape_type")):
        shape_cast = True
    else:
        raise SiteError(f"impl_COO: unsupported store to coo.shape: {ast.unparse(v)}")
    return {"unbox_fields": fields, "box_class": klass, "box_args": [boxed[p] for p in pos],
            "box_kwargs": [(k, boxed[v]) for k, v in kw], "dtype_source": src, "construct_shape_cast": shape_cast}


# --------------------------------------------------------------------------------- Coq text
def cstr(s):
    return '"' + s + '"'


def clist(xs, f=str):
    return "[" + "; ".join(f(x) for x in xs) + "]"


def cpairs(ps):
    return clist(ps, lambda p: f"({cstr(p[0])}, {cstr(p[1])})")


def cbool(b):
    return "true" if b else "false"


def to_coq(facts, digest):
    sv, ld, cl, nb = facts["save"], facts["load"], facts["classes"], facts["numba"]
    o = []
    o.append("(* Gen/S_npz.v — GENERATED by tools/sitegen/npz.py from /repo (sparse/numba_backend/_io.py, _coo/core.py,")
    o.append("   _compressed/compressed.py, _sparse_array.py, _coo/numba_extension.py).  Do not edit.")
    o.append(f"   digest of the extracted facts: {digest} *)")
    o.append("From Coq Require Import String List Bool.")
    o.append("Import ListNotations.")
    o.append("Local Open Scope string_scope.")
    o.append("")
    o.append("(* the classes the writer can be handed; CSR and CSC derive from GCXS through _Compressed2d *)")
    o.append("Inductive klass := KCOO | KGCXS | KCSR | KCSC.")
    o.append("Definition klass_eqb (a b : klass) : bool :=")
    o.append("  match a, b with KCOO, KCOO | KGCXS, KGCXS | KCSR, KCSR | KCSC, KCSC => true | _, _ => false end.")
    o.append("(* isinstance(x of class k, base) *)")
    o.append("Definition klass_isinstance (k base : klass) : bool :=")
    o.append("  match k, base with")
    o.append("  | KCOO, KCOO | KGCXS, KGCXS | KCSR, KCSR | KCSC, KCSC => true")
    o.append("  | KCSR, KGCXS | KCSC, KGCXS => true")
    o.append("  | _, _ => false end.")
    o.append("")
    o.append("Inductive cls_test := TypeIs (k : klass) | IsInstance (k : klass).")
    o.append("")
    o.append("(* save_npz: member name -> attribute of `matrix`, written for every class *)")
    o.append(f"Definition save_base : list (string * string) := {cpairs(sv['base'])}.")
    o.append("(* how a member is written: WPlain `nodes[m] = matrix.a`; WIfNotNone `if matrix.a is not None: nodes[m] = matrix.a`;")
    o.append("   WNoneAsEmpty `nodes[m] = () if matrix.a is None else matrix.a` *)")
    o.append("Inductive write_mode := WPlain | WIfNotNone | WNoneAsEmpty.")
    o.append("(* save_npz: the if/elif chain; the first test that holds adds its members *)")
    o.append("Definition save_branches : list (cls_test * list (string * string * write_mode)) :=")
    o.append("  " + clist(sv["branches"], lambda b: f"({b[0][0]} K{b[0][1]}, "
             + clist(b[1], lambda t: f"({cstr(t[0])}, {cstr(t[1])}, {t[2]})") + ")") + ".")
    o.append("(* allow_pickle of np.savez / np.savez_compressed (numpy's default when not passed) *)")
    o.append(f"Definition save_allow_pickle : bool := {cbool(sv['allow_pickle'])}.")
    o.append("")
    o.append("(* load_npz *)")
    o.append(f"Definition load_allow_pickle : bool := {cbool(ld['allow_pickle'])}.")
    o.append("(* `if fp.zip.testzip() is not None: raise E(...)` before any member is read: Some E, else None *)")
    o.append("Definition load_testzip : option string := "
             + ("None" if ld["testzip"] is None else f"Some {cstr(ld['testzip'])}") + ".")
    o.append("(* how a member is read: RPlain `v = fp[m]`; ROptionalNone `v = fp[m] if m in fp else None`;")
    o.append("   REmptyAsNone `v = fp[m]` followed by `if v.size == 0: v = None` *)")
    o.append("Inductive read_mode := RPlain | ROptionalNone | REmptyAsNone.")
    o.append("Inductive on_caught := Pass | RaiseExc (e : string).")
    o.append("Record attempt := mkAttempt {")
    o.append("  at_class : klass;                       (* constructor called *)")
    o.append("  at_reads : list (string * read_mode);   (* members read, in order *)")
    o.append("  at_args : list (string * string);       (* constructor parameter -> member *)")
    o.append("  at_flags : list (string * bool);        (* constant boolean keyword arguments *)")
    o.append("  at_caught : string;                     (* exception class of the handler *)")
    o.append("  at_action : on_caught }.")
    o.append("Definition load_attempts : list attempt :=")
    items = []
    for a in ld["attempts"]:
        act = "Pass" if a["action"][0] == "Pass" else f"RaiseExc {cstr(a['action'][1])}"
        items.append(f"mkAttempt K{a['class']} {clist(a['reads'], lambda r: f"({cstr(r[0])}, {r[1]})")}\n      {cpairs(a['args'])}\n      "
                     + clist(a["flags"], lambda p: f"({cstr(p[0])}, {cbool(p[1])})") + f" {cstr(a['caught'])} ({act})")
    o.append("  [ " + ";\n    ".join(items) + " ].")
    o.append("")
    o.append("(* pickling and copying *)")
    o.append(f"Definition coo_getstate : list string := {clist(cl['getstate'], cstr)}.")
    o.append(f"Definition coo_setstate : list string := {clist(cl['setstate'], cstr)}.")
    o.append(f"Definition coo_setstate_reset : list string := {clist(cl['setstate_reset'], cstr)}.")
    o.append("(* GCXS, _Compressed2d, CSR, CSC, SparseArray define no __getstate__/__setstate__: the state is the instance")
    o.append("   __dict__, i.e. the attributes assigned by GCXS.__init__ *)")
    o.append(f"Definition gcxs_init_attrs : list string := {clist(cl['gcxs_init_attrs'], cstr)}.")
    o.append(f"Definition coo_init_attrs : list string := {clist(cl['coo_init_attrs'], cstr)}.")
    o.append("(* __copy__/__deepcopy__/__reduce__/__reduce_ex__/__getnewargs__/__new__/__slots__ defined by any of the classes *)")
    o.append(f"Definition custom_copy_hooks : list string := {clist(cl['hooks'], cstr)}.")
    o.append("(* COO.copy and GCXS.copy are `_copy.deepcopy(self) if deep else _copy.copy(self)` (checked by the extractor) *)")
    o.append("Definition copy_is_stdlib_copy : bool := true.")
    o.append("Definition coo_ctor_defaults : list (string * bool) := "
             + clist(cl["coo_ctor_defaults"], lambda p: f"({cstr(p[0])}, {cbool(p[1])})") + ".")
    o.append("")
    o.append("(* Numba boxing of COO *)")
    o.append(f"Definition nb_unbox_fields : list string := {clist(nb['unbox_fields'], cstr)}.")
    o.append(f"Definition nb_box_class : klass := K{nb['box_class']}.")
    o.append(f"Definition nb_box_args : list string := {clist(nb['box_args'], cstr)}.        (* positional: coords, data, shape *)")
    o.append(f"Definition nb_box_kwargs : list (string * string) := {cpairs(nb['box_kwargs'])}.")
    o.append("(* which dtype of the COOType types each native field (shape is a UniTuple of it) *)")
    o.append(f"Definition nb_dtype_source : list (string * string) := {cpairs(sorted(nb['dtype_source'].items()))}.")
    o.append("(* impl_COO stores the shape argument through context.cast(builder, shape, <its type>, typ.shape_type) (true) or raw (false) *)")
    o.append(f"Definition nb_construct_shape_cast : bool := {cbool(nb['construct_shape_cast'])}.")
    o.append("")
    return "\n".join(o)


def generate(repo):
    io_tree, _ = parse(repo, "_io.py")
    coo_tree, _ = parse(repo, "_coo/core.py")
    gcxs_tree, _ = parse(repo, "_compressed/compressed.py")
    base_tree, _ = parse(repo, "_sparse_array.py")
    nb_tree, _ = parse(repo, "_coo/numba_extension.py")
    # the names COO / GCXS of _io.py must be the library classes
    imps = {(n.module, a.name) for n in io_tree.body if isinstance(n, ast.ImportFrom) for a in n.names}
    need(("_compressed", "GCXS") in imps and ("_coo.core", "COO") in imps, "_io.py no longer imports COO/GCXS from the backend")
    facts = {"save": extract_save(io_tree), "load": extract_load(io_tree),
             "classes": extract_classes(coo_tree, gcxs_tree, base_tree), "numba": extract_numba(nb_tree)}
    digest = hashlib.sha256(repr(facts).encode()).hexdigest()[:16]
    text = to_coq(facts, digest)
    report = {"S_npz": {"status": "ok", "digest": digest, "facts": facts}}
    return {"S_npz.v": text}, report


if __name__ == "__main__":
    import sys
    files, rep = generate(sys.argv[1] if len(sys.argv) > 1 else "/repo")
    print(files["S_npz.v"])
