"""Site extractor for C13 (thread interleavings): reads, from the AST of /repo's working tree,
the *shape* of every piece of shared mutable state that read-only operations touch, and emits it
as Coq definitions (coq/Gen/S_threads.v) that Model/Threads.v takes as its configuration:

* COO.transpose / COO.reshape: does the cache lookup loop iterate the deque object itself
  (`for k, v in self._cache["name"]:` -> a dequeiter, which raises RuntimeError when the deque is
  appended to between two `next` calls) or a snapshot taken by ONE C-level call
  (`tuple(...)`, `list(...)`, `.copy()`)?  Is the insertion a plain `.append((key, result))`?
* COO.enable_caching: `defaultdict(lambda: deque(maxlen=N))` -> N.
* COO.tocsr / COO.tocsc: the three-stage attribute memo (own attribute, partner attribute converted,
  compute-and-store), and whether the last stage of tocsc goes through self.tocsr().
* _common._memoize_dtype.wrapped: check-then-set dict memo.

Fail-closed: any other shape raises (recorded by the check as a broken obligation).

`locate(repo)` returns the scheduling points of the protocols (file, code name, line) found
structurally in the same AST walk; tools/props/c13.py hands them to tools/sched.py.
"""
import ast
import hashlib
import os

CORE = "sparse/numba_backend/_coo/core.py"
COMMON = "sparse/numba_backend/_common.py"


class ShapeError(Exception):
    pass


def _parse(repo, rel):
    p = os.path.join(repo, rel)
    src = open(p).read()
    return ast.parse(src), src, p


def _find_class_func(tree, cls, fn):
    for n in tree.body:
        if isinstance(n, ast.ClassDef) and n.name == cls:
            for m in n.body:
                if isinstance(m, ast.FunctionDef) and m.name == fn:
                    return m
    raise ShapeError(f"{cls}.{fn} not found")


def _is_self_attr(e, name):
    return (isinstance(e, ast.Attribute) and e.attr == name and isinstance(e.value, ast.Name)
            and e.value.id == "self")


def _cache_subscript(e):
    """self._cache["name"] -> "name" | None"""
    if (isinstance(e, ast.Subscript) and _is_self_attr(e.value, "_cache")
            and isinstance(e.slice, ast.Constant) and isinstance(e.slice.value, str)):
        return e.slice.value
    return None


def _is_cache_guard(test):
    """self._cache is not None"""
    return (isinstance(test, ast.Compare) and _is_self_attr(test.left, "_cache") and len(test.ops) == 1
            and isinstance(test.ops[0], ast.IsNot) and isinstance(test.comparators[0], ast.Constant)
            and test.comparators[0].value is None)


def _cache_site(fn, name):
    """the lookup loop and the insertion of one cached method"""
    loops = []
    appends = []
    others = []
    for node in ast.walk(fn):
        if isinstance(node, ast.For):
            it = node.iter
            mode = None
            if _cache_subscript(it) == name:
                mode = "direct"
            elif (isinstance(it, ast.Call) and isinstance(it.func, ast.Name) and it.func.id in ("tuple", "list")
                  and len(it.args) == 1 and not it.keywords and _cache_subscript(it.args[0]) == name):
                mode = "snapshot"
            elif (isinstance(it, ast.Call) and isinstance(it.func, ast.Attribute) and it.func.attr == "copy"
                  and not it.args and not it.keywords and _cache_subscript(it.func.value) == name):
                mode = "snapshot"
            if mode:
                loops.append((node, mode))
        if isinstance(node, ast.Expr) and isinstance(node.value, ast.Call):
            c = node.value
            if isinstance(c.func, ast.Attribute) and _cache_subscript(c.func.value) == name:
                if c.func.attr == "append" and len(c.args) == 1 and isinstance(c.args[0], ast.Tuple) \
                        and len(c.args[0].elts) == 2:
                    appends.append(node)
                else:
                    others.append(ast.unparse(node))
    # every other mention of self._cache must be the guard `self._cache is not None`
    n_mentions = sum(1 for n in ast.walk(fn) if _is_self_attr(n, "_cache"))
    n_guards = sum(1 for n in ast.walk(fn) if isinstance(n, ast.Compare) and _is_cache_guard(n))
    if len(loops) != 1 or len(appends) != 1 or others or n_mentions != n_guards + 2:
        raise ShapeError(f"COO.{fn.name}: cache protocol has an unexpected shape "
                         f"(loops={len(loops)}, appends={len(appends)}, other uses={others}, "
                         f"mentions={n_mentions}, guards={n_guards})")
    loop, mode = loops[0]
    # loop body: `if k == key: return v`
    tgt = loop.target
    body_ok = (isinstance(tgt, ast.Tuple) and len(tgt.elts) == 2 and len(loop.body) == 1
               and isinstance(loop.body[0], ast.If) and not loop.body[0].orelse and not loop.orelse
               and isinstance(loop.body[0].test, ast.Compare) and len(loop.body[0].test.ops) == 1
               and isinstance(loop.body[0].test.ops[0], ast.Eq)
               and isinstance(loop.body[0].test.left, ast.Name)
               and loop.body[0].test.left.id == tgt.elts[0].id
               and len(loop.body[0].body) == 1 and isinstance(loop.body[0].body[0], ast.Return)
               and isinstance(loop.body[0].body[0].value, ast.Name)
               and loop.body[0].body[0].value.id == tgt.elts[1].id)
    if not body_ok:
        raise ShapeError(f"COO.{fn.name}: lookup loop body is not `if k == key: return v`")
    keyname = loop.body[0].test.comparators[0]
    app = appends[0]
    if not (isinstance(keyname, ast.Name) and isinstance(app.value.args[0].elts[0], ast.Name)
            and app.value.args[0].elts[0].id == keyname.id):
        raise ShapeError(f"COO.{fn.name}: appended key is not the looked-up key")
    if not (loop.lineno < app.lineno):
        raise ShapeError(f"COO.{fn.name}: append precedes lookup")
    return {"mode": mode, "for": loop.lineno, "body": loop.body[0].lineno, "append": app.lineno,
            "text": ast.unparse(loop.iter)}


def _enable_caching(fn):
    for node in ast.walk(fn):
        if isinstance(node, ast.Assign) and len(node.targets) == 1 and _is_self_attr(node.targets[0], "_cache"):
            v = node.value
            if (isinstance(v, ast.Call) and isinstance(v.func, ast.Name) and v.func.id == "defaultdict"
                    and len(v.args) == 1 and isinstance(v.args[0], ast.Lambda)):
                lam = v.args[0]
                b = lam.body
                if (isinstance(b, ast.Call) and isinstance(b.func, ast.Name) and b.func.id == "deque"
                        and not b.args and len(b.keywords) == 1 and b.keywords[0].arg == "maxlen"
                        and isinstance(b.keywords[0].value, ast.Constant)
                        and isinstance(b.keywords[0].value.value, int) and b.keywords[0].value.value >= 1):
                    return {"maxlen": b.keywords[0].value.value, "lambda": lam.lineno}
    raise ShapeError("COO.enable_caching: not `self._cache = defaultdict(lambda: deque(maxlen=N))`")


def _try_attr(node, handler="AttributeError"):
    return (isinstance(node, ast.Try) and len(node.handlers) == 1 and not node.orelse and not node.finalbody
            and isinstance(node.handlers[0].type, ast.Name) and node.handlers[0].type.id == handler
            and len(node.handlers[0].body) == 1 and isinstance(node.handlers[0].body[0], ast.Pass))


def _attr_memo(fn, own, partner, conv_own, conv_partner):
    """tocsr/tocsc:  if self._cache is not None: try: return self.<own> ... """
    guard = [n for n in fn.body if isinstance(n, ast.If) and _is_cache_guard(n.test)]
    if len(guard) != 1:
        raise ShapeError(f"COO.{fn.name}: no single `if self._cache is not None:` block")
    g = guard[0]
    b = g.body
    ok = len(b) == 3 and _try_attr(b[0]) and _try_attr(b[1]) and isinstance(b[2], ast.Assign)
    if ok:
        t0 = b[0].body
        ok = len(t0) == 1 and isinstance(t0[0], ast.Return) and _is_self_attr(t0[0].value, own)
    if ok:
        t1 = b[1].body
        ok = (len(t1) == 2 and isinstance(t1[0], ast.Assign) and len(t1[0].targets) == 1
              and _is_self_attr(t1[0].targets[0], own)
              and isinstance(t1[0].value, ast.Call) and not t1[0].value.args
              and isinstance(t1[0].value.func, ast.Attribute) and t1[0].value.func.attr == conv_own
              and _is_self_attr(t1[0].value.func.value, partner)
              and isinstance(t1[1], ast.Return) and _is_self_attr(t1[1].value, own))
    via = None
    if ok:
        fin = b[2]
        ok = (len(fin.targets) == 2 and _is_self_attr(fin.targets[0], own) and isinstance(fin.targets[1], ast.Name))
        if ok:
            v = ast.unparse(fin.value)
            if v == f"self._{conv_own}()":
                via = False
            elif v == f"self.{conv_partner}().{conv_own}()":
                via = True
            else:
                ok = False
            # the function returns the local it just bound
            rets = [n for n in fn.body if isinstance(n, ast.Return)]
            ok = ok and len(rets) == 1 and isinstance(rets[0].value, ast.Name) \
                and rets[0].value.id == fin.targets[1].id
    if not ok:
        raise ShapeError(f"COO.{fn.name}: attribute memo has an unexpected shape")
    # nobody else writes the attributes
    return {"via_partner": via, "get": b[0].body[0].lineno, "partner": b[1].body[0].lineno,
            "reget": b[1].body[1].lineno, "final": b[2].lineno}


def _memo(tree):
    for n in tree.body:
        if isinstance(n, ast.FunctionDef) and n.name == "_memoize_dtype":
            body = [s for s in n.body if not (isinstance(s, ast.Expr) and isinstance(s.value, ast.Constant))]
            ok = (len(body) == 3 and isinstance(body[0], ast.Assign) and isinstance(body[0].value, ast.Dict)
                  and not body[0].value.keys and isinstance(body[1], ast.FunctionDef)
                  and isinstance(body[2], ast.Return))
            if not ok:
                break
            dname = body[0].targets[0].id
            w = body[1]
            wb = w.body
            ok = (len(wb) == 5 and isinstance(wb[0], ast.Assign) and wb[0].targets[0].id == "key"
                  and isinstance(wb[1], ast.If) and not wb[1].orelse
                  and ast.unparse(wb[1].test) == f"key in {dname}"
                  and len(wb[1].body) == 1 and ast.unparse(wb[1].body[0]) == f"return {dname}[key]"
                  and ast.unparse(wb[2]) == "result = f(*args)"
                  and ast.unparse(wb[3]) == f"{dname}[key] = result"
                  and ast.unparse(wb[4]) == "return result")
            for x in ast.walk(w):
                if isinstance(x, ast.Delete) or (isinstance(x, ast.Attribute) and x.attr in
                                                 ("clear", "pop", "popitem") and ast.unparse(x.value) == dname):
                    ok = False
            if not ok:
                break
            return {"has": wb[1].lineno, "get": wb[1].body[0].lineno, "compute": wb[2].lineno,
                    "set": wb[3].lineno, "code": w.name}
    raise ShapeError("_common._memoize_dtype: not the check-then-set dict memo "
                     "`if key in cache: return cache[key]; result = f(*args); cache[key] = result; return result`")


def _todense_fresh(fn):
    """COO.todense hands the caller a PRIVATE buffer: the one returned name is bound exactly once, by a fresh
    allocation `np.full(self.shape, self.fill_value, self.dtype)`, and there is no other `return`."""
    rets = [n for n in ast.walk(fn) if isinstance(n, ast.Return)]
    if len(rets) != 1 or not isinstance(rets[0].value, ast.Name):
        return False, f"{len(rets)} return statement(s): " + "; ".join(ast.unparse(r) for r in rets)
    name = rets[0].value.id
    binds = []
    for n in ast.walk(fn):
        if isinstance(n, (ast.Assign, ast.AnnAssign, ast.AugAssign)):
            tg = n.targets if isinstance(n, ast.Assign) else [n.target]
            for t in tg:
                for x in ast.walk(t):
                    if isinstance(x, ast.Name) and x.id == name and not isinstance(getattr(t, "value", None), ast.Name):
                        if isinstance(t, ast.Name):
                            binds.append(n)
    if len(binds) != 1 or not isinstance(binds[0], ast.Assign):
        return False, f"{name} bound {len(binds)} times"
    v = ast.unparse(binds[0].value)
    if v != "np.full(self.shape, self.fill_value, self.dtype)":
        return False, f"{name} = {v}"
    return True, f"{name} = {v}; return {name}"


def _grouped_reduce_fresh(tree):
    """_grouped_reduce returns (result, ...) where result is bound once, by `method.reduceat(x, inv_idx, **kwargs)`
    (a fresh array), and there is no other return: the in-place fill correction of SparseArray.reduce
    (`data[missing_counts] = ...`) therefore writes into a private buffer, never into the operand's data."""
    for n in tree.body:
        if isinstance(n, ast.FunctionDef) and n.name == "_grouped_reduce":
            rets = [r for r in ast.walk(n) if isinstance(r, ast.Return)]
            if len(rets) != 1 or not isinstance(rets[0].value, ast.Tuple) or not rets[0].value.elts \
                    or not isinstance(rets[0].value.elts[0], ast.Name):
                return False, f"{len(rets)} return statement(s): " + "; ".join(ast.unparse(r) for r in rets)
            name = rets[0].value.elts[0].id
            binds = [a for a in ast.walk(n) if isinstance(a, ast.Assign)
                     and any(isinstance(x, ast.Name) and x.id == name for t in a.targets for x in ast.walk(t))]
            if len(binds) != 1:
                return False, f"{name} bound {len(binds)} times"
            v = ast.unparse(binds[0].value)
            if v != "method.reduceat(x, inv_idx, **kwargs)":
                return False, f"{name} = {v}"
            return True, f"{name} = {v}; {ast.unparse(rets[0])}"
    return False, "_grouped_reduce not found"


def _goes_through_todense(tree, cls, fn):
    """every return of cls.fn returns an expression that calls .todense() (maybe_densify, __array__) or raises"""
    for n in tree.body:
        if isinstance(n, ast.ClassDef) and n.name == cls:
            for m in n.body:
                if isinstance(m, ast.FunctionDef) and m.name == fn:
                    rets = [r for r in ast.walk(m) if isinstance(r, ast.Return)]
                    return bool(rets) and all(r.value is not None and "todense()" in ast.unparse(r.value) for r in rets)
    return None


def _attr_writers(tree, names):
    """functions of class COO that assign self.<name> for name in names"""
    out = {}
    for n in tree.body:
        if isinstance(n, ast.ClassDef) and n.name == "COO":
            for m in n.body:
                if isinstance(m, ast.FunctionDef):
                    for x in ast.walk(m):
                        if isinstance(x, (ast.Assign, ast.AugAssign, ast.Delete)):
                            tg = x.targets if not isinstance(x, ast.AugAssign) else [x.target]
                            for t in tg:
                                if isinstance(t, ast.Attribute) and t.attr in names:
                                    out.setdefault(t.attr, set()).add(m.name)
    return {k: sorted(v) for k, v in out.items()}


def extract(repo):
    tree, src, path = _parse(repo, CORE)
    ctree, csrc, cpath = _parse(repo, COMMON)
    tr = _cache_site(_find_class_func(tree, "COO", "transpose"), "transpose")
    rs = _cache_site(_find_class_func(tree, "COO", "reshape"), "reshape")
    ec = _enable_caching(_find_class_func(tree, "COO", "enable_caching"))
    csr = _attr_memo(_find_class_func(tree, "COO", "tocsr"), "_csr", "_csc", "tocsr", "tocsc")
    csc = _attr_memo(_find_class_func(tree, "COO", "tocsc"), "_csc", "_csr", "tocsc", "tocsr")
    memo = _memo(ctree)
    td_ok, td_text = _todense_fresh(_find_class_func(tree, "COO", "todense"))
    gr_ok, gr_text = _grouped_reduce_fresh(tree)
    stree, _ssrc, _sp = _parse(repo, "sparse/numba_backend/_sparse_array.py")
    via = {"__array__": _goes_through_todense(stree, "SparseArray", "__array__"),
           "maybe_densify": _goes_through_todense(tree, "COO", "maybe_densify")}
    writers = _attr_writers(tree, {"_csr", "_csc", "_cache"})
    if writers.get("_csr", []) != ["tocsr"] or writers.get("_csc", []) != ["tocsc"]:
        raise ShapeError(f"unexpected writers of _csr/_csc: {writers}")
    if csr["via_partner"] is not False:
        raise ShapeError("COO.tocsr: last stage is not self._tocsr()")
    return {"transpose": tr, "reshape": rs, "enable_caching": ec, "tocsr": csr, "tocsc": csc, "memo": memo,
            "todense_fresh": td_ok, "todense_text": td_text, "grouped_reduce_fresh": gr_ok, "grouped_reduce_text": gr_text, "dense_via_todense": via,
            "cache_writers": writers.get("_cache", []), "core_path": path, "common_path": cpath,
            "hash": hashlib.sha256((src + csrc).encode()).hexdigest()[:16]}


def _stmt_lines(nodes):
    """line of every statement (recursively) in a list of statements"""
    out = set()
    for n in nodes:
        for x in ast.walk(n):
            if isinstance(x, ast.stmt):
                out.add(x.lineno)
            if isinstance(x, ast.ExceptHandler):
                out.add(x.lineno)
    return out


def _lenient_points(fn):
    """every statement inside the `if self._cache is not None:` blocks of a method"""
    lines = set()
    for n in ast.walk(fn):
        if isinstance(n, ast.If) and _is_cache_guard(n.test):
            lines |= _stmt_lines(n.body)
    return lines


def locate(repo):
    """Scheduling points of the protocols, found structurally in the CURRENT source:
    {label: (absolute file, code name, line)}.  Where a protocol has the shape the model transcribes, the
    points are exactly the lines at which the model's coarse steps start (so that a real schedule is a
    model schedule).  Where it has any other shape (a changed source), EVERY statement inside the protocol
    body (the `if self._cache is not None:` blocks, the factory lambda, the whole memo wrapper) is a
    scheduling point, so that new statements are explored too."""
    tree, src, path = _parse(repo, CORE)
    ctree, csrc, cpath = _parse(repo, COMMON)
    core, com = os.path.realpath(path), os.path.realpath(cpath)
    pts = {}
    for fn in ("transpose", "reshape"):
        f = _find_class_func(tree, "COO", fn)
        try:
            e = _cache_site(f, fn)
            for k in ("for", "body", "append"):
                pts[f"{fn}.{k}"] = (core, fn, e[k])
        except ShapeError:
            for ln in sorted(_lenient_points(f)):
                pts[f"{fn}.L{ln}"] = (core, fn, ln)
    f = _find_class_func(tree, "COO", "enable_caching")
    try:
        pts["cache.lambda"] = (core, "<lambda>", _enable_caching(f)["lambda"])
    except ShapeError:
        for n in ast.walk(f):
            if isinstance(n, ast.Lambda):
                pts[f"cache.lambda{n.lineno}"] = (core, "<lambda>", n.lineno)
    for fn, args in (("tocsr", ("_csr", "_csc", "tocsr", "tocsc")), ("tocsc", ("_csc", "_csr", "tocsc", "tocsr"))):
        f = _find_class_func(tree, "COO", fn)
        try:
            e = _attr_memo(f, *args)
            for k in ("get", "partner", "reget", "final"):
                pts[f"{fn}.{k}"] = (core, fn, e[k])
        except ShapeError:
            for ln in sorted(_lenient_points(f)):
                pts[f"{fn}.L{ln}"] = (core, fn, ln)
    try:
        e = _memo(ctree)
        for k in ("has", "get", "compute", "set"):
            pts[f"memo.{k}"] = (com, e["code"], e[k])
    except ShapeError:
        found = False
        for n in ctree.body:
            if isinstance(n, ast.FunctionDef) and n.name == "_memoize_dtype":
                for w in n.body:
                    if isinstance(w, ast.FunctionDef):
                        found = True
                        for ln in sorted(_stmt_lines(w.body)):
                            pts[f"memo.L{ln}"] = (com, w.name, ln)
        if not found:
            raise
    return pts


def shape_ok(repo):
    """True iff every protocol has the shape the model transcribes (then real schedules are model schedules)"""
    try:
        extract(repo)
        return True
    except ShapeError:
        return False


def _b(x):
    return "true" if x else "false"


def generate(repo):
    e = extract(repo)
    text = f"""(* Gen/S_threads.v — GENERATED by tools/sitegen/threads.py from the AST of
   {CORE} and {COMMON}; do not edit.
   Shapes of the shared mutable state touched by read-only operations (C13). *)
From Coq Require Import ZArith Bool.
Open Scope Z_scope.

(* COO.transpose: `for ax, value in {e['transpose']['text']}:` *)
Definition transpose_lookup_snapshot : bool := {_b(e['transpose']['mode'] == 'snapshot')}.
(* COO.reshape: `for sh, value in {e['reshape']['text']}:` *)
Definition reshape_lookup_snapshot : bool := {_b(e['reshape']['mode'] == 'snapshot')}.
(* COO.enable_caching: defaultdict(lambda: deque(maxlen=N)) *)
Definition cache_maxlen : nat := {e['enable_caching']['maxlen']}%nat.
(* COO.tocsc: last stage of the attribute memo is self.tocsr().tocsc() *)
Definition tocsc_final_via_tocsr : bool := {_b(e['tocsc']['via_partner'])}.
(* COO.tocsr / COO.tocsc have the three-stage try/except AttributeError memo shape;
   only tocsr writes _csr and only tocsc writes _csc *)
Definition attr_memo_three_stage : bool := true.
(* _memoize_dtype.wrapped: `if key in cache: return cache[key]; result = f( *args); cache[key] = result` *)
Definition memo_check_then_set : bool := true.
(* COO.todense: `{e['todense_text'].replace('(*', '( *')}` — the array handed to the caller is a fresh allocation
   and there is no other return (so an in-place write by the caller cannot reach the operand's storage) *)
Definition todense_result_fresh : bool := {_b(e['todense_fresh'])}.
(* _grouped_reduce: `{e['grouped_reduce_text'].replace('(*', '( *').replace('**', '* *')}` — the buffer that
   SparseArray.reduce corrects in place (`data[missing_counts] = ...`) is a fresh array, never the operand's data *)
Definition grouped_reduce_result_fresh : bool := {_b(e['grouped_reduce_fresh'])}.
(* SparseArray.maybe_densify / __array__ return what self.todense() returns *)
Definition densify_paths_via_todense : bool := {_b(all(v is True for v in e['dense_via_todense'].values()))}.
(* ... and nothing in the wrapper removes an entry (no clear / del / pop / popitem on the dict) *)
Definition memo_no_deletion : bool := true.
"""
    rep = {"S_threads.v": {"status": "ok", "hash": e["hash"],
                           "transpose_lookup": e["transpose"]["mode"], "reshape_lookup": e["reshape"]["mode"],
                           "maxlen": e["enable_caching"]["maxlen"],
                           "tocsc_final_via_tocsr": e["tocsc"]["via_partner"],
                           "todense_fresh": e["todense_fresh"], "todense": e["todense_text"],
                           "grouped_reduce_fresh": e["grouped_reduce_fresh"], "grouped_reduce": e["grouped_reduce_text"],
                           "dense_via_todense": e["dense_via_todense"],
                           "cache_writers": e["cache_writers"]}}
    return {"S_threads.v": text}, rep


if __name__ == "__main__":
    import sys
    files, rep = generate(sys.argv[1] if len(sys.argv) > 1 else "/repo")
    print(files["S_threads.v"])
    print(rep)
    print(locate(sys.argv[1] if len(sys.argv) > 1 else "/repo"))
