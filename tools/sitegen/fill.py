"""sitegen/fill.py — fill-value call-site facts (property C07), extracted from the AST of /repo on every
run and emitted as coq/Gen/S_fill.v.  Fail-closed: when the source no longer has the expected shape
(a module or class disappears, the fill guards are renamed, a sliced fragment no longer matches) the
report carries {"status": "failed"} entries and the generated file lacks the corresponding definition.

Part 1 — the TABLE `sites : list site`.  One row per operation:
  * every function that `sparse/numba_backend/__init__.py` imports from the backend's own modules
    (resolved through package __init__ re-exports and module-level aliases such as `concat = concatenate`),
  * every public method / property of COO, GCXS, DOK, SparseArray (names without leading underscore, plus
    a fixed list of dunder methods; class-level aliases such as `__getitem__ = getitem` are resolved),
  * every *private* function or method of the scanned modules that itself calls a fill guard or a
    sparse-array constructor (so that no constructor call of the backend escapes the table).
Per row:
  s_paths   one entry per `return` / `raise` / fall-off-the-end of the function body, with the fill guards
            that are certainly executed before it.  Structured walk: sequence, if/else (conditions
            recorded), try (handlers restart from the guards before the try), loops (guards inside a loop
            do not count after it), with.  A guard is `check_zero_fill_value(args)`,
            `check_consistent_fill_value(arrays)` or `check_fill_value(x, accept_fv=...)`, called directly, or
            — one level of inlining, by name — a guard that *dominates* a helper called in a statement on
            the path (helper = module function, imported function incl. function-local `from . import a as
            b`, or a method of COO/GCXS/DOK/SparseArray looked up by name; for a method name defined in
            several classes only guards dominating in all of them count).  Guard arguments are rewritten
            into the caller's terms through the helper's parameter list (`self` = receiver).
  s_ctors   every sparse-array constructor call in the function (COO, GCXS, DOK, CSR, CSC, cls, type(x)(..),
            x.__class__(..), and the from_numpy/from_coo/from_iter/from_scipy_sparse class methods of those):
            whether `fill_value=` is passed and its classification
              FAbsent            not passed (the constructor then uses zero)
              FOperand           `<expr>.fill_value` (directly, or a local name all of whose assignments are
                                 such expressions, or the matching component of a helper's returned tuple)
              FConvert           conversion constructor `COO(x)` / `GCXS(x, compressed_axes=..)` (one positional
                                 array argument, no data/shape) or `X.from_coo(..)` — the fill travels with the argument
              FDense             `X.from_numpy / from_scipy_sparse / from_iter(..)` without fill_value: built from an
                                 object that has no fill value
              FConst z           integer / boolean literal
              FParam             a parameter of the function itself (creation functions, class methods)
              FLocal             any other computed expression
            plus the source text of the expression.
  s_delegates  names of other table rows the function calls (by the same name resolution; `x[...]` counts as "getitem",
            copy.copy / copy.deepcopy as "stdlib.copy"), and the flags s_returns_self (some `return <parameter>`) and
            s_public.  A `return NotImplemented` is a way out of kind PNotImpl (not a result).
Also emitted: array_definers (classes defining __array__), auto_densify_readers (every function of the backend that
mentions AUTO_DENSIFY), auto_densify_source (the expression _settings.py computes it with; must be the expected one).

Part 2 — sliced py2v fragments (table tools/frags/fill.py:SLICED): the loop bodies of
check_zero_fill_value / check_consistent_fill_value, the head of check_consistent_fill_value, the
whole check_fill_value, the AUTO_DENSIFY test of SparseArray.__array__, SparseArray._to_scalar, the dense-mix decision
of _Elemwise._get_fill_value, the admissibility test of SparseArray.reduce (plus the presence of the fill-correction
statements that Model/FillRules.v transcribes), the size test of COO/GCXS.maybe_densify.

generate(repo) -> ({"S_fill.v": coq_text}, report)"""
import ast
import copy
import hashlib
import importlib.util
import os
import sys

_HERE = os.path.dirname(os.path.abspath(__file__))
sys.path.insert(0, os.path.dirname(_HERE))
import py2v  # noqa: E402

BACKEND = "sparse/numba_backend"
# module short name -> file (relative to BACKEND)
MODULES = {
    "common": "_common.py",
    "coo_common": "_coo/common.py",
    "coo_core": "_coo/core.py",
    "coo_indexing": "_coo/indexing.py",
    "gcxs": "_compressed/compressed.py",
    "gcxs_common": "_compressed/common.py",
    "gcxs_indexing": "_compressed/indexing.py",
    "gcxs_convert": "_compressed/convert.py",
    "dok": "_dok.py",
    "sparse_array": "_sparse_array.py",
    "umath": "_umath.py",
    "utils": "_utils.py",
    "io": "_io.py",
}
# dotted module (relative to the backend package) -> short name; packages map to their __init__
DOTTED = {
    "_common": "common", "_coo.common": "coo_common", "_coo.core": "coo_core", "_coo.indexing": "coo_indexing",
    "_compressed.compressed": "gcxs", "_compressed.common": "gcxs_common", "_compressed.indexing": "gcxs_indexing",
    "_compressed.convert": "gcxs_convert", "_dok": "dok", "_sparse_array": "sparse_array", "_umath": "umath",
    "_utils": "utils", "_io": "io",
}
PACKAGES = {"_coo": "_coo/__init__.py", "_compressed": "_compressed/__init__.py", "": "__init__.py"}
MODULE_DOTTED = {v: k for k, v in DOTTED.items()}
CLASSES = {"COO": "coo_core", "GCXS": "gcxs", "DOK": "dok", "SparseArray": "sparse_array"}
CTOR_NAMES = {"COO", "GCXS", "DOK", "CSR", "CSC", "cls"}
CTOR_CLASSMETHODS = {"from_numpy", "from_coo", "from_iter", "from_scipy_sparse"}
GUARDS = {"check_zero_fill_value": "GZero", "check_consistent_fill_value": "GConsistent",
          "check_fill_value": "GAccept"}
# roots of attribute chains that are modules, never sparse arrays (`np.nonzero(x)` is not `x.nonzero()`)
NOT_ARRAYS = {"np", "numpy", "builtins", "operator", "warnings", "scipy", "numba", "_copy", "math", "itertools"}
DUNDERS = {"__init__", "__getitem__", "__setitem__", "__matmul__", "__rmatmul__", "__array__",
           "__array_ufunc__", "__array_function__", "__bool__", "__float__", "__int__", "__index__",
           "__complex__", "__len__"}


class SiteError(Exception):
    pass


def need(c, msg):
    if not c:
        raise SiteError(msg)


# ------------------------------------------------------------------------------------------- loading
class World:
    def __init__(self, repo):
        self.repo = repo
        self.trees = {}
        self.funcs = {}      # "mod.func" / "Class.meth" -> (FunctionDef, short module, class name or None)
        self.mod_imports = {}  # short module -> {local name: (dotted module, name)}
        for short, rel in MODULES.items():
            p = os.path.join(repo, BACKEND, rel)
            need(os.path.exists(p), f"module {rel} not found")
            self.trees[short] = ast.parse(open(p).read())
        for short, tree in self.trees.items():
            self.mod_imports[short] = self._imports(tree.body, MODULE_DOTTED[short])
            aliases = {}
            for n in tree.body:
                if isinstance(n, ast.FunctionDef):
                    self.funcs[f"{short}.{n.name}"] = (n, short, None)
                elif isinstance(n, ast.Assign) and len(n.targets) == 1 and isinstance(n.targets[0], ast.Name) \
                        and isinstance(n.value, ast.Name):
                    aliases[n.targets[0].id] = n.value.id
                elif isinstance(n, ast.ClassDef):
                    for m in n.body:
                        if isinstance(m, ast.FunctionDef):
                            self.funcs[f"{n.name}.{m.name}"] = (m, short, n.name)
            for a, b in aliases.items():
                if f"{short}.{b}" in self.funcs and f"{short}.{a}" not in self.funcs:
                    self.funcs[f"{short}.{a}"] = self.funcs[f"{short}.{b}"]
        # class-level aliases  `__getitem__ = getitem`
        for cname, short in CLASSES.items():
            cls = self.find_class(cname)
            for m in cls.body:
                if isinstance(m, ast.Assign) and len(m.targets) == 1 and isinstance(m.targets[0], ast.Name) \
                        and isinstance(m.value, ast.Name):
                    tgt = self.resolve_name(short, m.value.id, {})
                    if tgt and tgt in self.funcs:
                        self.funcs[f"{cname}.{m.targets[0].id}"] = (self.funcs[tgt][0], self.funcs[tgt][1], cname)

    def find_class(self, cname):
        for n in self.trees[CLASSES[cname]].body:
            if isinstance(n, ast.ClassDef) and n.name == cname:
                return n
        raise SiteError(f"class {cname} not found")

    @staticmethod
    def _abs_module(cur_dotted, level, module):
        """dotted path (relative to the backend package) of `from <level dots><module> import ...`"""
        parts = cur_dotted.split(".")[:-1] if cur_dotted else []
        for _ in range(level - 1):
            if not parts:
                return None          # leaves the backend package (e.g. `from .. import DOK` in _compressed)
            parts = parts[:-1]
        if module:
            parts = parts + module.split(".")
        return ".".join(parts)

    def _imports(self, stmts, cur_dotted):
        out = {}
        for n in stmts:
            if isinstance(n, ast.ImportFrom):
                if n.level >= 1:
                    mod = self._abs_module(cur_dotted, n.level, n.module)
                elif n.module == "sparse":
                    mod = ""
                else:
                    continue
                if mod is None:
                    mod = ""
                for a in n.names:
                    out[a.asname or a.name] = (mod, a.name)
        return out

    def follow(self, dotted, name, depth=0):
        """resolve (dotted module, name) to a key of self.funcs / a class name, following package re-exports"""
        if depth > 4:
            return None
        if dotted in DOTTED:
            short = DOTTED[dotted]
            if f"{short}.{name}" in self.funcs:
                return f"{short}.{name}"
            if name in CLASSES and CLASSES[name] == short:
                return "class:" + name
            imp = self.mod_imports[short].get(name)
            if imp:
                return self.follow(imp[0], imp[1], depth + 1)
            return None
        if dotted in PACKAGES:
            p = os.path.join(self.repo, BACKEND, PACKAGES[dotted])
            tree = ast.parse(open(p).read())
            imp = self._imports(tree.body, (dotted + ".__init__") if dotted else "__init__").get(name)
            if imp:
                return self.follow(imp[0], imp[1], depth + 1)
        return None

    def resolve_name(self, short, name, local_imports):
        """a bare name used inside module `short` -> funcs key (or None)"""
        if name in local_imports:
            return self.follow(*local_imports[name])
        if f"{short}.{name}" in self.funcs:
            return f"{short}.{name}"
        imp = self.mod_imports[short].get(name)
        if imp:
            return self.follow(*imp)
        return None


# ------------------------------------------------------------------------------------------- analysis
def src(e, lim=90):
    s = ast.unparse(e).replace("\n", " ")
    return s if len(s) <= lim else s[:lim - 3] + "..."


def params_of(fn):
    a = fn.args
    return [x.arg for x in a.posonlyargs + a.args] + ([("*" + a.vararg.arg)] if a.vararg else []) + \
           [x.arg for x in a.kwonlyargs]


def own_nodes(fn):
    """all nodes of fn's body, not descending into nested function definitions"""
    out = []
    stack = list(fn.body)
    while stack:
        n = stack.pop()
        out.append(n)
        for c in ast.iter_child_nodes(n):
            if isinstance(c, (ast.FunctionDef, ast.AsyncFunctionDef, ast.Lambda, ast.ClassDef)):
                continue
            stack.append(c)
    return out


def guard_of_call(c):
    if isinstance(c, ast.Call):
        f = c.func
        name = f.id if isinstance(f, ast.Name) else (f.attr if isinstance(f, ast.Attribute) else None)
        if name in GUARDS:
            args = [("*" + src(a.value)) if isinstance(a, ast.Starred) else src(a) for a in c.args]
            return (GUARDS[name], args)
    return None


class Analyzer:
    def __init__(self, world):
        self.w = world
        self._dom = {}

    def local_imports(self, fn, short):
        out = {}
        for n in ast.walk(fn):
            if isinstance(n, ast.ImportFrom):
                out.update(self.w._imports([n], MODULE_DOTTED[short]))
        return out

    def callees(self, call, short, limp):
        """funcs keys a Call may resolve to, with the receiver text (for methods)"""
        f = call.func
        if isinstance(f, ast.Name):
            k = self.w.resolve_name(short, f.id, limp)
            return ([k], None) if k and not k.startswith("class:") else ([], None)
        if isinstance(f, ast.Attribute):
            recv = f.value
            if isinstance(recv, ast.Name) and (recv.id in CLASSES or recv.id in ("CSR", "CSC")):
                k = f"{recv.id}.{f.attr}"
                return ([k] if k in self.w.funcs else [], None)
            root = recv
            while isinstance(root, (ast.Attribute, ast.Subscript, ast.Call)):
                root = root.value if not isinstance(root, ast.Call) else root.func
            if isinstance(root, ast.Name) and root.id in NOT_ARRAYS:
                return ([], None)
            ks = [f"{c}.{f.attr}" for c in CLASSES if f"{c}.{f.attr}" in self.w.funcs]
            return (ks, src(recv))
        return ([], None)

    def dominating(self, key):
        """guards executed on every path of the function `key` before anything is returned:
        guard statements of the top-level sequence before the first statement containing a return"""
        if key in self._dom:
            return self._dom[key]
        fn = self.w.funcs[key][0]
        out = []
        for s in fn.body:
            if isinstance(s, ast.Expr):
                g = guard_of_call(s.value)
                if g:
                    out.append(g)
                    continue
            if any(isinstance(n, ast.Return) for n in ast.walk(s)):
                break
        self._dom[key] = out
        return out

    def via_guards(self, node, short, limp):
        """guards inherited from helpers called inside `node` (one level)"""
        out = []
        for c in ast.walk(node):
            if not isinstance(c, ast.Call) or guard_of_call(c):
                continue
            keys, recv = self.callees(c, short, limp)
            if not keys:
                continue
            per = []
            for k in keys:
                fn = self.w.funcs[k][0]
                ps = params_of(fn)
                m = {}
                pos = list(ps)
                if recv is not None and pos and pos[0] in ("self", "cls"):
                    m[pos[0]] = recv
                    pos = pos[1:]
                elif pos and pos[0] == "cls":
                    pos = pos[1:]
                for p, a in zip(pos, c.args, strict=False):
                    if not p.startswith("*") and not isinstance(a, ast.Starred):
                        m[p] = src(a)
                for kw in c.keywords:
                    if kw.arg:
                        m[kw.arg] = src(kw.value)
                gs = []
                for kind, args in self.dominating(k):
                    gs.append((kind, tuple(m.get(a, "?" + a) for a in args)))
                per.append(gs)
            common = [g for g in per[0] if all(g in p for p in per[1:])]
            for kind, args in common:
                out.append((kind, list(args), keys[0] if len(keys) == 1 else keys[0].split(".")[1]))
        return out

    def paths(self, fn, short, limp):
        paths = []

        def simple(s, guards):
            g = list(guards)
            if isinstance(s, ast.Expr):
                d = guard_of_call(s.value)
                if d:
                    g.append((d[0], d[1], ""))
                    return g
            for v in self.via_guards(s, short, limp):
                if v not in g:
                    g.append(v)
            return g

        def walk(stmts, guards, conds):
            """returns the guards at fall-through, or None when the sequence never falls through"""
            g = list(guards)
            for s in stmts:
                if isinstance(s, ast.Return):
                    gg = simple(s, g) if s.value is not None else g
                    kind = "PNotImpl" if isinstance(s.value, ast.Name) and s.value.id == "NotImplemented" else "PReturn"
                    paths.append((kind, list(conds), gg, src(s.value) if s.value is not None else "None"))
                    return None
                if isinstance(s, ast.Raise):
                    e = s.exc
                    nm = src(e.func) if isinstance(e, ast.Call) else (src(e) if e is not None else "reraise")
                    paths.append(("PRaise", list(conds), g, nm))
                    return None
                if isinstance(s, ast.If):
                    t = src(s.test, 70)
                    a = walk(s.body, g, conds + [t])
                    b = walk(s.orelse, g, conds + ["not (" + t + ")"])
                    if a is None and b is None:
                        return None
                    if a is None:
                        g = b
                    elif b is None:
                        g = a
                    else:
                        g = [x for x in a if x in b]
                elif isinstance(s, ast.Try):
                    a = walk(list(s.body) + list(s.orelse), g, conds)
                    outs = [a]
                    for h in s.handlers:
                        hn = src(h.type) if h.type is not None else "BaseException"
                        outs.append(walk(h.body, g, conds + ["except " + hn]))
                    outs = [o for o in outs if o is not None]
                    if not outs:
                        return None
                    g = [x for x in outs[0] if all(x in o for o in outs[1:])]
                elif isinstance(s, (ast.For, ast.While)):
                    walk(s.body, g, conds + ["in loop"])
                    walk(s.orelse, g, conds)
                elif isinstance(s, ast.With):
                    a = walk(s.body, g, conds)
                    if a is None:
                        return None
                    g = a
                elif isinstance(s, (ast.FunctionDef, ast.ClassDef)):
                    continue
                else:
                    g = simple(s, g)
            return g

        end = walk(fn.body, [], [])
        if end is not None:
            paths.append(("PFall", [], end, "None"))
        return paths

    # ---- constructors
    def ctor_class(self, call):
        f = call.func
        if isinstance(f, ast.Name) and f.id in CTOR_NAMES:
            return f.id
        if isinstance(f, ast.Call) and isinstance(f.func, ast.Name) and f.func.id == "type" and len(f.args) == 1:
            return "type(%s)" % src(f.args[0])
        if isinstance(f, ast.Attribute) and f.attr == "__class__":
            return src(f)
        if isinstance(f, ast.Attribute) and f.attr in CTOR_CLASSMETHODS:
            r = f.value
            if isinstance(r, ast.Name) and r.id in CTOR_NAMES:
                return f"{r.id}.{f.attr}"
            if isinstance(r, ast.Subscript) and isinstance(r.value, ast.Name) and r.value.id == "format_dict":
                return f"format_dict[..].{f.attr}"
            if isinstance(r, ast.Call) and isinstance(r.func, ast.Name) and r.func.id == "type":
                return f"type(..).{f.attr}"
        return None

    def classify_fill(self, e, fn, short, limp, depth=0):
        if isinstance(e, ast.Constant) and isinstance(e.value, (int, bool)) and not isinstance(e.value, float):
            return ("FConst", int(e.value))
        if isinstance(e, ast.Attribute) and e.attr == "fill_value":
            return ("FOperand", None)
        if isinstance(e, ast.Name):
            if e.id in [p.lstrip("*") for p in params_of(fn)]:
                return ("FParam", None)
            if depth < 2:
                rhs = self.assignments(e.id, fn, short, limp)
                if rhs and all(r is not None and self.classify_fill(r, fn, short, limp, depth + 1)[0] == "FOperand"
                               for r in rhs):
                    return ("FOperand", None)
        return ("FLocal", None)

    def assignments(self, name, fn, short, limp):
        """right-hand sides bound to `name` in fn (None for a binding that cannot be followed)"""
        out = []
        for n in own_nodes(fn):
            if not isinstance(n, ast.Assign):
                continue
            for t in n.targets:
                if isinstance(t, ast.Name) and t.id == name:
                    out.append(n.value)
                elif isinstance(t, ast.Tuple):
                    for i, el in enumerate(t.elts):
                        if isinstance(el, ast.Name) and el.id == name:
                            out.extend(self.tuple_component(n.value, i, len(t.elts), short, limp))
        return out

    def tuple_component(self, value, i, n, short, limp):
        if isinstance(value, ast.Tuple) and len(value.elts) == n:
            return [value.elts[i]]
        if isinstance(value, ast.Call):
            keys, _ = self.callees(value, short, limp)
            if len(keys) == 1:
                h = self.w.funcs[keys[0]][0]
                outs = []
                for r in own_nodes(h):
                    if isinstance(r, ast.Return):
                        if isinstance(r.value, ast.Tuple) and len(r.value.elts) == n:
                            outs.append(r.value.elts[i])
                        else:
                            outs.append(None)
                return outs or [None]
        return [None]

    def ctor_signature(self, k, cls_name):
        """parameter names (without self/cls) of the constructor / class method a ctor text denotes"""
        base, _, meth = k.partition(".")
        if base == "cls":
            base = cls_name or ""
        if base.startswith("type(") or base.endswith("__class__") or base.startswith("format_dict"):
            base = "COO"          # same fill_value position in every class's from_* methods; ctor: keyword only
        key = f"{base}.{meth or '__init__'}"
        if key not in self.w.funcs:
            return None
        ps = params_of(self.w.funcs[key][0])
        return ps[1:] if ps and ps[0] in ("self", "cls") else ps

    def ctors(self, fn, short, limp, cls_name=None):
        out = []
        for c in ast.walk(fn):
            if not isinstance(c, ast.Call):
                continue
            k = self.ctor_class(c)
            if k is None:
                continue
            kw = {x.arg: x.value for x in c.keywords if x.arg}
            fill = kw.get("fill_value")
            base = k.split(".")[0]
            if fill is None:
                sig = self.ctor_signature(k, cls_name)
                if sig and "fill_value" in sig and not any(isinstance(a, ast.Starred) for a in c.args):
                    i = sig.index("fill_value")
                    if i < len(c.args):
                        fill = c.args[i]
            if fill is not None:
                kind, z = self.classify_fill(fill, fn, short, limp)
                text = src(fill, 60)
            else:
                text = ""
                z = None
                if "." in k:
                    # class-method conversions: from_coo carries the argument's fill; from_numpy /
                    # from_scipy_sparse / from_iter build from an object that has no fill value
                    kind = "FConvert" if k.endswith(".from_coo") else "FDense"
                else:
                    conv = (len(c.args) == 1 and not isinstance(c.args[0], (ast.Tuple, ast.List, ast.Starred))
                            and "data" not in kw and "shape" not in kw and base != "DOK"
                            and not isinstance(c.args[0], ast.Attribute))
                    kind = "FConvert" if conv else "FAbsent"
            out.append((c.lineno, k, kind, z, text, src(c, 70)))
        out.sort()
        return out

    def delegates(self, fn, short, limp):
        out = []
        for c in own_nodes(fn):
            if isinstance(c, ast.Call) and isinstance(c.func, ast.Attribute) and isinstance(c.func.value, ast.Name) \
                    and c.func.value.id in ("_copy", "copy") and c.func.attr in ("copy", "deepcopy"):
                # copy.copy / copy.deepcopy of the array: every attribute, the fill included, is copied
                if "stdlib.copy" not in out:
                    out.append("stdlib.copy")
                continue
            if isinstance(c, ast.Call) and not guard_of_call(c) and self.ctor_class(c) is None:
                keys, _ = self.callees(c, short, limp)
                for k in keys:
                    if k not in out:
                        out.append(k)
            elif isinstance(c, ast.Subscript) and isinstance(c.ctx, ast.Load) and isinstance(c.value, ast.Name) \
                    and c.value.id in [p for p in params_of(fn)] + ["x", "a", "self"]:
                if "getitem" not in out:
                    out.append("getitem")
        return out

    def returns_self(self, fn):
        ps = [p.lstrip("*") for p in params_of(fn)]
        for n in own_nodes(fn):
            if isinstance(n, ast.Return) and isinstance(n.value, ast.Name) and n.value.id in ps:
                return True
        return False


# ------------------------------------------------------------------------------------------- table
def public_ops(world):
    """names (funcs keys) of the public operations"""
    init = ast.parse(open(os.path.join(world.repo, BACKEND, "__init__.py")).read())
    ops = []
    classes = []
    for n in init.body:
        if isinstance(n, ast.ImportFrom) and n.level == 1:
            for a in n.names:
                k = world.follow(n.module, a.name)
                if k is None:
                    k = world.follow(n.module or "", a.name)
                need(k is not None, f"cannot resolve public name {a.name} from {n.module}")
                if k.startswith("class:"):
                    classes.append(k[6:])
                elif k not in ops:
                    ops.append(k)
    need(set(classes) >= {"COO", "GCXS", "DOK", "SparseArray"}, f"expected classes not exported: {classes}")
    need(len(ops) >= 60, f"only {len(ops)} public functions resolved")
    for cname in ["SparseArray", "COO", "GCXS", "DOK"]:
        for key in sorted(k for k in world.funcs if k.startswith(cname + ".")):
            m = key.split(".", 1)[1]
            if not m.startswith("_") or m in DUNDERS:
                if key not in ops:
                    ops.append(key)
    return ops


def coq_str(s):
    return '"' + s.replace('"', '""') + '"'


def coq_list(xs):
    return "[" + "; ".join(xs) + "]"


def emit_guard(g):
    kind, args, via = g
    return f"mkGuard {kind} {coq_list(coq_str(a) for a in args)} {coq_str(via)}"


def build_table(world):
    an = Analyzer(world)
    pub = public_ops(world)
    rows = []
    seen = set()
    keys = list(pub)
    # private functions / methods with a guard or a constructor of their own
    for key in sorted(world.funcs):
        if key in keys:
            continue
        fn, short, _cls = world.funcs[key]
        if id(fn) in {id(world.funcs[k][0]) for k in keys}:
            continue
        limp = an.local_imports(fn, short)
        has = any(guard_of_call(n) for n in ast.walk(fn) if isinstance(n, ast.Call)) or \
            any(an.ctor_class(n) for n in ast.walk(fn) if isinstance(n, ast.Call))
        if has and key.split(".")[0] not in ("utils",) or key in ("utils.random",):
            keys.append(key)
    for key in keys:
        fn, short, _cls = world.funcs[key]
        if key in seen:
            continue
        seen.add(key)
        limp = an.local_imports(fn, short)
        rows.append(dict(
            op=key, public=key in pub, params=params_of(fn),
            paths=an.paths(fn, short, limp), ctors=an.ctors(fn, short, limp, _cls),
            delegates=an.delegates(fn, short, limp), returns_self=an.returns_self(fn)))
    return rows


TABLE_HEADER = """(* GENERATED by tools/sitegen/fill.py from /repo — do not edit.  Fill-value call-site table (C07). *)
From Coq Require Import ZArith List String.
From Verif Require Import Py PyExt PyFill.
Import ListNotations.
Open Scope Z_scope.
Open Scope string_scope.

"""


def emit_table(rows):
    out = []
    names = []
    for i, r in enumerate(rows):
        nm = f"site_{i}"
        names.append(nm)
        paths = []
        for kind, conds, guards, text in r["paths"]:
            paths.append("mkPath %s %s %s %s" % (kind, coq_list(coq_str(c) for c in conds),
                                                 coq_list("(" + emit_guard(g) + ")" for g in guards), coq_str(text)))
        ctors = []
        for _ln, k, kind, z, text, _call in r["ctors"]:
            fk = f"(FConst ({z}))" if kind == "FConst" else kind
            ctors.append("mkCtor %s %s %s" % (coq_str(k), fk, coq_str(text)))
        out.append(f"Definition {nm} : site := mkSite {coq_str(r['op'])} {'true' if r['public'] else 'false'}\n"
                   f"  {coq_list(coq_str(p) for p in r['params'])}\n"
                   "  [" + ";\n   ".join(paths) + "]\n"
                   "  [" + ";\n   ".join(ctors) + "]\n"
                   f"  {coq_list(coq_str(d) for d in r['delegates'])} {'true' if r['returns_self'] else 'false'}.\n")
    out.append("Definition sites : list site :=\n  [" + "; ".join(names) + "].\n")
    return "\n".join(out)


# ------------------------------------------------------------------------------------------- fragments
class _AttrTargets(ast.NodeTransformer):
    """`self.<a> = e`  ->  `self_<a> = e` (assignment *targets* only; loads stay, so that `extern` keys are the
    exact source text)"""

    def visit_Assign(self, node):
        node.targets = [ast.copy_location(ast.Name(id="self_" + t.attr.lstrip("_"), ctx=ast.Store()), t)
                        if isinstance(t, ast.Attribute) and isinstance(t.value, ast.Name) and t.value.id == "self"
                        else t for t in node.targets]
        return node


def _nodoc(fn):
    body = list(fn.body)
    if body and isinstance(body[0], ast.Expr) and isinstance(body[0].value, ast.Constant) \
            and isinstance(body[0].value.value, str):
        body = body[1:]
    return body


def pick_statements(fn, spec):
    """the statements named by spec['pick'] (in that order), as the original AST nodes.  Each selector is
    ('whole',) — every top-level statement (docstring excluded);
    ('if', test text) — the whole `if` statement with exactly this test, anywhere in the function;
    ('loop-if', iterator text, test text) — the single `if` that is the whole body of `for .. in <iterator>`;
    ('assign', target text) — the assignment to exactly this target at the top level of the function;
    ('return',) — the last top-level statement, which must be a return.
    Each must match exactly once (fail-closed)."""
    out = []
    for sel in spec["pick"]:
        if sel[0] == "whole":
            out.extend(_nodoc(fn))
            continue
        found = []
        if sel[0] == "if":
            found = [n for n in ast.walk(fn) if isinstance(n, ast.If) and ast.unparse(n.test) == sel[1]]
        elif sel[0] == "loop-if":
            for n in ast.walk(fn):
                if isinstance(n, ast.For) and ast.unparse(n.iter) == sel[1]:
                    need(len(n.body) == 1 and isinstance(n.body[0], ast.If) and not n.orelse and not n.body[0].orelse,
                         f"loop over {sel[1]} no longer consists of one `if` without else")
                    need(ast.unparse(n.body[0].test) == sel[2], f"loop test changed: {ast.unparse(n.body[0].test)}")
                    found.append(n.body[0])
        elif sel[0] == "assign":
            found = [n for n in fn.body if isinstance(n, ast.Assign) and len(n.targets) == 1
                     and ast.unparse(n.targets[0]) == sel[1]]
        elif sel[0] == "return":
            found = [fn.body[-1]] if isinstance(fn.body[-1], ast.Return) else []
        need(len(found) == 1, f"selector {sel} matches {len(found)} statements in {spec['func']}")
        out.append(found[0])
    return out


def function_shape(fn, picked):
    ids = {id(p) for p in picked}
    out = []
    for s in _nodoc(fn):
        if id(s) in ids:
            out.append("<picked>")
        elif isinstance(s, ast.For) and len(s.body) == 1 and isinstance(s.body[0], ast.If):
            tgt = ast.unparse(s.target).strip("()")
            inner = "<picked>" if id(s.body[0]) in ids else "if " + ast.unparse(s.body[0].test)
            out.append(f"for {tgt} in {ast.unparse(s.iter)}: {inner}")
        else:
            out.append(ast.unparse(s))
    return out


def sliced_fragment(repo, spec):
    text = open(os.path.join(repo, spec["file"])).read()
    tree = ast.parse(text)
    fn = py2v.find_function(tree, spec["func"])
    picked = pick_statements(fn, spec)
    if "shape" in spec:
        shp = function_shape(fn, picked)
        need(shp == spec["shape"], f"top-level shape of {spec['func']} changed: {shp!r}")
    top = [ast.unparse(s) for s in _nodoc(fn)]
    for r in spec.get("requires", []):
        need(top.count(r) == 1, f"statement `{r}` no longer present (once) at the top level of {spec['func']}")
    for fname, r in spec.get("requires_in", []):
        qual = fname if "." in fname else fname
        other = py2v.find_function(tree, qual)
        need([ast.unparse(s) for s in _nodoc(other)].count(r) == 1,
             f"statement `{r.splitlines()[0]}` no longer present (once) at the top level of {fname}")
    # statements (at any depth of the function) that hand-written model definitions transcribe: exact text, exact count
    every = [ast.unparse(n) for n in ast.walk(fn) if isinstance(n, ast.stmt)]
    for r, count in spec.get("requires_nested", []):
        need(every.count(r) == count, f"statement `{r[:70]}` occurs {every.count(r)} times in {spec['func']}, expected {count}")
    stmts = [_AttrTargets().visit(copy.deepcopy(s)) for s in picked]
    args = ", ".join(spec["params"])
    short = spec["func"].split(".")[-1]
    synth = f"def {short}({args}):\n" + "\n".join(
        "    " + line for s in stmts for line in ast.unparse(ast.fix_missing_locations(s)).splitlines()) + "\n"
    sp = dict(spec, func=short, selector=None)
    return py2v.translate_fragment(synth, sp, {})


def settings_fact(repo):
    p = os.path.join(repo, BACKEND, "_settings.py")
    tree = ast.parse(open(p).read())
    for n in tree.body:
        if isinstance(n, ast.Assign) and len(n.targets) == 1 and ast.unparse(n.targets[0]) == "AUTO_DENSIFY":
            return ast.unparse(n.value)
    raise SiteError("AUTO_DENSIFY assignment not found in _settings.py")


EXPECTED_AUTO_DENSIFY = "bool(int(os.environ.get('SPARSE_AUTO_DENSIFY', '0')))"


def generate(repo):
    report = {}
    out = [TABLE_HEADER]
    # ---- part 1: the table
    try:
        world = World(repo)
        rows = build_table(world)
        need(any(r["op"] == "coo_common.diagonal" for r in rows), "diagonal not found")
        nguards = sum(1 for r in rows for p in r["paths"] for g in p[2] if g[2] == "")
        need(nguards >= 10, f"only {nguards} direct guard occurrences found — guards renamed?")
        out.append(emit_table(rows))
        digest = hashlib.sha256(repr(rows).encode()).hexdigest()[:16]
        report["sites"] = {"status": "ok", "rows": len(rows), "public": sum(1 for r in rows if r["public"]),
                           "ctor_sites": sum(len(r["ctors"]) for r in rows), "digest": digest}
        # which classes define __array__ (only SparseArray may)
        over = [c for c in CLASSES if f"{c}.__array__" in world.funcs]
        out.append("Definition array_definers : list string := %s.\n" % coq_list(coq_str(c) for c in over))
        # every function of the backend that mentions AUTO_DENSIFY (the switch must be read by __array__ only)
        readers = []
        for rel in sorted(os.listdir(os.path.join(repo, BACKEND))) + ["_coo/" + f for f in sorted(os.listdir(os.path.join(repo, BACKEND, "_coo")))] \
                + ["_compressed/" + f for f in sorted(os.listdir(os.path.join(repo, BACKEND, "_compressed")))]:
            if not rel.endswith(".py") or rel == "_settings.py":
                continue
            tree = ast.parse(open(os.path.join(repo, BACKEND, rel)).read())

            def visit(node, qual):
                for ch in ast.iter_child_nodes(node):
                    if isinstance(ch, (ast.FunctionDef, ast.ClassDef)):
                        visit(ch, qual + [ch.name])
                    else:
                        for n in ast.walk(ch):
                            if (isinstance(n, ast.Name) and n.id == "AUTO_DENSIFY" and isinstance(n.ctx, ast.Load)) or \
                                    (isinstance(n, ast.Attribute) and n.attr == "AUTO_DENSIFY"):
                                nm = ".".join(qual) or rel
                                if nm not in readers:
                                    readers.append(nm)
            visit(tree, [])
        out.append("Definition auto_densify_readers : list string := %s.\n" % coq_list(coq_str(c) for c in readers))
        report["sites"]["auto_densify_readers"] = readers
    except (SiteError, OSError, SyntaxError, KeyError) as ex:
        out.append(f"(* site table: EXTRACTION FAILED: {type(ex).__name__}: {ex} *)\n")
        report["sites"] = {"status": "failed", "error": f"{type(ex).__name__}: {ex}"}
    # ---- AUTO_DENSIFY source
    try:
        s = settings_fact(repo)
        need(s == EXPECTED_AUTO_DENSIFY, f"AUTO_DENSIFY is now computed as {s}")
        out.append("(* _settings.AUTO_DENSIFY = %s : read once, at import, from the environment *)\n"
                   "Definition auto_densify_source : string := %s.\n" % (s, coq_str(s)))
        report["auto_densify_source"] = {"status": "ok"}
    except (SiteError, OSError, SyntaxError) as ex:
        out.append(f"(* auto_densify_source: FAILED: {ex} *)\n")
        report["auto_densify_source"] = {"status": "failed", "error": str(ex)}
    # ---- part 2: sliced fragments
    sp = importlib.util.spec_from_file_location("frags_fill", os.path.join(os.path.dirname(_HERE), "frags", "fill.py"))
    m = importlib.util.module_from_spec(sp)
    sp.loader.exec_module(m)
    for spec in m.SLICED:
        try:
            if "pins" in spec:
                tree = ast.parse(open(os.path.join(repo, spec["file"])).read())
                fn = py2v.find_function(tree, spec["func"])
                every = [ast.unparse(n) for n in ast.walk(fn) if isinstance(n, ast.stmt)]
                for r, count in spec["pins"]:
                    need(every.count(r) == count,
                         f"statement `{r[:70]}` occurs {every.count(r)} times in {spec['func']}, expected {count}")
                out.append("(* statements of %s that Model/FillRules.v transcribes by hand: all present *)\n"
                           "Definition %s : list string := %s.\n"
                           % (spec["func"], spec["name"], coq_list(coq_str(r) for r, _c in spec["pins"])))
                report[spec["name"]] = {"status": "ok", "pins": len(spec["pins"])}
                continue
            coq, h = sliced_fragment(repo, spec)
            out.append(coq)
            report[spec["name"]] = {"status": "ok", "hash": h}
        except (py2v.Unsupported, SiteError, OSError, SyntaxError) as ex:
            out.append(f"(* sliced fragment {spec['name']}: TRANSLATION FAILED: {ex} *)\n")
            report[spec["name"]] = {"status": "failed", "error": str(ex)}
    return {"S_fill.v": "\n".join(out)}, report


if __name__ == "__main__":
    if len(sys.argv) > 2 and sys.argv[2] == "--rows":
        w = World(sys.argv[1])
        for r in build_table(w):
            print(("PUB " if r["public"] else "priv"), r["op"], r["params"])
            for p in r["paths"]:
                print("      path", p[0], "|", " & ".join(p[1])[:80], "|", [(g[0], g[1], g[2]) for g in p[2]], "|", p[3][:60])
            for c in r["ctors"]:
                print("      ctor", c[1], c[2], c[3], repr(c[4]), "   <<", c[5])
            print("      delegates", r["delegates"], "returns_self", r["returns_self"])
    else:
        files, rep = generate(sys.argv[1] if len(sys.argv) > 1 else "/repo")
        print(files["S_fill.v"])
        print(rep, file=sys.stderr)
