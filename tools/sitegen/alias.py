"""Site extractor for C11 (operands are never modified; caching is unobservable).

generate(repo) -> ({"S_cache.v": text, "S_alias.v": text}, report)

S_cache.v — the SHAPE of the memo protocol of COO.transpose / COO.reshape / COO.tocsr / COO.tocsc /
COO.enable_caching, read off the Python AST: deque maxlen, the cache-slot names, the key expression at
the lookup and at the store (component source texts), the pre-phase locals the stored result depends on
(intraprocedural dependency closure of the `result = ...` statement), whether keys are compared with ==,
whether a hit returns the entry's value, whether what is stored is what is returned, ...  Model/Cache.v
builds its [proto] records from these definitions and Props/C11.v proves `proto_ok ... = true` about them;
dropping a key component, storing under another key, or comparing with `is` makes that proof fail.

S_alias.v — per function of the anchored files an *effect summary* in the tiny language of
Model/Alias.v:  Bind v (Fresh | Alias arg field | View w) ; Write v.   Every augmented assignment,
item assignment, in-place ndarray method, ufunc.at / copyto-like call and out= keyword yields a Write
of a variable whose provenance is given by a small intraprocedural binding analysis (SSA-like renaming,
joins as several Binds of one variable, loops/try collapsed) over the classification tables below
(NumPy calls/methods/attributes: fresh, view or unknown -> alias).  The tables are part of the trusted
base; unknown is always `alias`.  Private helpers (leading underscore) that write through a parameter
are not obligations themselves: the write is re-emitted at each of their call sites on the actual
argument.  Fail-closed: anything structurally unexpected raises.
"""
import ast
import hashlib
import os

ANCHORED = [
    "sparse/numba_backend/_coo/core.py",
    "sparse/numba_backend/_coo/common.py",
    "sparse/numba_backend/_compressed/compressed.py",
    "sparse/numba_backend/_compressed/indexing.py",
    "sparse/numba_backend/_sparse_array.py",
]
PKG = "sparse/numba_backend"
CORE = "sparse/numba_backend/_coo/core.py"


class Shape(Exception):
    """the source no longer has the shape the extractor understands"""


def coq_str(s):
    return '"' + s.replace('"', '""') + '"'


def coq_strs(xs):
    return "[" + "; ".join(coq_str(x) for x in xs) + "]"


def coq_bool(b):
    return "true" if b else "false"


# ============================================================================ part 1: the cache protocol
def _is_self_cache(node):
    return (isinstance(node, ast.Attribute) and node.attr == "_cache"
            and isinstance(node.value, ast.Name) and node.value.id == "self")


def _is_cache_guard(test):
    return (isinstance(test, ast.Compare) and len(test.ops) == 1 and isinstance(test.ops[0], ast.IsNot)
            and _is_self_cache(test.left) and isinstance(test.comparators[0], ast.Constant)
            and test.comparators[0].value is None)


def _slot_of(node):
    """self._cache["name"] -> name"""
    if (isinstance(node, ast.Subscript) and _is_self_cache(node.value)
            and isinstance(node.slice, ast.Constant) and isinstance(node.slice.value, str)):
        return node.slice.value
    return None


def _key_components(e):
    """source texts of the components of a key expression"""
    if isinstance(e, ast.Tuple):
        return [ast.unparse(x) for x in e.elts]
    return [ast.unparse(e)]


def _names(e):
    """names an expression reads or binds, minus the variables bound by comprehensions inside it
    (those are functions of the comprehension's iterables, which are included)"""
    bound = set()
    for n in ast.walk(e):
        if isinstance(n, ast.comprehension):
            bound |= {x.id for x in ast.walk(n.target) if isinstance(x, ast.Name)}
    return [n.id for n in ast.walk(e) if isinstance(n, ast.Name) and n.id not in bound]


def _stored_names(stmts):
    out = set()
    for s in stmts:
        for n in ast.walk(s):
            if isinstance(n, ast.Name) and isinstance(n.ctx, (ast.Store, ast.Del)):
                out.add(n.id)
        for n in ast.walk(s):       # comprehension variables are not function locals
            if isinstance(n, ast.comprehension):
                out -= {x.id for x in ast.walk(n.target) if isinstance(x, ast.Name)}
    return out


def _dep_closure(stmts, roots_expr, pre_names):
    """names bound before `stmts` (pre_names) that the expression `roots_expr` depends on, through
    the assignments / loops / item stores in stmts (flow-insensitive closure)."""
    deps = {}      # local name -> set of names it is computed from

    def add(tgt, src_names):
        deps.setdefault(tgt, set()).update(src_names)

    def targets(t):
        if isinstance(t, ast.Name):
            return [t.id], []
        if isinstance(t, (ast.Tuple, ast.List)):
            a, b = [], []
            for x in t.elts:
                p, q = targets(x)
                a += p
                b += q
            return a, b
        if isinstance(t, ast.Starred):
            return targets(t.value)
        if isinstance(t, (ast.Subscript, ast.Attribute)):
            base = t
            while isinstance(base, (ast.Subscript, ast.Attribute)):
                base = base.value
            extra = _names(t.slice) if isinstance(t, ast.Subscript) else []
            return ([base.id] if isinstance(base, ast.Name) else []), extra
        raise Shape(f"unsupported assignment target {ast.dump(t)[:80]}")

    def walk(ss, ctl):
        for s in ss:
            if isinstance(s, ast.Assign):
                for t in s.targets:
                    tg, extra = targets(t)
                    for x in tg:
                        add(x, set(_names(s.value)) | set(extra) | ctl)
            elif isinstance(s, ast.AugAssign):
                tg, extra = targets(s.target)
                for x in tg:
                    add(x, set(_names(s.value)) | set(extra) | {x} | ctl)
            elif isinstance(s, ast.AnnAssign) and s.value is not None:
                tg, extra = targets(s.target)
                for x in tg:
                    add(x, set(_names(s.value)) | set(extra) | ctl)
            elif isinstance(s, ast.For):
                tg, extra = targets(s.target)
                for x in tg:
                    add(x, set(_names(s.iter)) | ctl)
                walk(s.body + s.orelse, ctl | set(_names(s.iter)))
            elif isinstance(s, ast.While):
                walk(s.body + s.orelse, ctl | set(_names(s.test)))
            elif isinstance(s, ast.If):
                walk(s.body + s.orelse, ctl | set(_names(s.test)))
            elif isinstance(s, (ast.Expr, ast.Pass, ast.Assert, ast.Raise, ast.Return)):
                # a call statement may mutate its receiver/arguments: make them depend on each other
                if isinstance(s, ast.Expr) and isinstance(s.value, ast.Call):
                    ns = set(_names(s.value))
                    for x in ns:
                        add(x, ns | ctl)
            elif isinstance(s, (ast.With, ast.Try)):
                raise Shape("with/try between lookup and store")
            else:
                raise Shape(f"unsupported statement {type(s).__name__} between lookup and store")
    walk(stmts, set())
    local = _stored_names(stmts)
    seen, todo, roots = set(), list(_names(roots_expr)), set()
    while todo:
        n = todo.pop()
        if n in seen:
            continue
        seen.add(n)
        if n in deps:
            todo.extend(deps[n])
            if n in pre_names:      # re-bound name that also existed before: both
                roots.add(n)
        elif n in pre_names:
            roots.add(n)
        elif n in local:
            raise Shape(f"local {n} read before assignment")
        # otherwise a global / builtin / module: not an input
    return sorted(roots)


def extract_memo(cls, meth):
    fn = next((n for n in cls.body if isinstance(n, ast.FunctionDef) and n.name == meth), None)
    if fn is None:
        raise Shape(f"COO.{meth} not found")
    body = fn.body
    guards = [i for i, s in enumerate(body) if isinstance(s, ast.If) and _mentions_cache(s)]
    if len(guards) != 2:
        raise Shape(f"COO.{meth}: expected exactly two top-level statements using self._cache, found {len(guards)}")
    li, si = guards
    look, store = body[li], body[si]
    # nothing but lookup and store may touch self._cache
    for i, s in enumerate(body):
        if i not in (li, si):
            for n in ast.walk(s):
                if _is_self_cache(n) and not _is_cache_flag_use(s, n):
                    raise Shape(f"COO.{meth}: self._cache used outside lookup/store: {ast.unparse(s)[:80]}")
    guarded_alike = _is_cache_guard(look.test) and _is_cache_guard(store.test) and not look.orelse and not store.orelse
    # ---- lookup:  for k, v in self._cache[slot]: if k == key: return v
    if not (len(look.body) == 1 and isinstance(look.body[0], ast.For)):
        raise Shape(f"COO.{meth}: lookup is not a single for loop")
    loop = look.body[0]
    it = loop.iter
    # the deque itself, or a snapshot of it: tuple(self._cache[...]) / list(...) — same entries, same order
    snapshot = (isinstance(it, ast.Call) and isinstance(it.func, ast.Name) and it.func.id in ("tuple", "list")
                and len(it.args) == 1 and not it.keywords)
    if snapshot:
        it = it.args[0]
    slot_l = _slot_of(it)
    if slot_l is None or loop.orelse:
        raise Shape(f"COO.{meth}: lookup does not iterate self._cache[<const>] (or a tuple()/list() snapshot of it)")
    if not (isinstance(loop.target, ast.Tuple) and len(loop.target.elts) == 2
            and all(isinstance(x, ast.Name) for x in loop.target.elts)):
        raise Shape(f"COO.{meth}: lookup loop target is not a pair of names")
    kvar, vvar = (x.id for x in loop.target.elts)
    if not (len(loop.body) == 1 and isinstance(loop.body[0], ast.If) and not loop.body[0].orelse
            and len(loop.body[0].body) == 1 and isinstance(loop.body[0].body[0], ast.Return)):
        raise Shape(f"COO.{meth}: lookup loop body is not `if <test>: return <x>`")
    test = loop.body[0].test
    ret = loop.body[0].body[0].value
    if not (isinstance(test, ast.Compare) and len(test.ops) == 1):
        raise Shape(f"COO.{meth}: lookup test is not a single comparison")
    sides = [test.left, test.comparators[0]]
    ks = [x for x in sides if kvar in _names(x)]
    other = [x for x in sides if kvar not in _names(x)]
    if len(ks) != 1 or len(other) != 1:
        raise Shape(f"COO.{meth}: lookup test does not compare the entry key with an expression")
    # the entry's key must be compared as a whole (a bare name), with ==
    cmp_eq = isinstance(test.ops[0], ast.Eq) and isinstance(ks[0], ast.Name)
    lookup_key = _key_components(other[0])
    returns_entry_value = isinstance(ret, ast.Name) and ret.id == vvar
    # ---- store:  self._cache[slot].append((key, result))
    if not (len(store.body) == 1 and isinstance(store.body[0], ast.Expr) and isinstance(store.body[0].value, ast.Call)):
        raise Shape(f"COO.{meth}: store is not a single call")
    call = store.body[0].value
    if not (isinstance(call.func, ast.Attribute) and call.func.attr == "append" and len(call.args) == 1
            and not call.keywords and isinstance(call.args[0], ast.Tuple) and len(call.args[0].elts) == 2):
        raise Shape(f"COO.{meth}: store is not .append((key, value))")
    slot_s = _slot_of(call.func.value)
    if slot_s is None:
        raise Shape(f"COO.{meth}: store does not append to self._cache[<const>]")
    skey_e, sval_e = call.args[0].elts
    store_key = _key_components(skey_e)
    # ---- what is returned after the store
    tail = body[si + 1:]
    final_ret = tail[0].value if (len(tail) == 1 and isinstance(tail[0], ast.Return)) else None
    between = body[li + 1:si]
    res_assigns = [s for s in between if isinstance(s, ast.Assign) and len(s.targets) == 1
                   and isinstance(s.targets[0], ast.Name) and isinstance(sval_e, ast.Name)
                   and s.targets[0].id == sval_e.id]
    stores_result = (isinstance(sval_e, ast.Name) and isinstance(final_ret, ast.Name)
                     and final_ret.id == sval_e.id and len(res_assigns) == 1
                     and sval_e.id not in _stored_names([s for s in between if s is not res_assigns[0]] if res_assigns else between))
    if not res_assigns:
        raise Shape(f"COO.{meth}: no assignment of the stored value between lookup and store")
    # ---- result dependencies
    pre = body[:li]
    pre_names = _stored_names(pre) | {a.arg for a in fn.args.args + fn.args.kwonlyargs}
    idx = between.index(res_assigns[0])
    deps = [d for d in _dep_closure(between[:idx], res_assigns[0].value, pre_names) if d != "self"]
    key_names = set(_names(other[0])) | set(_names(skey_e))
    key_stable = not (key_names & _stored_names(between))
    shortcuts_first = not any(isinstance(n, (ast.Return, ast.Raise, ast.Yield, ast.YieldFrom))
                              for s in between for n in ast.walk(s)) and final_ret is not None
    return {
        "slot_lookup": slot_l, "slot_store": slot_s, "lookup_key": lookup_key, "store_key": store_key,
        "result_deps": deps, "cmp_eq": cmp_eq, "returns_entry_value": returns_entry_value,
        "stores_result": stores_result, "key_stable": key_stable, "shortcuts_first": shortcuts_first,
        "guarded_alike": guarded_alike, "lookup_iterates_snapshot": snapshot,
        "source_sha": hashlib.sha256(ast.unparse(fn).encode()).hexdigest()[:12],
    }


def _mentions_cache(s):
    """an If statement that reads or appends to self._cache[...] (not the mere flag `self._cache is not None`
    passed as cache=...)"""
    return any(_slot_of(n) is not None for n in ast.walk(s))


def _is_cache_flag_use(stmt, node):
    """`self._cache is not None` used as a value (cache=self._cache is not None)"""
    for n in ast.walk(stmt):
        if isinstance(n, ast.Compare) and n.left is node:
            return _is_cache_guard(n)
    return False


def extract_attr_memo(cls, meth):
    fn = next((n for n in cls.body if isinstance(n, ast.FunctionDef) and n.name == meth), None)
    if fn is None:
        raise Shape(f"COO.{meth} not found")
    body = [s for s in fn.body if not (isinstance(s, ast.Expr) and isinstance(s.value, ast.Constant))]
    if len(body) != 3:
        raise Shape(f"COO.{meth}: expected guard; if self._cache ...; return")
    g, iff, ret = body
    guard_first = (isinstance(g, ast.Expr) and isinstance(g.value, ast.Call)
                   and ast.unparse(g.value) == "check_zero_fill_value(self)")
    if not (isinstance(iff, ast.If) and _is_cache_guard(iff.test) and isinstance(ret, ast.Return)
            and isinstance(ret.value, ast.Name)):
        raise Shape(f"COO.{meth}: unexpected structure")
    rv = ret.value.id
    cb = iff.body
    if not (len(cb) == 3 and isinstance(cb[0], ast.Try) and isinstance(cb[1], ast.Try) and isinstance(cb[2], ast.Assign)):
        raise Shape(f"COO.{meth}: cached branch is not try/try/assign")

    def self_attr(e):
        if isinstance(e, ast.Attribute) and isinstance(e.value, ast.Name) and e.value.id == "self":
            return e.attr
        return None

    def only_attr_error(t):
        return (len(t.handlers) == 1 and isinstance(t.handlers[0].type, ast.Name)
                and t.handlers[0].type.id == "AttributeError" and len(t.handlers[0].body) == 1
                and isinstance(t.handlers[0].body[0], ast.Pass) and not t.orelse and not t.finalbody)
    t1, t2, asg = cb
    if not (only_attr_error(t1) and only_attr_error(t2)):
        raise Shape(f"COO.{meth}: try blocks do not catch exactly AttributeError")
    if not (len(t1.body) == 1 and isinstance(t1.body[0], ast.Return) and self_attr(t1.body[0].value)):
        raise Shape(f"COO.{meth}: first try is not `return self.<attr>`")
    memo = self_attr(t1.body[0].value)
    if not (len(t2.body) == 2 and isinstance(t2.body[0], ast.Assign) and isinstance(t2.body[1], ast.Return)
            and self_attr(t2.body[0].targets[0]) == memo and self_attr(t2.body[1].value) == memo):
        raise Shape(f"COO.{meth}: second try is not `self.<memo> = ...; return self.<memo>`")
    conv = t2.body[0].value
    if not (isinstance(conv, ast.Call) and isinstance(conv.func, ast.Attribute) and not conv.args and not conv.keywords
            and self_attr(conv.func.value)):
        raise Shape(f"COO.{meth}: conversion is not self.<alt>.<to>()")
    alt = self_attr(conv.func.value)
    tnames = [self_attr(t) or (t.id if isinstance(t, ast.Name) else None) for t in asg.targets]
    if sorted(x or "?" for x in tnames) != sorted([memo, rv]):
        raise Shape(f"COO.{meth}: final cached assignment does not bind self.{memo} and {rv}")
    eb = iff.orelse
    if not (len(eb) == 1 and isinstance(eb[0], ast.Assign) and len(eb[0].targets) == 1
            and isinstance(eb[0].targets[0], ast.Name) and eb[0].targets[0].id == rv):
        raise Shape(f"COO.{meth}: uncached branch is not `{rv} = ...`")
    same = ast.unparse(asg.value) == ast.unparse(eb[0].value)
    return {"memo_attr": memo, "alt_attr": alt, "same_compute": same, "guard_first": guard_first,
            "compute": ast.unparse(asg.value), "convert": ast.unparse(conv),
            "source_sha": hashlib.sha256(ast.unparse(fn).encode()).hexdigest()[:12]}


def extract_maxlen(cls):
    fn = next((n for n in cls.body if isinstance(n, ast.FunctionDef) and n.name == "enable_caching"), None)
    if fn is None:
        raise Shape("COO.enable_caching not found")
    body = [s for s in fn.body if not (isinstance(s, ast.Expr) and isinstance(s.value, ast.Constant))]
    if not (len(body) == 1 and isinstance(body[0], ast.Assign) and _is_self_cache(body[0].targets[0])):
        raise Shape("enable_caching is not a single assignment to self._cache")
    v = body[0].value
    ok = (isinstance(v, ast.Call) and ast.unparse(v.func) == "defaultdict" and len(v.args) == 1
          and isinstance(v.args[0], ast.Lambda) and not v.args[0].args.args
          and isinstance(v.args[0].body, ast.Call) and ast.unparse(v.args[0].body.func) == "deque"
          and not v.args[0].body.args and len(v.args[0].body.keywords) == 1
          and v.args[0].body.keywords[0].arg == "maxlen"
          and isinstance(v.args[0].body.keywords[0].value, ast.Constant)
          and isinstance(v.args[0].body.keywords[0].value.value, int))
    if not ok:
        raise Shape("enable_caching: self._cache is not defaultdict(lambda: deque(maxlen=<int>))")
    return int(v.args[0].body.keywords[0].value.value)


def extract_copy_branch(cls):
    """the copy constructor COO(other_coo[, fill_value=v]): the branch `if isinstance(coords, COO):` of __init__.
    Facts: it starts with the shallow copy of the attribute dict (so _cache, _csr, _csc are inherited), the fill
    branch re-binds fill_value and gives the copy a FRESH cache when the original has one (a copy with another
    fill value must not see results cached for the old one), the plain copy keeps sharing the cache."""
    fn = next((n for n in cls.body if isinstance(n, ast.FunctionDef) and n.name == "__init__"), None)
    if fn is None:
        raise Shape("COO.__init__ not found")
    br = next((s for s in fn.body if isinstance(s, ast.If)
               and ast.unparse(s.test) == f"isinstance({fn.args.args[1].arg}, COO)"), None)
    if br is None or br.orelse:
        raise Shape("COO.__init__: copy branch `if isinstance(coords, COO):` not found")
    first = fn.args.args[1].arg
    body = br.body
    if any(isinstance(n, ast.Attribute) and n.attr in ("_csr", "_csc") for s in body for n in ast.walk(s)):
        raise Shape("COO.__init__ copy branch handles _csr/_csc: not understood")
    shallow = (isinstance(body[0], ast.Expr) and ast.unparse(body[0].value) == f"self._make_shallow_copy_of({first})")
    returns = isinstance(body[-1], ast.Return) and body[-1].value is None

    def is_reset(s):
        return (isinstance(s, ast.If) and _is_cache_guard(s.test) and not s.orelse and len(s.body) == 1
                and isinstance(s.body[0], ast.Expr) and ast.unparse(s.body[0].value) == "self.enable_caching()")

    def touches_cache(s):
        return any(_is_self_cache(n) or (isinstance(n, ast.Attribute) and n.attr == "enable_caching") for n in ast.walk(s))
    fill_ifs = [s for s in body if isinstance(s, ast.If) and ast.unparse(s.test) == "fill_value is not None"]
    if len(fill_ifs) != 1 or fill_ifs[0].orelse:
        raise Shape("COO.__init__ copy branch: expected one `if fill_value is not None:`")
    fb = fill_ifs[0].body
    sets_fill = any(isinstance(s, ast.Assign) and ast.unparse(s.targets[0]) == "self.fill_value"
                    and "fill_value" in _names(s.value) for s in fb)
    fill_resets = any(is_reset(s) for s in fb)
    plain_resets = any(is_reset(s) for s in body)
    # any other use of the cache in the branch is not understood
    for s in body:
        if s is fill_ifs[0]:
            for t in fb:
                if touches_cache(t) and not is_reset(t):
                    raise Shape("COO.__init__ copy branch: unexpected use of the cache in the fill branch")
        elif touches_cache(s) and not is_reset(s):
            raise Shape("COO.__init__ copy branch: unexpected use of the cache")
    return {"copy_branch_shallow_copy": shallow, "copy_branch_returns": returns, "copy_fill_sets_fill_value": sets_fill,
            "copy_fill_resets_cache": fill_resets or plain_resets, "copy_plain_resets_cache": plain_resets,
            "source_sha": hashlib.sha256(ast.unparse(br).encode()).hexdigest()[:12]}


def gen_cache(repo):
    tree = ast.parse(open(os.path.join(repo, CORE)).read())
    cls = next((n for n in tree.body if isinstance(n, ast.ClassDef) and n.name == "COO"), None)
    if cls is None:
        raise Shape("class COO not found")
    maxlen = extract_maxlen(cls)
    memos = {m: extract_memo(cls, m) for m in ("transpose", "reshape")}
    attrs = {m: extract_attr_memo(cls, m) for m in ("tocsr", "tocsc")}
    cpb = extract_copy_branch(cls)
    L = ["(* Gen/S_cache.v — GENERATED by tools/sitegen/alias.py from " + CORE + "; do not edit. *)",
         "From Coq Require Import ZArith List String Bool.", "Import ListNotations.", "Local Open Scope string_scope.", "",
         "(* deque(maxlen=...) in COO.enable_caching *)",
         f"Definition cache_maxlen : Z := {maxlen}%Z.", ""]
    for m, d in memos.items():
        L.append(f"(* COO.{m}  sha {d['source_sha']} *)")
        L.append(f"Definition {m}_slot_lookup : string := {coq_str(d['slot_lookup'])}.")
        L.append(f"Definition {m}_slot_store : string := {coq_str(d['slot_store'])}.")
        L.append(f"Definition {m}_lookup_key : list string := {coq_strs(d['lookup_key'])}.")
        L.append(f"Definition {m}_store_key : list string := {coq_strs(d['store_key'])}.")
        L.append(f"Definition {m}_result_deps : list string := {coq_strs(d['result_deps'])}.")
        for k in ("cmp_eq", "returns_entry_value", "stores_result", "key_stable", "shortcuts_first", "guarded_alike",
                  "lookup_iterates_snapshot"):
            L.append(f"Definition {m}_{k} : bool := {coq_bool(d[k])}.")
        L.append("")
    for m, d in attrs.items():
        L.append(f"(* COO.{m}  sha {d['source_sha']}: compute `{d['compute']}`, convert `{d['convert']}` *)")
        L.append(f"Definition {m}_memo_attr : string := {coq_str(d['memo_attr'])}.")
        L.append(f"Definition {m}_alt_attr : string := {coq_str(d['alt_attr'])}.")
        L.append(f"Definition {m}_same_compute : bool := {coq_bool(d['same_compute'])}.")
        L.append(f"Definition {m}_guard_first : bool := {coq_bool(d['guard_first'])}.")
        L.append("")
    L.append(f"(* COO.__init__, branch `if isinstance(coords, COO):`  sha {cpb['source_sha']} *)")
    for k, v in cpb.items():
        if k != "source_sha":
            L.append(f"Definition {k} : bool := {coq_bool(v)}.")
    L.append("")
    rep = {"cache_protocol": {"status": "ok", "maxlen": maxlen, "copy_branch": cpb, **{m: d for m, d in memos.items()},
                              **{m: d for m, d in attrs.items()}}}
    return "\n".join(L) + "\n", rep


# ============================================================================ part 2: effect summaries
# ---- classification tables (TRUSTED BASE; anything not listed is `unknown -> alias`) ----------------
# attributes whose values are immutable Python/NumPy scalars, tuples, dtypes or strings
IMMUTABLE_ATTRS = {
    "shape", "ndim", "size", "nnz", "dtype", "fill_value", "itemsize", "nbytes", "format", "density",
    "compressed_axes", "_compressed_axes", "_compressed_shape", "_axisptr", "_axis_order", "name", "kind", "type",
    "start", "stop", "step", "__name__", "signature", "nin", "nout", "identity", "value", "device",
}
# memo fields of COO (Part 1 proves them unobservable); reading or mutating them is not an operand effect
MEMO_ATTRS = {"_cache", "_csr", "_csc"}
# fields of the argument objects (index used in `Alias arg field`)
FIELDS = {"coords": 0, "data": 1, "indices": 2, "indptr": 3}
F_WHOLE, F_OBJ = 4, 5

# functions (dotted names) returning objects that share nothing with their arguments
FRESH_FUNCS = {
    # builtins / stdlib returning immutable scalars or new objects not containing the arguments' buffers
    "len", "int", "float", "bool", "complex", "str", "repr", "range", "abs", "isinstance", "issubclass", "hasattr",
    "callable", "id", "hash", "type", "slice", "divmod", "round", "pow", "ord", "chr", "format", "print",
    "max", "min", "sum", "any", "all", "builtins.max", "builtins.min", "builtins.sum", "builtins.any",
    "builtins.all", "builtins.abs", "builtins.round", "math.prod", "math.ceil", "math.floor", "math.isnan",
    "operator.index", "operator.mul", "operator.add", "operator.gt", "operator.lt", "operator.ge", "operator.le",
    "operator.eq", "operator.ne", "operator.sub", "operator.truediv", "operator.floordiv", "operator.neg",
    "warnings.warn", "ValueError", "TypeError", "IndexError", "NotImplementedError", "RuntimeError",
    "AssertionError", "AttributeError", "KeyError", "OverflowError", "ZeroDivisionError",
    "_copy.deepcopy", "copy.deepcopy",
    # NumPy creation / computation: always a new array (or scalar) unless out= is given (handled apart)
    "np.zeros", "np.ones", "np.empty", "np.full", "np.zeros_like", "np.ones_like", "np.empty_like",
    "np.full_like", "np.arange", "np.linspace", "np.eye", "np.identity", "np.indices", "np.copy", "np.array",
    "np.concatenate", "np.stack", "np.vstack", "np.hstack", "np.dstack", "np.column_stack", "np.append",
    "np.insert", "np.delete", "np.repeat", "np.tile", "np.unique", "np.sort", "np.argsort", "np.lexsort",
    "np.searchsorted", "np.cumsum", "np.cumprod", "np.bincount", "np.diff", "np.nonzero", "np.flatnonzero",
    "np.where", "np.argwhere", "np.argmax", "np.argmin", "np.isnan", "np.isinf", "np.isfinite", "np.isposinf",
    "np.isneginf", "np.isin", "np.in1d", "np.setdiff1d", "np.intersect1d", "np.union1d", "np.array_equal",
    "np.ravel_multi_index", "np.unravel_index", "np.prod", "np.sum", "np.any", "np.all", "np.max", "np.min",
    "np.amax", "np.amin", "np.mean", "np.ndim", "np.size", "np.shape", "np.result_type", "np.promote_types",
    "np.can_cast", "np.min_scalar_type", "np.dtype", "np.iinfo", "np.finfo", "np.issubdtype", "np.isscalar",
    "np.broadcast_shapes", "np.digitize", "np.histogram", "np.dot", "np.matmul", "np.tensordot", "np.outer",
    "np.kron", "np.add", "np.subtract", "np.multiply", "np.divide", "np.true_divide", "np.floor_divide",
    "np.mod", "np.remainder", "np.power", "np.negative", "np.absolute", "np.abs", "np.sign", "np.sqrt",
    "np.exp", "np.log", "np.maximum", "np.minimum", "np.logical_and", "np.logical_or", "np.logical_not",
    "np.logical_xor", "np.equal", "np.not_equal", "np.less", "np.greater", "np.less_equal", "np.greater_equal",
    "np.invert", "np.bitwise_and", "np.bitwise_or", "np.bitwise_xor", "np.left_shift", "np.right_shift",
    "np.floor", "np.ceil", "np.rint", "np.trunc", "np.round", "np.around", "np.clip", "np.conj", "np.conjugate",
    "np.angle", "np.count_nonzero", "np.roll", "np.pad", "np.triu_indices", "np.tril_indices", "np.meshgrid",
    "np.fromiter", "np.frombuffer", "np.random.default_rng", "np.intp", "np.int64", "np.int32", "np.uint8",
    "np.uintp", "np.bool_", "np.float64", "np.float32", "np.errstate", "np.nditer", "np.lib.NumpyVersion",
    "np.take", "np.choose", "np.compress", "np.select", "np.trace", "np.nanmax", "np.nanmin", "np.nansum",
    "np.isrealobj", "np.iscomplexobj", "np.iscomplex", "np.isreal", "np.ix_", "np.nan_to_num", "np.packbits",
    "np.cumulative_sum", "np.vecdot", "np.einsum", "np.interp", "np.floor_divide", "np.maximum.reduce",
}
# functions returning (possibly) a view of / the very object of their array arguments
VIEW_FUNCS = {
    "np.asarray", "np.asanyarray", "np.ascontiguousarray", "np.asfortranarray", "np.atleast_1d", "np.atleast_2d",
    "np.atleast_3d", "np.broadcast_to", "np.broadcast_arrays", "np.reshape", "np.ravel", "np.transpose",
    "np.squeeze", "np.expand_dims", "np.swapaxes", "np.moveaxis", "np.rollaxis", "np.flip", "np.fliplr",
    "np.flipud", "np.diagonal", "np.real", "np.imag", "np.split", "np.array_split", "np.lib.stride_tricks.as_strided",
    "np.require", "np.permute_dims", "np.matrix_transpose", "np.rot90", "np.triu", "np.tril", "np.diag",
    # containers / iterators over the arguments' elements
    "list", "tuple", "set", "frozenset", "dict", "sorted", "reversed", "enumerate", "zip", "map", "filter", "iter",
    "next", "chain", "itertools.chain", "itertools.product", "itertools.zip_longest", "reduce", "functools.reduce",
    "getattr", "vars", "_copy.copy", "copy.copy",
}
# methods (by attribute name) whose result shares nothing with the receiver
FRESH_METHODS = {
    "copy", "astype", "sum", "prod", "min", "max", "any", "all", "mean", "std", "var", "cumsum", "cumprod",
    "argsort", "argmax", "argmin", "nonzero", "tolist", "item", "tobytes", "tostring", "dot", "repeat", "take",
    "round", "clip", "conj", "conjugate", "searchsorted", "count", "index", "keys", "format", "join", "split",
    "startswith", "endswith", "lower", "upper", "strip", "replace", "encode", "decode", "bit_length",
    "reduceat", "reduce", "accumulate", "outer", "is_integer", "todense_fresh", "trace", "choose", "compress",
    "intersection", "union", "difference", "issubset", "isdisjoint", "total_seconds",
    "sorted_indices", "toarray",
}
# methods whose result is (possibly) a view of / the receiver itself
VIEW_METHODS = {
    "reshape", "ravel", "transpose", "view", "squeeze", "swapaxes", "diagonal", "newbyteorder", "getfield",
    "values", "items", "get", "pop", "popitem", "setdefault", "__getitem__",
}
# in-place ndarray methods: a Write of the receiver
INPLACE_METHODS = {"sort", "fill", "put", "resize", "partition", "itemset", "setfield", "setflags", "byteswap",
                   # scipy.sparse matrices: these rewrite indptr/indices/data of the receiver in place
                   "sum_duplicates", "sort_indices", "eliminate_zeros", "prune", "setdiag", "check_format"}
SCIPY_INPLACE = {"sum_duplicates", "sort_indices", "eliminate_zeros", "prune", "setdiag"}
# list/dict/set/deque mutators: the container now reaches the arguments; a Write of the container object
CONTAINER_MUTATORS = {"append", "extend", "insert", "add", "update", "remove", "clear", "reverse", "discard",
                      "appendleft", "extendleft", "pop", "popitem", "setdefault"}
# free functions writing their first argument
WRITE_FIRST_ARG = {"np.copyto", "np.put", "np.place", "np.putmask", "np.fill_diagonal", "np.put_along_axis"}
# calls that certainly yield an ndarray of >= 1 dimensions: indexing with them is advanced indexing (a copy)
INDEX_PRODUCERS = {"np.argsort", "np.nonzero", "np.flatnonzero", "np.arange", "np.lexsort", "np.array", "np.where",
                   "np.unique", "np.concatenate", "np.zeros", "np.ones", "np.empty", "np.full", "np.cumsum",
                   "np.repeat", "np.tile", "np.searchsorted", "np.isnan", "np.logical_and", "np.logical_or",
                   "np.logical_not", "np.isin", "np.append", "np.sort", "np.diff", "np.asarray"}
CONTAINER_FUNCS = {"list", "tuple", "set", "frozenset", "dict", "sorted", "reversed", "enumerate", "zip", "map",
                   "filter", "chain", "itertools.chain", "itertools.product", "itertools.zip_longest",
                   "defaultdict", "deque", "OrderedDict"}
# classes whose names do not start with an upper-case letter
CONSTRUCTORS = {"scipy.sparse.coo_matrix", "scipy.sparse.csr_matrix", "scipy.sparse.csc_matrix",
                "scipy.sparse.coo_array", "scipy.sparse.csr_array", "scipy.sparse.csc_array",
                "defaultdict", "deque", "OrderedDict"}
# reductions are methods of the sparse classes too: their results come from the return summaries, not from the
# ndarray table, so that a reduction returning its receiver is seen where the library writes into the result
REDUCTION_NAMES = {"sum", "max", "min", "prod", "mean", "var", "std", "any", "all", "reduce"}
CTOR_SELF = {"__init__", "__new__", "__setstate__", "__init_subclass__"}


def dotted(e):
    if isinstance(e, ast.Name):
        return e.id
    if isinstance(e, ast.Attribute):
        b = dotted(e.value)
        return None if b is None else b + "." + e.attr
    return None


def norm_dotted(n):
    if n is None:
        return None
    for p in ("numpy.",):
        if n.startswith(p):
            n = "np." + n[len(p):]
    return n


class AV:
    """abstract value: atoms it may reach; tups[k] = per-position atoms when it is a k-tuple"""
    __slots__ = ("flat", "tups")

    def __init__(self, flat=(), tups=None):
        self.flat = set(flat)
        self.tups = tups or {}

    def all(self):
        s = set(self.flat)
        for els in self.tups.values():
            for e in els:
                s |= e
        return s

    @staticmethod
    def join(*avs):
        r = AV()
        for a in avs:
            r.flat |= a.flat
            for k, els in a.tups.items():
                if k in r.tups:
                    r.tups[k] = [x | y for x, y in zip(r.tups[k], els, strict=True)]
                else:
                    r.tups[k] = [set(x) for x in els]
        return r


FRESH = AV


class FnRec:
    def __init__(self, path, cls, node, anchored):
        self.path, self.cls, self.node, self.anchored = path, cls, node, anchored
        self.name = node.name
        self.qual = f"{os.path.relpath(path)}:{(cls + '.') if cls else ''}{node.name}"
        a = node.args
        self.params = [x.arg for x in a.posonlyargs + a.args]
        self.vararg = a.vararg.arg if a.vararg else None
        self.kwonly = [x.arg for x in a.kwonlyargs]
        self.kwarg = a.kwarg.arg if a.kwarg else None
        self.all_params = self.params + ([self.vararg] if self.vararg else []) + self.kwonly + \
            ([self.kwarg] if self.kwarg else [])
        decos = {norm_dotted(dotted(d.func if isinstance(d, ast.Call) else d)) for d in node.decorator_list}
        self.static = "staticmethod" in decos
        self.is_method = cls is not None and not self.static
        self.entry = False      # decided by collect(): part of the public API or not
        # summaries (grow monotonically during the global fixpoint)
        self.writes = {}      # (param index, level) -> origin is in an anchored file (bool)
        self.ret = {"b": AV(), "o": AV()}    # atoms are parameter indices
        self.stmts = []
        self.nvars = 0
        self.write_info = []


class Analyzer:
    def __init__(self, rec, G):
        self.r, self.G = rec, G
        self.stmts = []
        self.nv = 0
        self.cur = {}          # (name, level) -> var
        self.kind = {}         # var -> 'container' | 'index' | None
        self.tups = {}         # var -> tups dict (level b only)
        self.param_var = {}    # var -> param index (initial binding of a parameter, level b)
        self.collapse = set()  # names whose assignments are weak updates
        self.returns = []      # [(AV b, AV o)]
        self.in_nested = 0
        self.write_info = []   # (var, level, line, text, origin_anchored)
        self.foreign_writes = 0

    # ---- variables and statements
    def fresh_var(self):
        v = self.nv
        self.nv += 1
        return v

    def emit_bind(self, v, atoms):
        if not atoms:
            self.stmts.append(("B", v, ("F",)))
        for a in sorted(atoms, key=repr):
            if a[0] == "v":
                if a[1] != v:
                    self.stmts.append(("B", v, ("V", a[1])))
            else:
                self.stmts.append(("B", v, ("A", a[1], a[2])))

    def emit_write(self, atoms, level, node, what, origin=None):
        v = self.fresh_var()
        self.emit_bind(v, atoms)
        self.stmts.append(("W", v))
        self.write_info.append((v, level, getattr(node, "lineno", 0), what,
                                self.r.anchored if origin is None else origin))

    def setvar(self, name, level, atoms, kind=None, tups=None):
        key = (name, level)
        if name in self.collapse and key in self.cur:
            v = self.cur[key]
            self.emit_bind(v, atoms)      # the kind was fixed by enter_collapse from all assignments
            return v
        v = self.fresh_var()
        self.emit_bind(v, atoms)
        self.cur[key] = v
        self.kind[v] = kind
        if tups and level == "b":
            self.tups[v] = tups      # (atoms of the non-tuple part, per-arity element atoms)
        return v

    def assign_name(self, name, vb, vo, kind=None):
        self.setvar(name, "b", vb.all(), kind, (set(vb.flat), vb.tups) if (vb.tups and name not in self.collapse) else None)
        self.setvar(name, "o", vo.all(), None)

    # ---- entry
    def run(self):
        r = self.r
        for i, p in enumerate(r.all_params):
            is_out = (p == "out")
            ctor_self = (i == 0 and r.is_method and r.name in CTOR_SELF)
            star = p in (r.vararg, r.kwarg)
            vb = self.fresh_var()
            self.emit_bind(vb, set() if (is_out or ctor_self) else {("a", i, F_WHOLE)})
            self.cur[(p, "b")] = vb
            self.kind[vb] = "container" if star else None
            if not is_out and not star and not ctor_self:
                self.param_var[vb] = i
            vo = self.fresh_var()
            self.emit_bind(vo, set() if (is_out or ctor_self or star) else {("a", i, F_OBJ)})
            self.cur[(p, "o")] = vo
        self.block(r.node.body)
        return self

    # ---- statements
    def assigned_names(self, stmts):
        out = set()
        for s in stmts:
            for n in ast.walk(s):
                if isinstance(n, ast.Name) and isinstance(n.ctx, ast.Store):
                    out.add(n.id)
                elif isinstance(n, (ast.FunctionDef, ast.AsyncFunctionDef)):
                    out.add(n.name)
            for n in ast.walk(s):
                if isinstance(n, ast.comprehension):
                    out -= {x.id for x in ast.walk(n.target) if isinstance(x, ast.Name)}
        return out

    def syn_kind(self, e):
        """kind of a value that is certain from its syntax alone"""
        if isinstance(e, (ast.List, ast.Tuple, ast.Dict, ast.Set, ast.ListComp, ast.SetComp, ast.DictComp,
                          ast.GeneratorExp)):
            return "container"
        if isinstance(e, ast.Compare) and all(isinstance(o, (ast.Eq, ast.NotEq, ast.Lt, ast.LtE, ast.Gt, ast.GtE))
                                              for o in e.ops):
            return "index"
        if isinstance(e, ast.Call):
            n = norm_dotted(dotted(e.func))
            if n in CONTAINER_FUNCS:
                return "container"
            if n in INDEX_PRODUCERS:
                return "index"
            if n in FRESH_FUNCS and n.startswith("np."):
                return "array"
        if isinstance(e, (ast.BinOp, ast.UnaryOp)):
            return "array"
        return None

    def enter_collapse(self, stmts):
        """names assigned inside a loop / try / closure get ONE variable each for the whole construct
        (every assignment is a weak update).  Its kind is the kind every assignment agrees on."""
        names = self.assigned_names(stmts) - self.collapse
        votes = {n: set() for n in names}
        for s in stmts:
            for n in ast.walk(s):
                if isinstance(n, ast.Assign) and all(isinstance(t, ast.Name) for t in n.targets):
                    for t in n.targets:
                        if t.id in votes:
                            votes[t.id].add(self.syn_kind(n.value))
                elif isinstance(n, ast.Name) and isinstance(n.ctx, ast.Store) and n.id in votes:
                    votes[n.id].add("?")
        for n in sorted(names):
            # every Store occurrence voted "?" once; plain `name = value` assignments voted their kind too
            nstores = sum(1 for s in stmts for x in ast.walk(s)
                          if isinstance(x, ast.Name) and isinstance(x.ctx, ast.Store) and x.id == n)
            nplain = sum(1 for s in stmts for x in ast.walk(s) if isinstance(x, ast.Assign)
                         and all(isinstance(t, ast.Name) for t in x.targets) for t in x.targets if t.id == n)
            ks = votes[n] - {"?"}
            kind = None
            if nstores == nplain and len(ks) == 1:
                kind = next(iter(ks))
            for lv in ("b", "o"):
                old = self.cur.get((n, lv))
                v = self.fresh_var()
                if old is not None:
                    self.emit_bind(v, {("v", old)})
                    if lv == "b" and self.kind.get(old) != kind:
                        kind = None
                self.kind[v] = kind if lv == "b" else None
                self.cur[(n, lv)] = v
        self.collapse |= names
        return names

    def leave_collapse(self, names):
        self.collapse -= names

    def setvar_collapsed_kind(self, v, kind):
        pass

    def join_envs(self, envs):
        keys = set()
        for e in envs:
            keys |= set(e)
        out = {}
        for k in sorted(keys):
            vs = [e[k] for e in envs if k in e]
            if len(set(vs)) == 1:
                out[k] = vs[0]
            else:
                v = self.fresh_var()
                self.emit_bind(v, {("v", x) for x in set(vs)})
                ks = {self.kind.get(x) for x in vs}
                self.kind[v] = ks.pop() if len(ks) == 1 else None
                out[k] = v
        return out

    def block(self, stmts):
        for s in stmts:
            self.stmt(s)

    def stmt(self, s):
        if isinstance(s, ast.Assign):
            vb, vo, kind = self.ev(s.value)
            for t in s.targets:
                self.assign_target(t, vb, vo, kind, s)
        elif isinstance(s, ast.AnnAssign):
            if s.value is not None:
                vb, vo, kind = self.ev(s.value)
                self.assign_target(s.target, vb, vo, kind, s)
        elif isinstance(s, ast.AugAssign):
            self.ev(s.value)
            t = s.target
            if isinstance(t, ast.Name):
                v = self.cur.get((t.id, "b"))
                if v is not None and self.kind.get(v) != "container":
                    self.emit_write({("v", v)}, "b", s, ast.unparse(s))
            elif isinstance(t, ast.Subscript):
                bb, bo, bk = self.ev(t.value)
                self.ev(t.slice)
                if bk != "container":
                    self.emit_write(bb.all(), "b", s, ast.unparse(s))
            elif isinstance(t, ast.Attribute):
                tb, to, _k = self.ev(t)
                self.emit_write(tb.all(), "b", s, ast.unparse(s))
                self.attr_store(t, FRESH(), FRESH(), s)
            else:
                raise Shape(f"augmented assignment target {ast.dump(t)[:60]}")
        elif isinstance(s, ast.Delete):
            for t in s.targets:
                if isinstance(t, ast.Subscript):
                    bb, bo, bk = self.ev(t.value)
                    self.ev(t.slice)
                    if bk != "container":
                        self.emit_write(bb.all(), "b", s, ast.unparse(s))
                    else:
                        self.emit_write(bo.all(), "o", s, ast.unparse(s))
                elif isinstance(t, ast.Attribute):
                    self.attr_store(t, FRESH(), FRESH(), s)
        elif isinstance(s, (ast.For, ast.AsyncFor)):
            ib, io, _k = self.ev(s.iter)
            names = self.enter_collapse([s])
            self.assign_target(s.target, AV(ib.all()), AV(io.all()), None, s)
            self.block(s.body)          # one pass suffices: the closure the checker computes ignores order
            self.block(s.orelse)
            self.leave_collapse(names)
        elif isinstance(s, ast.While):
            names = self.enter_collapse([s])
            self.ev(s.test)
            self.block(s.body)
            self.block(s.orelse)
            self.leave_collapse(names)
        elif isinstance(s, ast.If):
            self.ev(s.test)
            base = dict(self.cur)
            self.block(s.body)
            e1 = self.cur
            self.cur = dict(base)
            self.block(s.orelse)
            e2 = self.cur
            self.cur = self.join_envs([e1, e2])
        elif isinstance(s, (ast.With, ast.AsyncWith)):
            for it in s.items:
                vb, vo, kind = self.ev(it.context_expr)
                if it.optional_vars is not None:
                    self.assign_target(it.optional_vars, vb, vo, kind, s)
            self.block(s.body)
        elif isinstance(s, ast.Try) or type(s).__name__ == "TryStar":
            names = self.enter_collapse([s])
            self.block(s.body)
            for h in s.handlers:
                if h.name:
                    self.assign_name(h.name, FRESH(), FRESH())
                self.block(h.body)
            self.block(s.orelse)
            self.block(s.finalbody)
            self.leave_collapse(names)
        elif isinstance(s, ast.Return):
            if s.value is not None:
                vb, vo, _k = self.ev(s.value)
                if not self.in_nested:
                    self.returns.append((vb, vo))
        elif isinstance(s, ast.Expr):
            self.ev(s.value)
        elif isinstance(s, ast.Raise):
            if s.exc is not None:
                self.ev(s.exc)
            if s.cause is not None:
                self.ev(s.cause)
        elif isinstance(s, ast.Assert):
            self.ev(s.test)
            if s.msg is not None:
                self.ev(s.msg)
        elif isinstance(s, (ast.FunctionDef, ast.AsyncFunctionDef)):
            self.nested_function(s.args, s.body, s.name)
        elif isinstance(s, (ast.Import, ast.ImportFrom, ast.Pass, ast.Break, ast.Continue, ast.Global, ast.Nonlocal)):
            pass
        elif isinstance(s, ast.ClassDef):
            pass
        else:
            raise Shape(f"{self.r.qual}: unsupported statement {type(s).__name__}")

    def nested_function(self, args, body, name):
        """a closure: analysed in place; its parameters may be anything the enclosing function can reach"""
        saved = dict(self.cur)
        everything_b = {("v", self.cur[(p, "b")]) for p in self.r.all_params if (p, "b") in self.cur}
        everything_o = {("v", self.cur[(p, "o")]) for p in self.r.all_params if (p, "o") in self.cur}
        # the body runs whenever the closure is called: weak updates for whatever it assigns
        for a in args.posonlyargs + args.args + args.kwonlyargs + ([args.vararg] if args.vararg else []) + \
                ([args.kwarg] if args.kwarg else []):
            if a.arg == "out":
                self.setvar_local(a.arg, set(), set())
            else:
                self.setvar_local(a.arg, everything_b, everything_o)
        self.in_nested += 1
        if isinstance(body, list):
            names = self.enter_collapse(body)
            self.block(body)
            self.leave_collapse(names)
        else:
            self.ev(body)
        self.in_nested -= 1
        self.cur = saved
        if name:
            self.assign_name(name, FRESH(), FRESH())

    def setvar_local(self, name, ab, ao):
        vb = self.fresh_var()
        self.emit_bind(vb, ab)
        self.cur[(name, "b")] = vb
        self.kind[vb] = None
        vo = self.fresh_var()
        self.emit_bind(vo, ao)
        self.cur[(name, "o")] = vo

    # ---- assignment targets
    def assign_target(self, t, vb, vo, kind, node):
        if isinstance(t, ast.Name):
            self.assign_name(t.id, vb, vo, kind)
        elif isinstance(t, (ast.Tuple, ast.List)):
            k = len(t.elts)
            starred = any(isinstance(x, ast.Starred) for x in t.elts)
            if not starred and k in vb.tups:
                for i, x in enumerate(t.elts):
                    self.assign_target(x, AV(vb.tups[k][i] | vb.flat), AV(vo.all()), None, node)
            else:
                for x in t.elts:
                    self.assign_target(x, AV(vb.all()), AV(vo.all()), None, node)
        elif isinstance(t, ast.Starred):
            self.assign_target(t.value, AV(vb.all()), AV(vo.all()), "container", node)
        elif isinstance(t, ast.Attribute):
            self.attr_store(t, vb, vo, node)
        elif isinstance(t, ast.Subscript):
            bb, bo, bk = self.ev(t.value)
            self.ev(t.slice)
            if bk == "container":
                # the container now reaches the stored value
                for a in bb.all():
                    if a[0] == "v":
                        self.emit_bind(a[1], vb.all() or set()) if vb.all() else None
                for a in bo.all():
                    if a[0] == "v" and vo.all():
                        self.emit_bind(a[1], vo.all())
            else:
                self.emit_write(bb.all(), "b", node, ast.unparse(node)[:120])
        else:
            raise Shape(f"{self.r.qual}: assignment target {type(t).__name__}")

    def attr_store(self, t, vb, vo, node):
        """o.attr = value : o now reaches the value's buffers; o's observable attributes change
        unless attr is a memo field"""
        ob, oo, _k = self.ev(t.value)
        for a in ob.all():
            if a[0] == "v" and vb.all():
                self.emit_bind(a[1], vb.all())
        if t.attr not in MEMO_ATTRS:
            self.emit_write(oo.all(), "o", node, ast.unparse(node)[:120])

    # ---- expressions: returns (AV at buffer level, AV at object level, kind)
    def ev(self, e):
        m = getattr(self, "ev_" + type(e).__name__, None)
        if m is None:
            raise Shape(f"{self.r.qual}: unsupported expression {type(e).__name__}")
        return m(e)

    def ev_Constant(self, e):
        return FRESH(), FRESH(), None

    def ev_JoinedStr(self, e):
        for v in e.values:
            self.ev(v)
        return FRESH(), FRESH(), None

    def ev_FormattedValue(self, e):
        self.ev(e.value)
        return FRESH(), FRESH(), None

    def ev_Name(self, e):
        vb = self.cur.get((e.id, "b"))
        vo = self.cur.get((e.id, "o"))
        if vb is None:
            return FRESH(), FRESH(), None
        if vb in self.tups:
            flat0, tups = self.tups[vb]
            return AV(flat0, tups), AV({("v", vo)}), self.kind.get(vb)
        return AV({("v", vb)}), AV({("v", vo)}), self.kind.get(vb)

    def ev_Attribute(self, e):
        bb, bo, bk = self.ev(e.value)
        if e.attr in IMMUTABLE_ATTRS or e.attr in MEMO_ATTRS:
            return FRESH(), FRESH(), None
        if e.attr == "__dict__":
            return AV(bb.all()), AV(bo.all()), "container"
        # field of an untouched parameter: name the field
        if isinstance(e.value, ast.Name):
            v = self.cur.get((e.value.id, "b"))
            if v in self.param_var and e.attr in FIELDS:
                return AV({("a", self.param_var[v], FIELDS[e.attr])}), AV(bo.all()), None
        return AV(bb.all()), AV(bo.all()), None

    def is_fancy(self, ix):
        if isinstance(ix, ast.Tuple):
            return any(self.is_fancy(x) for x in ix.elts)
        if isinstance(ix, (ast.List, ast.ListComp, ast.Compare)):
            return True
        if isinstance(ix, ast.UnaryOp) and isinstance(ix.op, ast.Invert):
            return self.is_fancy(ix.operand)
        if isinstance(ix, ast.BinOp) and isinstance(ix.op, (ast.BitAnd, ast.BitOr, ast.BitXor)):
            return self.is_fancy(ix.left) or self.is_fancy(ix.right)
        if isinstance(ix, ast.Name):
            v = self.cur.get((ix.id, "b"))
            return v is not None and self.kind.get(v) == "index"
        if isinstance(ix, ast.Call):
            return norm_dotted(dotted(ix.func)) in INDEX_PRODUCERS
        return False

    def ev_Subscript(self, e):
        bb, bo, bk = self.ev(e.value)
        self.ev(e.slice)
        if isinstance(e.slice, ast.Constant) and e.slice.value == "out":
            return FRESH(), FRESH(), None
        if bb.tups and isinstance(e.slice, ast.Constant) and isinstance(e.slice.value, int):
            i = e.slice.value
            at = set(bb.flat)
            for k, els in bb.tups.items():
                if -k <= i < k:
                    at |= els[i]
            return AV(at), AV(bo.all()), None
        if bk != "container" and self.is_fancy(e.slice):
            return FRESH(), AV(bo.all()), None
        return AV(bb.all()), AV(bo.all()), None

    def ev_Slice(self, e):
        for x in (e.lower, e.upper, e.step):
            if x is not None:
                self.ev(x)
        return FRESH(), FRESH(), None

    def ev_Starred(self, e):
        vb, vo, k = self.ev(e.value)
        return AV(vb.all()), AV(vo.all()), k

    def ev_BinOp(self, e):
        lb, lo, lk = self.ev(e.left)
        rb, ro, rk = self.ev(e.right)
        if isinstance(e.op, (ast.Add, ast.Mult)) and "container" in (lk, rk):
            return AV(lb.all() | rb.all()), AV(lo.all() | ro.all()), "container"
        kind = "index" if (lk == "index" or rk == "index") and isinstance(e.op, (ast.BitAnd, ast.BitOr, ast.BitXor)) else "array"
        return FRESH(), FRESH(), kind

    def ev_UnaryOp(self, e):
        _b, _o, k = self.ev(e.operand)
        return FRESH(), FRESH(), ("index" if isinstance(e.op, ast.Invert) and k == "index" else None)

    def ev_Compare(self, e):
        self.ev(e.left)
        for c in e.comparators:
            self.ev(c)
        # a comparison of arrays is a boolean mask; of scalars a bool: indexing with either copies
        elementwise = all(isinstance(o, (ast.Eq, ast.NotEq, ast.Lt, ast.LtE, ast.Gt, ast.GtE)) for o in e.ops)
        return FRESH(), FRESH(), ("index" if elementwise else None)

    def ev_BoolOp(self, e):
        rs = [self.ev(v) for v in e.values]
        ks = {r[2] for r in rs}
        return AV.join(*[r[0] for r in rs]), AV.join(*[r[1] for r in rs]), (ks.pop() if len(ks) == 1 else None)

    def ev_IfExp(self, e):
        self.ev(e.test)
        a = self.ev(e.body)
        b = self.ev(e.orelse)
        return AV.join(a[0], b[0]), AV.join(a[1], b[1]), (a[2] if a[2] == b[2] else None)

    def _seq(self, e):
        rs = [self.ev(x) for x in e.elts]
        starred = any(isinstance(x, ast.Starred) for x in e.elts)
        allb = set()
        allo = set()
        for r in rs:
            allb |= r[0].all()
            allo |= r[1].all()
        if starred or not rs:
            return AV(allb), AV(allo), "container"
        return AV((), {len(rs): [r[0].all() for r in rs]}), AV(allo), "container"

    ev_Tuple = _seq
    ev_List = _seq

    def ev_Set(self, e):
        rs = [self.ev(x) for x in e.elts]
        return AV(set().union(*[r[0].all() for r in rs]) if rs else ()), \
            AV(set().union(*[r[1].all() for r in rs]) if rs else ()), "container"

    def ev_Dict(self, e):
        ab, ao = set(), set()
        for k, v in zip(e.keys, e.values, strict=True):
            if k is not None:
                self.ev(k)
            r = self.ev(v)
            ab |= r[0].all()
            ao |= r[1].all()
        return AV(ab), AV(ao), "container"

    def _comp(self, e, elts):
        saved = dict(self.cur)
        for g in e.generators:
            ib, io, _k = self.ev(g.iter)
            for n in ast.walk(g.target):
                if isinstance(n, ast.Name):
                    self.setvar_local(n.id, ib.all(), io.all())
            for c in g.ifs:
                self.ev(c)
        ab, ao = set(), set()
        for x in elts:
            r = self.ev(x)
            ab |= r[0].all()
            ao |= r[1].all()
        self.cur = saved
        return AV(ab), AV(ao), "container"

    def ev_ListComp(self, e):
        return self._comp(e, [e.elt])

    ev_SetComp = ev_ListComp
    ev_GeneratorExp = ev_ListComp

    def ev_DictComp(self, e):
        return self._comp(e, [e.key, e.value])

    def ev_Lambda(self, e):
        self.nested_function(e.args, e.body, None)
        return FRESH(), FRESH(), None

    def ev_NamedExpr(self, e):
        vb, vo, k = self.ev(e.value)
        self.assign_name(e.target.id, vb, vo, k)
        return vb, vo, k

    def ev_Await(self, e):
        return self.ev(e.value)

    def ev_Yield(self, e):
        if e.value is not None:
            return self.ev(e.value)
        return FRESH(), FRESH(), None

    ev_YieldFrom = ev_Await

    # ---- calls
    def ev_Call(self, e):
        f = e.func
        name = norm_dotted(dotted(f))
        recv = None
        if isinstance(f, ast.Attribute):
            recv = self.ev(f.value)
        elif not isinstance(f, ast.Name):
            self.ev(f)
        args = [self.ev(a) for a in e.args]
        kws = [(k.arg, self.ev(k.value), k.value) for k in e.keywords]
        every_b = set().union(*[a[0].all() for a in args], *[k[1][0].all() for k in kws]) if (args or kws) else set()
        every_o = set().union(*[a[1].all() for a in args], *[k[1][1].all() for k in kws]) if (args or kws) else set()
        meth = f.attr if isinstance(f, ast.Attribute) else None
        # ---------------- effects
        for kn, kv, knode in kws:
            if kn == "out" and kv[0].all():
                self.emit_write(kv[0].all(), "b", e, "out= in " + ast.unparse(e)[:100])
        if name in WRITE_FIRST_ARG and args:
            self.emit_write(args[0][0].all(), "b", e, ast.unparse(e)[:100])
        if meth == "at" and name and name.startswith("np.") and args:
            self.emit_write(args[0][0].all(), "b", e, ast.unparse(e)[:100])
        if name == "setattr" and args:
            self.emit_write(args[0][1].all(), "o", e, ast.unparse(e)[:100])
        if recv is not None and meth in INPLACE_METHODS and recv[2] != "container":
            self.emit_write(recv[0].all(), "b", e, "in-place method " + ast.unparse(e)[:100])
        if recv is not None and meth in CONTAINER_MUTATORS:
            if recv[2] == "container":
                for a in recv[0].all():
                    if a[0] == "v" and every_b:
                        self.emit_bind(a[1], every_b)
                for a in recv[1].all():
                    if a[0] == "v" and every_o:
                        self.emit_bind(a[1], every_o)
            elif not (meth in ("pop", "get", "setdefault", "update") and isinstance(f.value, ast.Name)
                      and f.value.id == self.r.kwarg):
                self.emit_write(recv[1].all(), "o", e, "container mutation " + ast.unparse(e)[:100])
        # ---------------- out-target exemption:  kwargs.pop("out", ...) / kwargs.get("out") / kwargs["out"]
        if meth in ("pop", "get") and e.args and isinstance(e.args[0], ast.Constant) and e.args[0].value == "out":
            return FRESH(), FRESH(), None
        # ---------------- tables
        if name in FRESH_FUNCS or (name and name.startswith("np.") and name.split(".")[-1] in ("reduce", "reduceat", "accumulate", "outer")):
            kind = "index" if name in INDEX_PRODUCERS else ("array" if name.startswith("np.") else None)
            if name == "np.array" and any(k[0] == "copy" for k in kws):
                return AV(every_b), FRESH(), kind
            return FRESH(), FRESH(), kind
        if name in VIEW_FUNCS:
            cont = name in CONTAINER_FUNCS
            kind = "container" if cont else ("index" if name in INDEX_PRODUCERS else None)
            return AV(every_b), AV(every_o), kind
        if recv is not None and not (meth in REDUCTION_NAMES and self.G.by_name.get(meth)):
            if meth in FRESH_METHODS:
                shallow = (meth == "copy" and (recv[2] == "container"
                                               or any(k[0] == "deep" for k in kws) or args))
                noview = (meth == "astype" and any(k[0] == "copy" for k in kws))
                if shallow or noview:
                    return AV(recv[0].all()), (AV(recv[1].all()) if noview else FRESH()), recv[2] if shallow else None
                return FRESH(), FRESH(), ("index" if meth in ("argsort", "nonzero") else None)
            if meth in VIEW_METHODS:
                return AV(recv[0].all() | (every_b if meth in ("setdefault",) else set())), AV(recv[1].all()), None
            if meth in INPLACE_METHODS or meth in CONTAINER_MUTATORS:
                return FRESH(), FRESH(), None
        # ---------------- functions of the package, by simple name
        simple = meth if isinstance(f, ast.Attribute) else (f.id if isinstance(f, ast.Name) else None)
        cands = self.G.by_name.get(simple, []) if simple else []
        if isinstance(f, ast.Name) and (f.id, "b") in self.cur:
            cands = []          # a local callable (parameter, closure): unknown
        if cands:
            rb, ro = AV(), AV()
            for c in cands:
                amap = self.bind_actuals(c, e, recv, args, kws, isinstance(f, ast.Attribute))
                for (pi, lv), origin in c.writes.items():
                    if not c.anchored:
                        self.foreign_writes += 1     # out of scope: the callee is not in an anchored file
                        continue
                    at = amap.get(pi)
                    if at is None:
                        continue
                    atoms = at[0].all() if lv == "b" else at[1].all()
                    if atoms:
                        self.emit_write(atoms, lv, e, f"via {c.qual} (writes parameter {c.all_params[pi]}): "
                                        + ast.unparse(e)[:80], origin)
                for lv, acc in (("b", rb), ("o", ro)):
                    s = c.ret[lv]
                    j = 0 if lv == "b" else 1
                    for pi in s.flat:
                        if pi in amap:
                            acc.flat |= amap[pi][j].all()
                    for k, els in s.tups.items():
                        new = [set().union(*[amap[pi][j].all() for pi in el if pi in amap]) if el else set() for el in els]
                        if k in acc.tups:
                            acc.tups[k] = [x | y for x, y in zip(acc.tups[k], new, strict=True)]
                        else:
                            acc.tups[k] = new
            return rb, ro, None
        # ---------------- constructors: a new object that holds its arguments' buffers
        if name in CONSTRUCTORS:
            return AV(every_b), FRESH(), ("container" if name in CONTAINER_FUNCS else None)
        if isinstance(f, ast.Name) and (f.id[:1].isupper() or f.id == "cls"):
            return AV(every_b), FRESH(), None
        if isinstance(f, ast.Call) and norm_dotted(dotted(f.func)) == "type":
            return AV(every_b), FRESH(), None
        if isinstance(f, ast.Attribute) and (f.attr[:1].isupper() or f.attr == "__class__"):
            return AV(every_b), FRESH(), None
        # ---------------- unknown -> alias of the receiver and of every argument
        rb = every_b | (recv[0].all() if recv else set())
        ro = every_o | (recv[1].all() if recv else set())
        return AV(rb), AV(ro), None

    def bind_actuals(self, c, call, recv, args, kws, via_attr):
        """callee parameter index -> (AV b, AV o) of the actual argument"""
        amap = {}

        def put(i, v):
            if i in amap:
                amap[i] = (AV.join(amap[i][0], v[0]), AV.join(amap[i][1], v[1]))
            else:
                amap[i] = (v[0], v[1])
        npos = len(c.params)
        pos = []
        if via_attr and c.is_method and recv is not None:
            pos.append(recv)
        stars = []
        for a, node in zip(args, call.args, strict=True):
            if isinstance(node, ast.Starred):
                stars.append(a)
            else:
                pos.append(a)
        for i, a in enumerate(pos):
            if i < npos:
                put(i, a)
            elif c.vararg:
                put(c.all_params.index(c.vararg), a)
        for kn, kv, _node in kws:
            if kn is None:
                stars.append(kv)
            elif kn in c.all_params and kn not in (c.vararg, c.kwarg):
                put(c.all_params.index(kn), kv)
            elif c.kwarg:
                put(c.all_params.index(c.kwarg), kv)
        for s in stars:
            for i in range(len(c.all_params)):
                if i not in amap or c.all_params[i] in (c.vararg, c.kwarg):
                    put(i, s)
        return amap


class Globals:
    def __init__(self):
        self.recs = []
        self.by_name = {}
        self.modules_funcs = set()


def collect(repo):
    G = Globals()
    root = os.path.join(repo, PKG)
    anchored = {os.path.normpath(os.path.join(repo, p)) for p in ANCHORED}
    for dp, dn, fns in os.walk(root):
        dn[:] = [d for d in dn if d not in ("tests", "__pycache__")]
        for fn in sorted(fns):
            if not fn.endswith(".py"):
                continue
            path = os.path.normpath(os.path.join(dp, fn))
            tree = ast.parse(open(path).read())
            rel = os.path.relpath(path, repo)
            for node in tree.body:
                if isinstance(node, (ast.FunctionDef, ast.AsyncFunctionDef)):
                    G.recs.append(FnRec(rel, None, node, path in anchored))
                elif isinstance(node, ast.ClassDef):
                    for sub in node.body:
                        if isinstance(sub, (ast.FunctionDef, ast.AsyncFunctionDef)):
                            G.recs.append(FnRec(rel, node.name, sub, path in anchored))
    # ---- which functions are operations of the public API (obligations); the rest are helpers whose
    # writes are re-emitted at their call sites:
    #   module-level functions named in numba_backend/__init__.__all__,
    #   public and dunder methods of SparseArray and of its (transitive) subclasses,
    #   functions bound as such a method in a class body (`__getitem__ = getitem`).
    init = ast.parse(open(os.path.join(root, "__init__.py")).read())
    exported = None
    for node in init.body:
        if isinstance(node, ast.Assign) and any(isinstance(t, ast.Name) and t.id == "__all__" for t in node.targets):
            if not isinstance(node.value, (ast.List, ast.Tuple)) or not all(isinstance(x, ast.Constant) for x in node.value.elts):
                raise Shape("__all__ is not a literal list")
            exported = {x.value for x in node.value.elts}
    if exported is None:
        raise Shape("numba_backend/__init__.py has no __all__")
    bases, aliases = {}, {}
    for dp, dn, fns in os.walk(root):
        dn[:] = [d for d in dn if d not in ("tests", "__pycache__")]
        for fn in sorted(fns):
            if fn.endswith(".py"):
                tree = ast.parse(open(os.path.join(dp, fn)).read())
                for node in tree.body:
                    if isinstance(node, ast.ClassDef):
                        bases[node.name] = [b.id if isinstance(b, ast.Name) else getattr(b, "attr", "?") for b in node.bases]
                        for sub in node.body:
                            if isinstance(sub, ast.Assign) and isinstance(sub.value, ast.Name):
                                for t in sub.targets:
                                    if isinstance(t, ast.Name):
                                        aliases.setdefault(sub.value.id, []).append((node.name, t.id))
    sparse_classes = {"SparseArray"}
    grew = True
    while grew:
        grew = False
        for c, bs in bases.items():
            if c not in sparse_classes and any(b in sparse_classes for b in bs):
                sparse_classes.add(c)
                grew = True

    def api_name(n):
        return not n.startswith("_") or (n.startswith("__") and n.endswith("__"))
    for r in G.recs:
        r.qual = f"{r.path[len(PKG) + 1:]}:{(r.cls + '.') if r.cls else ''}{r.name}"
        G.by_name.setdefault(r.name, []).append(r)
        if r.cls is None:
            r.entry = (r.name in exported and api_name(r.name)) or any(
                c in sparse_classes and api_name(m) for (c, m) in aliases.get(r.name, []))
        else:
            r.entry = r.cls in sparse_classes and api_name(r.name)
    G.sparse_classes = sorted(sparse_classes)
    return G


def reach_params(stmts, nv):
    """var -> set of (param index) it may reach: the same closure the Coq checker computes, but
    remembering which argument"""
    reach = [set() for _ in range(nv)]
    edges = []
    for s in stmts:
        if s[0] == "B":
            if s[2][0] == "A":
                reach[s[1]].add(s[2][1])
            elif s[2][0] == "V":
                edges.append((s[1], s[2][1]))
    changed = True
    while changed:
        changed = False
        for v, w in edges:
            if not reach[w] <= reach[v]:
                reach[v] |= reach[w]
                changed = True
    return reach


def analyse_all(G):
    rounds = 0
    while True:
        rounds += 1
        changed = False
        for r in G.recs:
            a = Analyzer(r, G).run()
            reach = reach_params(a.stmts, a.nv)
            writes = {}
            for v, lv, _line, _what, origin in a.write_info:
                for pi in reach[v]:
                    writes[(pi, lv)] = writes.get((pi, lv), False) or origin
            ret = {"b": AV(), "o": AV()}
            for vb, vo in a.returns:
                for lv, av in (("b", vb), ("o", vo)):
                    def res(atoms):
                        out = set()
                        for at in atoms:
                            if at[0] == "v":
                                out |= reach[at[1]]
                            else:
                                out.add(at[1])
                        return out
                    new = AV(res(av.flat), {k: [res(x) for x in els] for k, els in av.tups.items()})
                    ret[lv] = AV.join(ret[lv], new)

            def key(rt):
                return {lv: (sorted(rt[lv].flat), sorted((k, [sorted(x) for x in els]) for k, els in rt[lv].tups.items()))
                        for lv in rt}
            if writes != r.writes or key(ret) != key(r.ret):
                # monotone: only ever grow
                for k, o in writes.items():
                    r.writes[k] = r.writes.get(k, False) or o
                r.ret = {lv: AV.join(r.ret[lv], ret[lv]) for lv in ret}
                changed = True
            r.stmts, r.nvars, r.write_info, r.reach = a.stmts, a.nv, a.write_info, reach
            r.foreign_writes = a.foreign_writes
        if not changed:
            break
        if rounds > 40:
            raise Shape("summary fixpoint did not converge")
    return rounds


def extract_out_protocol(repo):
    """the explicit out= target: SparseArray._make_shallow_copy_of replaces exactly self.__dict__ by a
    shallow copy of other.__dict__, and __array_ufunc__ applies it to the object taken from kwargs['out']
    (and to nothing else), with the computed result as source."""
    tree = ast.parse(open(os.path.join(repo, "sparse/numba_backend/_sparse_array.py")).read())
    cls = next((n for n in tree.body if isinstance(n, ast.ClassDef) and n.name == "SparseArray"), None)
    if cls is None:
        raise Shape("class SparseArray not found")
    fns = {n.name: n for n in cls.body if isinstance(n, ast.FunctionDef)}
    if "_make_shallow_copy_of" not in fns or "__array_ufunc__" not in fns:
        raise Shape("SparseArray._make_shallow_copy_of / __array_ufunc__ not found")
    m = fns["_make_shallow_copy_of"]
    body = [x for x in m.body if not (isinstance(x, ast.Expr) and isinstance(x.value, ast.Constant))]
    params = [a.arg for a in m.args.args]
    dict_swap = (len(params) == 2 and len(body) == 1 and isinstance(body[0], ast.Assign)
                 and ast.unparse(body[0]) == f"{params[0]}.__dict__ = {params[1]}.__dict__.copy()")
    u = fns["__array_ufunc__"]
    calls = [n for n in ast.walk(u) if isinstance(n, ast.Call) and isinstance(n.func, ast.Attribute)
             and n.func.attr == "_make_shallow_copy_of"]
    out_from_kwargs = any(isinstance(n, ast.Assign) and ast.unparse(n.targets[0]) == "out"
                          and ast.unparse(n.value).startswith("kwargs.pop('out'") for n in ast.walk(u))
    unpack = any(isinstance(n, ast.Assign) and ast.unparse(n) in ("(out,) = out", "out, = out") for n in ast.walk(u))
    only_out = (len(calls) == 1 and ast.unparse(calls[0]) == "out._make_shallow_copy_of(result)"
                and out_from_kwargs and unpack)
    # nothing else in the anchored class assigns to an attribute of `out`
    other_stores = [n for n in ast.walk(u) if isinstance(n, ast.Attribute) and isinstance(n.ctx, ast.Store)]
    return {"shallow_copy_is_dict_swap": dict_swap, "ufunc_swaps_only_out": only_out and not other_stores}


def extract_scipy_discipline(G):
    """every in-place scipy method (sum_duplicates, sort_indices, ...) called in the anchored files is applied to a
    name that was re-bound, in the same block and before the call, to a private copy (`x = x.copy()` or another
    fresh result such as `x.sorted_indices()`).  Returns the list of (function, call text, ok)."""
    out = []
    for r in G.recs:
        if not r.anchored:
            continue

        def walk(stmts):
            private = set()
            for st in stmts:
                if isinstance(st, ast.Assign) and len(st.targets) == 1 and isinstance(st.targets[0], ast.Name):
                    v = st.value
                    if (isinstance(v, ast.Call) and isinstance(v.func, ast.Attribute)
                            and v.func.attr in ("copy", "sorted_indices", "tocsr", "tocsc", "tocoo") and not v.args
                            and not any(k.arg == "copy" for k in v.keywords)
                            and (v.func.attr in ("copy", "sorted_indices"))):
                        private.add(st.targets[0].id)
                    else:
                        private.discard(st.targets[0].id)
                for n in ast.walk(st) if not isinstance(st, (ast.If, ast.For, ast.While, ast.With, ast.Try)) else []:
                    if (isinstance(n, ast.Call) and isinstance(n.func, ast.Attribute) and n.func.attr in SCIPY_INPLACE):
                        recv = n.func.value
                        out.append((r.qual, ast.unparse(n), isinstance(recv, ast.Name) and recv.id in private))
                for fld in ("body", "orelse", "finalbody"):
                    sub = getattr(st, fld, None)
                    if isinstance(sub, list) and sub and isinstance(st, (ast.If, ast.For, ast.While, ast.With, ast.Try)):
                        walk(sub)
                if isinstance(st, ast.Try):
                    for h in st.handlers:
                        walk(h.body)
                if isinstance(st, (ast.If, ast.While)):
                    for n in ast.walk(st.test):
                        if isinstance(n, ast.Call) and isinstance(n.func, ast.Attribute) and n.func.attr in SCIPY_INPLACE:
                            out.append((r.qual, ast.unparse(n), False))
        walk(r.node.body)
    return out


def dense_result_alias(G):
    """for every method of a sparse class that returns a dense array (todense, maybe_densify, __array__): may the
    returned array share a buffer with the receiver, according to the return summaries of the binding analysis?"""
    out = []
    for r in G.recs:
        if r.cls in G.sparse_classes and r.name in ("todense", "maybe_densify", "__array__"):
            out.append((r.qual, 0 in r.ret["b"].all()))
    return out


PASS_THROUGH = {"astype", "asformat", "reshape", "transpose", "view", "squeeze", "change_compressed_axes", "flatten",
                "tocoo", "copy_shallow"}     # methods that may hand back their receiver (or share its buffers)
CREATORS = {"reduce", "reduceat", "_grouped_reduce", "accumulate"}


def reduce_calc_returns(G):
    """every `return` of every _reduce_calc of a sparse class: is the first element of the returned tuple (the
    reduced array / data) certainly a newly computed value — it goes through a ufunc reduce/reduceat or a recursive
    .reduce(...) — rather than the receiver or something a pass-through method derives from it?"""
    out = []

    def fresh(e, fn, depth=0):
        if depth > 6:
            return False
        if isinstance(e, ast.IfExp):
            return fresh(e.body, fn, depth + 1) and fresh(e.orelse, fn, depth + 1)
        if isinstance(e, ast.Subscript):
            return fresh(e.value, fn, depth + 1)
        if isinstance(e, ast.Call):
            f = e.func
            nm = f.attr if isinstance(f, ast.Attribute) else (f.id if isinstance(f, ast.Name) else None)
            if nm in CREATORS:
                return True
            if isinstance(f, ast.Attribute):         # any other method: as fresh as its receiver
                return fresh(f.value, fn, depth + 1)
            return False
        if isinstance(e, ast.Name):
            if e.id == "self":
                return False
            defs = []
            for n in ast.walk(fn):
                if isinstance(n, ast.Assign):
                    for t in n.targets:
                        if isinstance(t, ast.Name) and t.id == e.id:
                            defs.append(n.value)
                        elif isinstance(t, ast.Tuple) and any(isinstance(x, ast.Name) and x.id == e.id for x in t.elts):
                            defs.append(n.value)
            return bool(defs) and all(fresh(d, fn, depth + 1) for d in defs)
        return False
    for r in G.recs:
        if r.cls in G.sparse_classes and r.name == "_reduce_calc":
            rets = [n for n in ast.walk(r.node) if isinstance(n, ast.Return)]
            for n in rets:
                if not (isinstance(n.value, ast.Tuple) and n.value.elts):
                    out.append((r.qual, ast.unparse(n)[:70], False))
                else:
                    out.append((r.qual, ast.unparse(n)[:70], fresh(n.value.elts[0], r.node)))
    return out


def extract_todense_alloc(repo):
    """COO.todense allocates its result with np.full(...) as its first statement and every return returns that name"""
    tree = ast.parse(open(os.path.join(repo, CORE)).read())
    cls = next(n for n in tree.body if isinstance(n, ast.ClassDef) and n.name == "COO")
    fn = next((n for n in cls.body if isinstance(n, ast.FunctionDef) and n.name == "todense"), None)
    if fn is None:
        raise Shape("COO.todense not found")
    body = [x for x in fn.body if not (isinstance(x, ast.Expr) and isinstance(x.value, ast.Constant))]
    first = body[0] if body else None
    ok_alloc = (isinstance(first, ast.Assign) and len(first.targets) == 1 and isinstance(first.targets[0], ast.Name)
                and isinstance(first.value, ast.Call) and norm_dotted(dotted(first.value.func)) == "np.full")
    name = first.targets[0].id if ok_alloc else None
    rets = [n for n in ast.walk(fn) if isinstance(n, ast.Return)]
    ok_ret = bool(rets) and all(isinstance(n.value, ast.Name) and n.value.id == name for n in rets)
    rebound = sum(1 for n in ast.walk(fn) if isinstance(n, ast.Name) and isinstance(n.ctx, ast.Store) and n.id == name)
    return {"todense_allocates_first": ok_alloc, "todense_returns_only_allocation": ok_ret and rebound == 1}


def coq_stmt(s):
    if s[0] == "W":
        return f"wR {s[1]}"
    v, src = s[1], s[2]
    if src[0] == "F":
        return f"bF {v}"
    if src[0] == "A":
        return f"bA {v} {src[1]} {src[2]}"
    return f"bV {v} {src[1]}"


def gen_alias(repo):
    G = collect(repo)
    rounds = analyse_all(G)
    obligations, helpers = [], []
    for r in G.recs:
        tainted = [(v, lv, line, what) for (v, lv, line, what, _o) in r.write_info if r.reach[v]]
        has_anchored_helper_write = any(o and "via " in what for (_v, _lv, _l, what, o) in r.write_info)
        if r.entry and (r.anchored or has_anchored_helper_write):
            obligations.append((r, tainted))
        elif r.anchored:
            helpers.append((r, tainted))
    foreign = sum(getattr(r, "foreign_writes", 0) for r in G.recs if r.anchored)
    L = ["(* Gen/S_alias.v — GENERATED by tools/sitegen/alias.py from the anchored files of C11; do not edit.",
         "   One effect summary per public function/method (plus public callers, anywhere in the package, of",
         "   private helpers of the anchored files that write through a parameter).  Variables are numbers;",
         "   the first 2*k variables are the k parameters at the buffer level and at the object level. *)",
         "From Coq Require Import NArith List String.", "From Verif Require Import Alias.", "Import ListNotations.",
         "Local Open Scope string_scope.", "Local Open Scope N_scope.", ""]
    names = []
    rep_funcs = {}
    for k, (r, tainted) in enumerate(obligations):
        nm = f"s_{k}"
        names.append(nm)
        L.append(f"(* {r.qual}({', '.join(r.all_params)}) *)")
        for (v, lv, line, what, _o) in r.write_info:
            L.append(f"(*   write v{v} [{'buffer' if lv == 'b' else 'object'}] line {line}: "
                     f"{what.replace('(*', '( *').replace('*)', '* )')} *)")
        body = "; ".join(coq_stmt(s) for s in r.stmts)
        L.append(f"Definition {nm} : summary := mk_summary {coq_str(r.qual)} [{body}].")
        rep_funcs[r.qual] = {"writes": len(r.write_info), "stmts": len(r.stmts),
                             "rejected_writes": [f"line {line}: {what}" for (_v, _lv, line, what) in tainted]}
    L.append("")
    L.append("Definition summaries : list summary := [" + "; ".join(names) + "].")
    L.append("")
    L.append("(* private helpers of the anchored files and the parameters they write (re-emitted at call sites) *)")
    hl = []
    for r, _t in helpers:
        if r.writes:
            ws = ", ".join(f"{r.all_params[pi]}[{'buffer' if lv == 'b' else 'object'}]" for (pi, lv) in sorted(r.writes))
            L.append(f"(*   {r.qual}: {ws} *)")
            hl.append(f"({coq_str(r.qual)}, {len(r.writes)})")
    L.append("Definition helper_writes : list (string * N) := [" + "; ".join(hl) + "].")
    outp = extract_out_protocol(repo)
    L.append("")
    L.append("(* the explicit out= target (exempt by the property): _make_shallow_copy_of is "
             "`self.__dict__ = other.__dict__.copy()`")
    L.append("   and __array_ufunc__ applies it to the object popped from kwargs['out'] only *)")
    for k, v in outp.items():
        L.append(f"Definition {k} : bool := {coq_bool(v)}.")
    disc = extract_scipy_discipline(G)
    dra = dense_result_alias(G)
    tda = extract_todense_alloc(repo)
    rcr = reduce_calc_returns(G)
    L.append("")
    L.append("(* scipy's in-place methods are only ever applied to a private copy made just before: (function, call, ok) *)")
    for q, call, ok in disc:
        L.append(f"(*   {q}: {call}  {'on a private copy' if ok else 'ON A VALUE THAT MAY BE THE CALLER`S'} *)")
    L.append("Definition scipy_inplace_sites : list (string * bool) := ["
             + "; ".join(f"({coq_str(q + ': ' + call)}, {coq_bool(ok)})" for q, call, ok in disc) + "].")
    L.append("")
    L.append("(* dense-returning methods: may the result share a buffer with the receiver (return summary)? *)")
    L.append("Definition dense_result_may_alias : list (string * bool) := ["
             + "; ".join(f"({coq_str(q)}, {coq_bool(a)})" for q, a in dra) + "].")
    for k, v in tda.items():
        L.append(f"Definition {k} : bool := {coq_bool(v)}.")
    L.append("")
    L.append("(* every return of every _reduce_calc: the reduced array is newly computed, never the receiver *)")
    for q, txt, ok in rcr:
        L.append(f"(*   {q}: {txt.replace('(*', '( *').replace('*)', '* )')}  {'fresh' if ok else 'MAY BE THE RECEIVER'} *)")
    L.append("Definition reduce_calc_returns_fresh : list (string * bool) := ["
             + "; ".join(f"({coq_str(q + ': ' + txt)}, {coq_bool(ok)})" for q, txt, ok in rcr) + "].")
    n_writes = sum(len(r.write_info) for r, _ in obligations)
    rejected = {q: d["rejected_writes"] for q, d in rep_funcs.items() if d["rejected_writes"]}
    rep = {"effect_summaries": {"status": "ok", "functions": len(obligations), "helpers": len(helpers),
                                "write_sites": n_writes, "fixpoint_rounds": rounds,
                                "package_functions_analysed": len(G.recs), "rejected": rejected,
                                "api_classes": G.sparse_classes, "out_protocol": outp,
                                "scipy_inplace_sites": [list(x) for x in disc],
                                "dense_result_may_alias": [list(x) for x in dra], "todense_alloc": tda,
                                "reduce_calc_returns": [list(x) for x in rcr],
                                "calls_into_param_writing_functions_outside_anchored_files": foreign}}
    return "\n".join(L) + "\n", rep


def generate(repo):
    files, report = {}, {}
    try:
        t, r = gen_cache(repo)
        files["S_cache.v"] = t
        report.update(r)
    except (Shape, SyntaxError, OSError) as ex:
        report["cache_protocol"] = {"status": "failed", "error": f"{type(ex).__name__}: {ex}"}
    try:
        t, r = gen_alias(repo)
        files["S_alias.v"] = t
        report.update(r)
    except (Shape, SyntaxError, OSError) as ex:
        report["effect_summaries"] = {"status": "failed", "error": f"{type(ex).__name__}: {ex}"}
    return files, report


if __name__ == "__main__":
    import json
    import sys
    fs, rp = generate(sys.argv[1] if len(sys.argv) > 1 else "/repo")
    for k, v in fs.items():
        print(k, len(v))
    print(json.dumps(rp["effect_summaries"], indent=1)[:6000])
