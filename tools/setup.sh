#!/bin/bash
# MANIFEST.setup_cmd: build the whole development (full .vo build) from the committed sources.
# coq/Gen/*.v are the committed reference copies (generated from the unchanged tree by tools/regen.py);
# every check regenerates its own copies from /repo's working tree in its scratch build.
set -o pipefail
cd "$(dirname "$0")/.." || exit 2
tools/mkproject.sh coq || exit 1
cd coq && timeout 3000 make -j16 2>&1 | grep -v 'conda' | tail -5
