#!/bin/bash
# MANIFEST.setup_cmd: regenerate Gen/ from /repo, build the whole development (full .vo build).
set -o pipefail
cd "$(dirname "$0")/.." || exit 2
/venv/bin/python tools/regen.py coq || exit 1
tools/mkproject.sh coq || exit 1
cd coq && timeout 3000 make -j16 2>&1 | grep -v 'conda' | tail -5
