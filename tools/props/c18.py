"""C18 — termination and clean rejection.

Campaign = exhaustive small-shape enumeration of public operations with valid AND malformed
argument tuples.  Every call runs in a vlib.run_impl worker under a watchdog (40 s, and 120 s once
more in a fresh worker before a hang is declared -> status 1; a dead worker -> status 2).  For each case the ORACLE is NumPy on the densified operands (or an
executable Spec predicate for sparse-only operations); the verdict is computed inside Coq by
Corr/C18Judge.v:judge_api, which also runs the generated validators of Model/Validators.v on the
same argument and compares the exception class.  Kernel level: the compiled loop kernels are run
on small inputs and compared with the fuelled transcriptions of Model/Kernels.v (judge_kernel),
evaluated with exactly the fuel the termination theorems of Props/C18.v state.
"""
import itertools
import json
import random

import vlib
from vlib import vZ, vbool, vlist, vopt, vpair

LEVEL = "proof"
TRUSTED_BASE = [
    "Coq 8.16.1 kernel + vm_compute (case evaluation); no native_compute",
    "axioms: none (Print Assumptions: Closed under the global context for every C18 theorem)",
    "tools/py2v.py fragment translator and tools/sitegen/validators.py (locates `if` tests, comprehension "
    "elements, loop tests and assignments by exact source text, fail-closed); Lib/PyValid.v for the four "
    "non-scalar expressions inside them (set-order test is exact for tuples of ints in [0,8) only)",
    "Spec/NpValid.v as a description of which arguments NumPy rejects, cross-checked against NumPy on every "
    "generated case (verdict code 53 = Spec and NumPy disagree)",
    "Model/Kernels.v is a hand transcription of the Python source of the kernels (Numba's compilation is trusted "
    "to preserve it; the compiled kernels are compared with it on every generated kernel case)",
    "NumPy on the densified operands as the oracle of which argument tuples are valid",
    "correspondence harness tools/props/c18.py, tools/vlib.py (watchdog, exit-status capture)",
]
ASSUMPTIONS = [
    "wall-clock proportionality and interpreter crashes are observed (watchdog, exit status), not proved",
    "algD terminates with probability 1 only: the float acceptance tests are oracle answers",
    "element values are integers; float rounding and dtype promotion are not modelled",
    "a ValueError/NotImplementedError on an argument NumPy accepts is tolerated only for the documented sparse "
    "limitations listed in ALLOWED (the table is copied into the evidence)",
    "value differences on valid arguments are recorded (coverage.value_mismatches) but belong to C01-C10",
]

# vlib.run_impl multiplies per_case_timeout by 4 for every case (its "first case of a worker" allowance is
# never switched off), so 10.0 means a 40 s watchdog.  Killing a worker also throws away everything Numba
# compiled in it, and on a loaded machine one cold compilation can take tens of seconds: a case that
# trips the first watchdog is therefore re-run under RETRY_WATCHDOG before it is called a hang.
WATCHDOG = 10.0
RETRY_WATCHDOG = 30.0   # 120 s effective
CLEAN = ("ValueError", "IndexError", "TypeError")

# ------------------------------------------------------------------ documented sparse limitations
# (operation, reason, predicate name).  A case whose oracle ACCEPTS and whose implementation raises
# ValueError / TypeError / IndexError / NotImplementedError — or whose oracle REJECTS and whose
# implementation raises NotImplementedError — is tolerated iff a row matches (the predicate looks at
# the operation, the operand format and the documented error message).
ALLOWED = [
    ("triu / tril", "documented NotImplementedError: not implemented for 0-d / 1-d arrays", "triu_low_dim"),
    ("asformat", "an unknown format has no NumPy counterpart; NotImplementedError/ValueError 'format is not supported' is the documented answer", "unknown_format"),
    ("getitem / setitem on GCXS and DOK", "documented: only part of NumPy's advanced indexing is supported (NotImplementedError / IndexError)", "adv_index_not_coo"),
    ("getitem on COO", "documented IndexError: index arrays are not broadcast against each other ('Ensure all indexing arrays are of the same length')", "adv_index_broadcast"),
    ("reductions / squeeze on a 0-d array", "axis=0 / axis=-1 on a 0-d array is a NumPy legacy allowance; the library applies the array-API rule (axis out of range)", "axis_on_0d"),
    ("expand_dims", "documented: axis must be an int", "expand_dims_tuple_axis"),
    ("clip", "documented ValueError 'One of max or min must be given'", "clip_none"),
    ("roll", "documented ValueError: a shift sequence needs an axis sequence of equal length; unsigned index dtype is 'not safe'", "roll_documented"),
    ("diagonal", "documented ValueError: a.shape[axis1] != a.shape[axis2] (only square planes)", "diagonal_nonsquare"),
    ("einsum", "repeated index with different extents ('Repeated indices must have the same dimension': NumPy itself reads out of bounds here) and no broadcasting of length-1 axes ('Inconsistent shape for index')", "einsum_documented"),
    ("sort / take / argmax / argmin", "documented in the docstrings: restrictions on axis / fill value", "docstring_limit"),
]


def allowed(case, impl):
    """name of the ALLOWED row that covers this case, or None"""
    op = case["op"]
    A = case.get("args", {})
    a = case.get("a") or {}
    msg = (impl or {}).get("msg") or ""
    nd = len(a.get("shape", []))
    if op in ("triu", "tril") and nd < 2:
        return "triu_low_dim"
    if op == "idx_dtype_op" and A.get("which") in ("triu", "tril") and nd < 2:
        return "triu_low_dim"
    if op == "asformat" and A.get("unknown"):
        return "unknown_format"
    if op in ("getitem", "dok_set") and a.get("format") != "coo" and A.get("advanced"):
        return "adv_index_not_coo"
    if op == "getitem" and "Ensure all indexing arrays are of the same length" in msg:
        return "adv_index_broadcast"
    if op in ("sum", "max", "min", "any", "prod", "mean", "squeeze") and nd == 0 and A.get("axis") in (0, -1):
        return "axis_on_0d"
    if op == "expand_dims" and isinstance(A.get("axis"), list):
        return "expand_dims_tuple_axis"
    if op == "clip" and "One of max or min must be given" in msg:
        return "clip_none"
    if op in ("roll", "idx_dtype_op") and ("'axis' must have equal length" in msg or "is not safe. Try using a signed dtype" in msg):
        return "roll_documented"
    if op in ("diagonal", "idx_dtype_op") and "a.shape[axis1] != a.shape[axis2]" in msg:
        return "diagonal_nonsquare"
    if op == "einsum" and ("Repeated indices must have the same dimension" in msg or "Inconsistent shape for index" in msg):
        return "einsum_documented"
    if op in ("sort", "take", "argmax", "argmin") and A.get("doc_limit") and (impl or {}).get("exc") in ("ValueError", "NotImplementedError", "IndexError"):
        return "docstring_limit"
    return None


# ------------------------------------------------------------------ index encoding (JSON-able)
def dec_index(e):
    import numpy as np
    t = e[0]
    if t == "i":
        return int(e[1])
    if t == "npi":
        return np.int64(e[1])
    if t == "f":
        return float(e[1])
    if t == "s":
        return str(e[1])
    if t == "n":
        return None
    if t == "e":
        return Ellipsis
    if t == "sl":
        return slice(e[1], e[2], e[3])
    if t == "li":
        return [int(v) for v in e[1]]
    if t == "ai":
        return np.array(e[1], dtype=np.intp)
    if t == "lb":
        return np.array(e[1], dtype=bool)
    if t == "t":
        return tuple(dec_index(x) for x in e[1])
    raise ValueError(e)


def dec_axis(e):
    if e is None:
        return None
    if isinstance(e, list) and e and e[0] in ("f", "s"):
        return dec_index(e)
    if isinstance(e, list):
        return tuple(dec_axis(x) for x in e)
    return int(e)


# ------------------------------------------------------------------ worker side
def canon_exc(ex):
    n = type(ex).__name__
    if n in vlib.EXC_ENUM:
        return n
    for base in (ValueError, IndexError, TypeError, ZeroDivisionError, OverflowError, NotImplementedError, RuntimeError):
        if isinstance(ex, base):
            return base.__name__
    return "OtherError"


def _plain(obj):
    import numpy as np
    if isinstance(obj, BaseException):
        return {"k": "exc", "exc": canon_exc(obj), "cls": type(obj).__module__.split(".")[0] + "." + type(obj).__name__,
                "msg": str(obj)[:140]}
    if isinstance(obj, (tuple, list)):
        return {"k": "other", "repr": repr(obj)[:80]}
    try:
        p = vlib.plain(obj)
    except Exception as ex:  # noqa: BLE001  (a result object too broken to read is itself a result)
        return {"k": "other", "repr": "unreadable: " + type(ex).__name__}
    if p.get("k") in ("coo", "gcxs", "dok", "dense") and int(np.prod(p.get("shape") or [1])) > 4096:
        return {"k": "other", "repr": "large " + p["k"]}
    return p


def _mk(spec, dtype=None, idx_dtype=None):
    if spec is None:
        return None, None
    d = vlib.spec_dense(spec, dtype=dtype or "int64")
    if spec.get("format") == "dense":
        return d, d
    return vlib.build_array(spec, dtype=dtype, idx_dtype=idx_dtype), d


def impl_case(case):
    """run one API case: returns {"np": oracle outcome, "impl": implementation outcome}"""
    import warnings

    import numpy as np
    import sparse
    warnings.filterwarnings("ignore")
    op = case["op"]
    a, ad = _mk(case.get("a"), dtype=case.get("dtype"), idx_dtype=case.get("idx_dtype"))
    b, bd = _mk(case.get("b"), dtype=case.get("dtype"))
    A = case.get("args", {})
    f_impl, f_np = API[op](np, sparse, a, ad, b, bd, A)
    out = {}
    if f_np is None:
        out["np"] = None
    else:
        try:
            r = f_np()
            out["np"] = _plain(np.asarray(r) if not isinstance(r, (tuple, list)) else r)
        except Exception as ex:  # noqa: BLE001
            out["np"] = _plain(ex)
    try:
        r = f_impl()
        out["impl"] = _plain(r)
    except Exception as ex:  # noqa: BLE001
        out["impl"] = _plain(ex)
    return out


def _reduce(name):
    def f(np, sparse, a, ad, b, bd, A):
        ax = dec_axis(A["axis"])
        return (lambda: getattr(sparse, name)(a, axis=ax)), (lambda: getattr(np, name)(ad, axis=ax))
    return f


def _unary_axis(name, npname=None):
    def f(np, sparse, a, ad, b, bd, A):
        ax = dec_axis(A["axis"])
        return (lambda: getattr(sparse, name)(a, axis=ax)), (lambda: getattr(np, npname or name)(ad, axis=ax))
    return f


def _ctor_coo(np, sparse, a, ad, b, bd, A):
    kw = {}
    if A.get("idx_dtype"):
        kw["idx_dtype"] = np.dtype(A["idx_dtype"])
    return (lambda: sparse.COO(A["coords"], A["data"], shape=tuple(A["shape"]) if A["shape"] is not None else None, **kw)), None


def _ctor_gcxs(np, sparse, a, ad, b, bd, A):
    def go():
        g = sparse.GCXS((np.array(A["data"], dtype=np.int64), np.array(A["indices"], dtype=np.intp),
                         np.array(A["indptr"], dtype=np.intp)), shape=tuple(A["shape"]),
                        compressed_axes=None if A["caxes"] is None else tuple(A["caxes"]))
        return g.todense()
    return go, None


def _random(np, sparse, a, ad, b, bd, A):
    kw = {}
    if A.get("density") is not None:
        kw["density"] = float(A["density"])
    if A.get("nnz") is not None:
        kw["nnz"] = A["nnz"]
    if A.get("idx_dtype"):
        kw["idx_dtype"] = np.dtype(A["idx_dtype"])
    return (lambda: sparse.random(tuple(A["shape"]), random_state=7, format=A.get("format", "coo"), **kw)), None


def _asformat(np, sparse, a, ad, b, bd, A):
    kw = {}
    if "caxes" in A:
        kw["compressed_axes"] = None if A["caxes"] is None else tuple(A["caxes"])
    fmt = A["fmt"]
    return (lambda: a.asformat(fmt, **kw)), None


def _dok_set(np, sparse, a, ad, b, bd, A):
    idx = dec_index(A["idx"])

    def go():
        d = sparse.DOK.from_numpy(ad)
        d[idx] = 9
        return d

    def ref():
        x = ad.copy()
        x[idx] = 9
        return x
    return go, ref


def _idx_dtype_op(np, sparse, a, ad, b, bd, A):
    which = A["which"]
    fs = {
        "rev": (lambda: a[::-1], lambda: ad[::-1]),
        "triu": (lambda: sparse.triu(a, -1), lambda: np.triu(ad, -1)),
        "tril": (lambda: sparse.tril(a, 1), lambda: np.tril(ad, 1)),
        "T": (lambda: a.T, lambda: ad.T),
        "sum0": (lambda: a.sum(axis=0), lambda: ad.sum(axis=0)),
        "flat": (lambda: a.reshape(-1), lambda: ad.reshape(-1)),
        "roll": (lambda: sparse.roll(a, 1, axis=0), lambda: np.roll(ad, 1, axis=0)),
        "neg": (lambda: a[-1], lambda: ad[-1]),
        "pad": (lambda: sparse.pad(a, 1), lambda: np.pad(ad, 1)),
        "diag": (lambda: sparse.diagonal(a, 1) if a.ndim >= 2 else a[1:], lambda: np.diagonal(ad, 1) if ad.ndim >= 2 else ad[1:]),
        "flip": (lambda: sparse.flip(a, axis=0), lambda: np.flip(ad, axis=0)),
        "concat": (lambda: sparse.concatenate([a, a], axis=0), lambda: np.concatenate([ad, ad], axis=0)),
        "kron": (lambda: sparse.kron(a, a), lambda: np.kron(ad, ad)),
        "step2": (lambda: a[::2], lambda: ad[::2]),
        "gcxs": (lambda: a.asformat("gcxs"), lambda: ad),
        "gcxs_getitem": (lambda: a.asformat("gcxs")[0], lambda: ad[0]),
    }
    return fs[which]


def _probe(np, sparse, a, ad, b, bd, A):
    which = A["which"]
    if which == "caxes_1_8":
        x = np.zeros((1,) * 10)
        x[(0,) * 10] = 3
        return (lambda: sparse.GCXS.from_numpy(x, compressed_axes=(1, 8))), (lambda: x)
    raise ValueError(which)


def _dot_rt(np, sparse, a, ad, b, bd, A):
    """products with an explicit result type, so that the sparse-result kernels are reached"""
    rt = {"coo": sparse.COO, "gcxs": sparse.GCXS, "dense": np.ndarray, None: None}[A["rt"]]
    return (lambda: sparse.tensordot(a, b, axes=1, return_type=rt)), (lambda: np.tensordot(ad, bd, axes=1))


SUBNS = {
    # name in a NumPy sub-namespace -> (callable path, number of array arguments).  `collides`: the bare name also
    # exists in the top-level sparse namespace (with another meaning or another specification)
    "linalg.diagonal": 1, "linalg.outer": 2, "linalg.matmul": 2, "linalg.vecdot": 2, "linalg.matrix_transpose": 1,
    "linalg.tensordot": 2, "linalg.norm": 1, "linalg.cholesky": 1, "linalg.trace": 1, "linalg.det": 1, "linalg.inv": 1,
    "linalg.svd": 1, "linalg.cross": 2, "linalg.matrix_rank": 1, "linalg.eigvals": 1,
    "emath.sqrt": 1, "emath.log": 1, "emath.log2": 1, "emath.log10": 1, "emath.arccos": 1, "emath.arcsin": 1,
    "fft.fft": 1, "fft.ifft": 1, "fft.fftshift": 1, "fft.fft2": 1,
    "lib.stride_tricks.sliding_window_view": 0,
}


def _np_subns(np, sparse, a, ad, b, bd, A):
    """a NumPy function of a sub-namespace that the library does not mirror: the NEP-18 dispatch must answer
    NotImplemented (NumPy then raises TypeError), whatever top-level sparse function has the same bare name"""
    f = np
    for part in A["fn"].split("."):
        f = getattr(f, part)
    n = SUBNS[A["fn"]]
    if A["fn"].endswith("sliding_window_view"):
        return (lambda: f(a, 1)), None
    args = [a, a][:n]
    return (lambda: f(*args)), None


def _seq_zero(np, sparse, a, ad, b, bd, A):
    """a zero-length contraction (its all-zero result is built by tensordot's zero-size shortcut, or an empty COO is
    built from caller-supplied unsigned coords), then a second operation that joins it with / shifts it like an
    ordinary array, then a read: every step is a valid NumPy call"""
    x = vlib.build_array(A["x"])
    xd = vlib.spec_dense(A["x"])

    def run(P, Q, X, lib, is_sparse):
        prod = A["prod"]
        if prod == "dot":
            r = lib.dot(P, Q)
        elif prod == "matmul":
            r = lib.matmul(P, Q)
        elif prod == "tensordot":
            r = lib.tensordot(P, Q, axes=1)
        else:   # an empty array built by the caller with unsigned coordinates
            if is_sparse:
                r = sparse.COO(np.zeros((X.ndim, 0), dtype=np.dtype(prod)), np.zeros(0, dtype=np.int64), shape=X.shape)
            else:
                r = np.zeros(X.shape, dtype=np.int64)
        pair = [r, X] if A["order"] == "rx" else [X, r]
        sec = A["second"]
        if sec == "concatenate":
            y = lib.concatenate(pair, axis=A["axis"])
        elif sec == "stack":
            y = lib.stack(pair, axis=A["axis"])
        elif sec == "roll":
            y = lib.roll(r, 1, axis=A["axis"])
        elif sec == "add":
            y = r + X
        else:
            y = lib.where(X > 0, X, r) if is_sparse else np.where(X > 0, X, r)
        third = A["third"]
        if third == "sum":
            return y.sum(axis=0)
        if third == "getitem":
            return y[0] if y.shape[0] else y[...]
        if third == "T":
            y = y.T
        return y.todense() if is_sparse else y
    return (lambda: run(a, b, x, sparse, True)), (lambda: run(ad, bd, xd, np, False))


API = {
    "getitem": lambda np, sparse, a, ad, b, bd, A: ((lambda: a[dec_index(A["idx"])]), (lambda: ad[dec_index(A["idx"])])),
    "sum": _reduce("sum"), "max": _reduce("max"), "min": _reduce("min"), "any": _reduce("any"),
    "prod": _reduce("prod"), "mean": _reduce("mean"),
    "transpose": lambda np, sparse, a, ad, b, bd, A: ((lambda: a.transpose(dec_axis(A["axes"]))), (lambda: ad.transpose(dec_axis(A["axes"])))),
    "permute_dims": lambda np, sparse, a, ad, b, bd, A: ((lambda: sparse.permute_dims(a, dec_axis(A["axes"]))), (lambda: np.permute_dims(ad, dec_axis(A["axes"])))),
    "moveaxis": lambda np, sparse, a, ad, b, bd, A: ((lambda: sparse.moveaxis(a, dec_axis(A["src"]), dec_axis(A["dst"]))), (lambda: np.moveaxis(ad, dec_axis(A["src"]), dec_axis(A["dst"])))),
    "swapaxes": lambda np, sparse, a, ad, b, bd, A: ((lambda: a.swapaxes(dec_axis(A["a1"]), dec_axis(A["a2"]))), (lambda: ad.swapaxes(dec_axis(A["a1"]), dec_axis(A["a2"])))),
    "reshape": lambda np, sparse, a, ad, b, bd, A: ((lambda: a.reshape(tuple(A["shape"]))), (lambda: ad.reshape(tuple(A["shape"])))),
    "squeeze": _unary_axis("squeeze"),
    "flip": _unary_axis("flip"),
    "expand_dims": _unary_axis("expand_dims"),
    "argmax": _unary_axis("argmax"),
    "argmin": _unary_axis("argmin"),
    "concatenate": lambda np, sparse, a, ad, b, bd, A: (
        (lambda: sparse.concatenate([x for x in (a, b) if x is not None], axis=dec_axis(A["axis"]))),
        (lambda: np.concatenate([x for x in (ad, bd) if x is not None], axis=dec_axis(A["axis"])))),
    "stack": lambda np, sparse, a, ad, b, bd, A: (
        (lambda: sparse.stack([x for x in (a, b) if x is not None], axis=dec_axis(A["axis"]))),
        (lambda: np.stack([x for x in (ad, bd) if x is not None], axis=dec_axis(A["axis"])))),
    "dot": lambda np, sparse, a, ad, b, bd, A: ((lambda: sparse.dot(a, b)), (lambda: np.dot(ad, bd))),
    "matmul": lambda np, sparse, a, ad, b, bd, A: ((lambda: sparse.matmul(a, b)), (lambda: np.matmul(ad, bd))),
    "tensordot": lambda np, sparse, a, ad, b, bd, A: ((lambda: sparse.tensordot(a, b, axes=A["axes"])), (lambda: np.tensordot(ad, bd, axes=A["axes"]))),
    "kron": lambda np, sparse, a, ad, b, bd, A: ((lambda: sparse.kron(a, b)), (lambda: np.kron(ad, bd))),
    "outer": lambda np, sparse, a, ad, b, bd, A: ((lambda: sparse.outer(a, b)), (lambda: np.outer(ad, bd))),
    "vecdot": lambda np, sparse, a, ad, b, bd, A: ((lambda: sparse.vecdot(a, b, axis=dec_axis(A["axis"]))), (lambda: np.vecdot(ad, bd, axis=dec_axis(A["axis"])))),
    "broadcast_to": lambda np, sparse, a, ad, b, bd, A: ((lambda: sparse.broadcast_to(a, tuple(A["shape"]))), (lambda: np.broadcast_to(ad, tuple(A["shape"])))),
    "add": lambda np, sparse, a, ad, b, bd, A: ((lambda: a + b), (lambda: ad + bd)),
    "multiply": lambda np, sparse, a, ad, b, bd, A: ((lambda: sparse.multiply(a, b)), (lambda: np.multiply(ad, bd))),
    "where": lambda np, sparse, a, ad, b, bd, A: ((lambda: sparse.where(a > 0, a, b)), (lambda: np.where(ad > 0, ad, bd))),
    "roll": lambda np, sparse, a, ad, b, bd, A: ((lambda: sparse.roll(a, dec_axis(A["shift"]), axis=dec_axis(A["axis"]))), (lambda: np.roll(ad, dec_axis(A["shift"]), axis=dec_axis(A["axis"])))),
    "pad": lambda np, sparse, a, ad, b, bd, A: ((lambda: sparse.pad(a, dec_axis(A["pw"]))), (lambda: np.pad(ad, dec_axis(A["pw"])))),
    "triu": lambda np, sparse, a, ad, b, bd, A: ((lambda: sparse.triu(a, A["k"])), (lambda: np.triu(ad, A["k"]))),
    "tril": lambda np, sparse, a, ad, b, bd, A: ((lambda: sparse.tril(a, A["k"])), (lambda: np.tril(ad, A["k"]))),
    "diagonal": lambda np, sparse, a, ad, b, bd, A: ((lambda: sparse.diagonal(a, A["offset"], A["a1"], A["a2"])), (lambda: np.diagonal(ad, A["offset"], A["a1"], A["a2"]))),
    "einsum": lambda np, sparse, a, ad, b, bd, A: (
        (lambda: sparse.einsum(A["sub"], *[x for x in (a, b) if x is not None])),
        (lambda: np.einsum(A["sub"], *[x for x in (ad, bd) if x is not None]))),
    "eye": lambda np, sparse, a, ad, b, bd, A: ((lambda: sparse.eye(A["N"], A["M"], A["k"], dtype=np.int64)), (lambda: np.eye(A["N"], A["M"], A["k"], dtype=np.int64))),
    "full": lambda np, sparse, a, ad, b, bd, A: ((lambda: sparse.full(tuple(A["shape"]), 3)), (lambda: np.full(tuple(A["shape"]), 3))),
    "zeros": lambda np, sparse, a, ad, b, bd, A: ((lambda: sparse.zeros(tuple(A["shape"]))), (lambda: np.zeros(tuple(A["shape"])))),
    "sort": lambda np, sparse, a, ad, b, bd, A: ((lambda: sparse.sort(a, axis=dec_axis(A["axis"]))), (lambda: np.sort(ad, axis=dec_axis(A["axis"])))),
    "take": lambda np, sparse, a, ad, b, bd, A: ((lambda: sparse.take(a, np.array(A["ind"], dtype=np.intp), axis=dec_axis(A["axis"]))), (lambda: np.take(ad, np.array(A["ind"], dtype=np.intp), axis=dec_axis(A["axis"])))),
    "clip": lambda np, sparse, a, ad, b, bd, A: ((lambda: sparse.clip(a, A["lo"], A["hi"])), (lambda: np.clip(ad, A["lo"], A["hi"]))),
    "seq_zero": _seq_zero,
    "dot_rt": _dot_rt,
    "np_subns": _np_subns,
    "ctor_coo": _ctor_coo,
    "ctor_gcxs": _ctor_gcxs,
    "random": _random,
    "asformat": _asformat,
    "dok_set": _dok_set,
    "idx_dtype_op": _idx_dtype_op,
    "probe": _probe,
}


CPU_LIMIT_S = 10          # CPU seconds a single indexing call on a nearly empty array of huge extent may use


def _huge_expected(case):
    """the answer computed from the coordinate list: (shape, sorted coords, data) of x[key]; None = scalar/other"""
    shape, coords, data, key = case["shape"], case["coords"], case["data"], case["key"]
    out_shape, maps = [], []
    for ax, k in enumerate(key):
        d = shape[ax]
        if k[0] == "i":
            i = k[1] + d if k[1] < 0 else k[1]
            maps.append(("i", i))
        else:
            r = range(*slice(k[1], k[2], k[3]).indices(d))
            out_shape.append(len(r))
            maps.append(("s", r))
    for ax in range(len(key), len(shape)):
        out_shape.append(shape[ax])
        maps.append(("s", range(shape[ax])))
    res = []
    for c, v in zip(coords, data, strict=True):
        t, ok = [], True
        for (kind, m), ci in zip(maps, c, strict=True):
            if kind == "i":
                ok = ok and ci == m
            else:
                if ci in m:
                    t.append(m.index(ci))
                else:
                    ok = False
        if ok:
            res.append((t, v))
    res.sort()
    if case.get("take"):            # take(x, [i], axis=0) keeps the axis, with length 1
        return [1] + out_shape, [[0] + t for t, _ in res], [v for _, v in res]
    return out_shape, [t for t, _ in res], [v for _, v in res]


def _huge_run(case):
    import numpy as np
    import sparse
    shape = tuple(case["shape"])
    nd = len(shape)
    n = len(case["coords"])
    co = np.array(case["coords"], dtype=np.intp).reshape(n, nd).T if n else np.zeros((nd, 0), dtype=np.intp)
    x = sparse.COO(co, np.array(case["data"], dtype=np.int64), shape=shape)
    if case["fmt"] == "dok":
        x = sparse.DOK.from_coo(x)
    key = tuple(k[1] if k[0] == "i" else slice(k[1], k[2], k[3]) for k in case["key"])
    if case.get("take"):
        r = sparse.take(x, np.array([key[0]], dtype=np.intp), axis=0)
    else:
        r = x[key if len(key) > 1 else key[0]]
    if isinstance(r, sparse.DOK):
        r = r.asformat("coo")
    if isinstance(r, sparse.COO):
        order = np.lexsort(r.coords[::-1]) if r.ndim else np.arange(r.nnz)
        keep = [i for i in order if r.data[i] != 0]
        return {"shape": [int(d) for d in r.shape], "coords": [[int(v) for v in r.coords[:, i]] for i in keep], "data": [int(r.data[i]) for i in keep]}
    return {"scalar": int(r)}


def impl_huge(case):
    """one indexing call on an array of huge extent with <= 3 stored elements, in a forked child whose CPU time is
    limited (a nogil kernel cannot be interrupted otherwise): {"out": ...} | {"slow": True} | {"exc": ...}"""
    import json as _json
    import os
    import resource
    import signal
    import sparse
    import numpy as np
    # compile the indexing kernels in THIS process first, so the child's CPU budget is not spent in the JIT
    if not _HUGE_WARM:
        _HUGE_WARM.append(1)
        _huge_warm(np, sparse)
    rd, wr = os.pipe()
    return _huge_fork(case, rd, wr, os, resource, signal, _json)


_HUGE_WARM = []


def _huge_warm(np, sparse):
    w = sparse.COO(np.array([[1, 5]]), np.array([1, 2]), shape=(16,))
    _ = w[2:9], w[2:9:2], w[9:2:-1], w[3]
    w2 = sparse.COO(np.array([[1, 5], [0, 1]]), np.array([1, 2]), shape=(16, 2))
    _ = w2[2:9, 1], w2[1, 0:2], w2[2:9, 0:1]
    _ = sparse.DOK.from_coo(w)[2:9]
    _ = sparse.take(w, np.array([1], dtype=np.intp), axis=0)


def _huge_fork(case, rd, wr, os, resource, signal, _json):
    pid = os.fork()
    if pid == 0:
        try:
            os.close(rd)
            resource.setrlimit(resource.RLIMIT_CPU, (CPU_LIMIT_S, CPU_LIMIT_S + 1))
            try:
                out = {"out": _huge_run(case)}
            except Exception as ex:  # noqa: BLE001
                out = {"exc": canon_exc(ex), "cls": type(ex).__name__, "msg": str(ex)[:120]}
            os.write(wr, _json.dumps(out).encode())
        finally:
            os._exit(0)
    os.close(wr)
    buf = b""
    while True:
        chunk = os.read(rd, 65536)
        if not chunk:
            break
        buf += chunk
    os.close(rd)
    _pid, st = os.waitpid(pid, 0)
    if os.WIFSIGNALED(st) and os.WTERMSIG(st) in (signal.SIGXCPU, signal.SIGKILL):
        return {"slow": True, "cpu_limit_s": CPU_LIMIT_S}
    if not buf:
        return {"crash": st}
    return _json.loads(buf.decode())


def impl_kernel(case):
    """run one compiled kernel on small inputs"""
    if case["k"] == "huge":
        return impl_huge(case)
    import numba
    import numpy as np
    from sparse.numba_backend import _common as C
    k = case["k"]
    i64 = np.dtype("int64")
    if k in ("dcn", "dcns"):
        coords = np.array([case["rows"], case["cols"]], dtype=np.intp).reshape(2, len(case["data"]))
        data = np.array(case["data"], dtype=np.int64)
        arr2 = np.array(case["arr2"], dtype=np.int64).reshape(case["C"], case["K"])
        if k == "dcn":
            out = C._dot_coo_ndarray_type(i64, i64)(coords, data, arr2, (case["R"], case["C"]))
            return {"out": [[int(v) for v in r] for r in out]}
        co, da = C._dot_coo_ndarray_type_sparse(i64, i64)(coords, data, arr2, (case["R"], case["C"]))
        return {"out": [[int(co[0, i]), int(co[1, i]), int(da[i])] for i in range(len(da))]}
    if k in ("dnc", "dncs"):
        coords = np.array([case["c0"], case["c1"]], dtype=np.intp).reshape(2, len(case["data"]))
        data = np.array(case["data"], dtype=np.int64)
        arr1 = np.array(case["arr1"], dtype=np.int64).reshape(case["R"], case["K"])
        if k == "dnc":
            out = C._dot_ndarray_coo_type(i64, i64)(arr1, coords, data, (case["R"], case["C"]))
            return {"out": [[int(v) for v in r] for r in out]}
        co, da = C._dot_ndarray_coo_type_sparse(i64, i64)(arr1, coords, data, (case["R"], case["C"]))
        return {"out": [[int(co[0, i]), int(co[1, i]), int(da[i])] for i in range(len(da))]}
    if k == "slicing":
        from sparse.numba_backend._compressed.indexing import get_slicing_selection
        ind = np.array(case["indices"], dtype=np.intp)
        s, e = case["start"], case["end"]
        data, indices, _ptr = get_slicing_selection(np.arange(len(ind), dtype=np.intp), ind, np.zeros(2, dtype=np.intp),
                                                    np.array([s], dtype=np.intp), np.array([e], dtype=np.intp),
                                                    np.array(case["col"], dtype=np.intp))
        return {"out": [[int(x), int(y)] for x, y in zip(data, indices, strict=True)]}
    if k == "match":
        from sparse.numba_backend._umath import _match_arrays
        ai, bi = _match_arrays(np.array(case["a"], dtype=np.intp), np.array(case["b"], dtype=np.intp))
        return {"out": [[int(x), int(y)] for x, y in zip(ai, bi, strict=True)]}
    if k == "pairs":
        from sparse.numba_backend._coo.indexing import _get_mask_pairs
        so = numba.typed.List.empty_list(numba.types.intp)
        st = numba.typed.List.empty_list(numba.types.intp)
        for lo, hi in case["pairs"]:
            so.append(lo)
            st.append(hi)
        s2, t2, _n = _get_mask_pairs(so, st, np.array(case["c"], dtype=np.intp), np.array(case["idx"], dtype=np.intp))
        return {"out": [[int(x), int(y)] for x, y in zip(s2, t2, strict=True)]}
    if k == "csrcsr":
        f = C._dot_csr_csr_type(i64, i64)
        ar = lambda v: np.array(v, dtype=np.intp)   # noqa: E731
        d, ind, ptr = f((case["n_row"], case["n_col"]), np.array(case["ad"], dtype=np.int64), np.array(case["bd"], dtype=np.int64),
                        ar(case["ai"]), ar(case["bi"]), ar(case["ap"]), ar(case["bp"]))
        return {"out": [[int(v) for v in d], [int(v) for v in ind], [int(v) for v in ptr]]}
    if k == "cscnd":
        f = C._dot_csc_ndarray_type_sparse(i64, i64)
        ar = lambda v: np.array(v, dtype=np.intp)   # noqa: E731
        b = np.array(case["b"], dtype=np.int64).reshape(case["bK"], case["bC"])
        d, ind, ptr = f((case["a_rows"], case["bK"]), (case["bK"], case["bC"]), np.array(case["ad"], dtype=np.int64), ar(case["ai"]), ar(case["ap"]), b)
        return {"out": [[int(v) for v in d], [int(v) for v in ind], [int(v) for v in ptr]]}
    if k == "uncompress":
        from sparse.numba_backend._compressed.convert import uncompress_dimension
        return {"out": [int(v) for v in uncompress_dimension(np.array(case["indptr"], dtype=np.intp))]}
    if k == "linearize":
        from sparse.numba_backend._compressed.convert import _linearize
        ar = lambda v: np.array(v, dtype=np.intp)   # noqa: E731
        n = len(case["xs"])
        lin = np.zeros(n, dtype=np.intp)
        co = np.zeros((2, n), dtype=np.intp)
        _linearize(ar(case["xs"]), ar(case["shape"]), ar(case["order"]), ar(case["rshape"]), ar(case["cshape"]), lin, co)
        return {"out": [[int(v) for v in lin], [int(v) for v in co[0]], [int(v) for v in co[1]]]}
    if k == "search":
        @numba.njit
        def ss(a, v, right):
            if right:
                return np.searchsorted(a, v, side="right")
            return np.searchsorted(a, v, side="left")
        return {"out": int(ss(np.array(case["a"], dtype=np.intp), case["v"], bool(case["right"])))}
    raise ValueError(k)


# ------------------------------------------------------------------ case generation
def base_specs(tier, seed):
    rng = random.Random(seed * 7919 + 18)
    shapes = [(), (0,), (1,), (2,), (0, 2), (2, 0), (1, 2), (2, 1), (2, 2), (2, 1, 2), (0, 2, 1)]
    if tier != "quick":
        shapes += [(3,), (1, 1), (3, 2), (2, 3), (2, 2, 2), (1, 0, 2), (3, 1, 2)]
    out = []
    for sh in shapes:
        out.append(vlib.gen_array_spec(rng, shape=sh, density=0.7))
    return out


def with_fmt(spec, fmt, rng=None):
    s = dict(spec)
    s["format"] = fmt
    nd = len(s["shape"])
    if fmt == "gcxs" and nd >= 2:
        s["caxes"] = [0] if rng is None else sorted(rng.sample(range(nd), rng.randint(1, nd - 1)))
    return s


def fmts_for(spec, want=("coo", "gcxs")):
    nd = len(spec["shape"])
    out = []
    for f in want:
        if f == "gcxs" and nd == 0:
            continue          # 0-d GCXS is finding D22 of C02
        if f == "dok" and nd == 0:
            continue
        out.append(f)
    return out


def axis_cands(nd):
    ints = [a for a in range(-nd - 1, nd + 2)]
    tups = [list(t) for t in itertools.product(range(-nd - 1, nd + 1), repeat=2)] if nd <= 2 else \
        [[0, 1], [0, 0], [1, -2], [0, 3], [-1, -3], [2, 0, 1]]
    return [None] + ints + tups + [[]] + [["f", 1.5], ["s", "a"]]


def gen_cases(tier, seed):
    rng = random.Random(seed * 104729 + 18)
    specs = base_specs(tier, seed)
    cases = []

    def add(op, a=None, b=None, **args):
        cases.append({"op": op, "a": a, "b": b, "args": args})

    # ---- getitem
    for sp in specs:
        nd = len(sp["shape"])
        idxs = [["i", i] for i in range(-3, 4)] + [["npi", 1], ["f", 1.5], ["s", "a"], ["n"], ["e"],
                                                    ["t", [["e"], ["e"]]], ["sl", None, None, 0], ["sl", 0, 5, 2],
                                                    ["li", [0, 5]], ["li", [0]], ["ai", [-9]], ["lb", [True, False, True]],
                                                    ["lb", [True] * (sp["shape"][0] if nd else 1)], ["t", []]]
        vals = [-3, -1, 0, 1, 2]
        for k in (2, 3):
            if k <= nd + 1:
                combos = list(itertools.product(vals, repeat=k))
                if len(combos) > 40:
                    combos = rng.sample(combos, 40)
                idxs += [["t", [["i", v] for v in c]] for c in combos]
        idxs += [["t", [["sl", None, None, None], ["i", 7]]], ["t", [["i", 0], ["f", 1.5]]],
                 ["t", [["n"], ["i", 0]]], ["t", [["li", [0, 1]], ["li", [0, 1]]]], ["t", [["li", [0, 1]], ["li", [0]]]]]
        # integer-array / list indices sitting exactly on, just above and just below the bounds of each axis
        # (entry == n is the first out-of-bounds position; -n-1 the first below), alone and next to valid entries
        boundary = []
        for ax in range(nd):
            n = sp["shape"][ax]
            for ent in ([n], [n + 1], [-n - 1], [0, n] if n else [n, n], [-n - 1, -1] if n else [-1]):
                for tag in ("li", "ai"):
                    pre = [["sl", None, None, None]] * ax
                    boundary.append(["t", pre + [[tag, ent]]])
                    if ax and all(sp["shape"][:ax]):
                        boundary.append(["t", [["i", 0]] * ax + [[tag, ent]]])
        for fmt in fmts_for(sp, ("coo", "gcxs", "dok")):
            for ix in boundary:
                add("getitem", with_fmt(sp, fmt, rng), idx=ix, advanced=True, boundary=True)
            sel = idxs if fmt == "coo" else rng.sample(idxs, min(len(idxs), 20 if tier == "quick" else 60))
            for ix in sel:
                adv = any(t in json.dumps(ix) for t in ('"li"', '"ai"', '"lb"'))
                add("getitem", with_fmt(sp, fmt, rng), idx=ix, advanced=adv or fmt == "dok")
    # ---- reductions
    for sp in specs:
        nd = len(sp["shape"])
        for name in ("sum", "max", "any", "prod", "mean", "min"):
            cands = axis_cands(nd)
            if name not in ("sum", "max"):
                cands = rng.sample(cands, min(len(cands), 8))
            for fmt in fmts_for(sp):
                for ax in (cands if fmt == "coo" else rng.sample(cands, min(len(cands), 8))):
                    add(name, with_fmt(sp, fmt, rng), axis=ax)
    # ---- transpose / permute_dims / moveaxis / swapaxes
    for sp in specs:
        nd = len(sp["shape"])
        perms = [list(t) for t in itertools.product(range(-nd, nd), repeat=nd)] if nd <= 2 else \
            [list(t) for t in itertools.permutations(range(nd))] + [[0, 0, 1], [0, 1, 3], [-1, -2, -3], [0, -3, 1], [2, 1]]
        perms += [[0] * (nd + 1), list(range(nd))[:-1] if nd else [0], [nd] * nd if nd else [1]]
        for fmt in fmts_for(sp):
            for p in perms:
                add("transpose", with_fmt(sp, fmt, rng), axes=p)
            add("transpose", with_fmt(sp, fmt, rng), axes=None)
            add("permute_dims", with_fmt(sp, fmt, rng), axes=perms[0])
            for s_, d_ in itertools.product(range(-nd - 1, nd + 1), repeat=2):
                add("moveaxis", with_fmt(sp, fmt, rng), src=s_, dst=d_)
                if fmt == "coo":
                    add("swapaxes", with_fmt(sp, fmt, rng), a1=s_, a2=d_)
            add("moveaxis", with_fmt(sp, fmt, rng), src=[0, 0], dst=[0, 1])
            add("moveaxis", with_fmt(sp, fmt, rng), src=[0, 1], dst=[0])
    # ---- axis tuples that name one axis TWICE through sign aliasing (d and d - ndim), not only literal repeats:
    # NumPy rejects them all (ValueError / AxisError) after normalising
    for sp in specs:
        nd = len(sp["shape"])
        if nd == 0:
            continue
        alias = []
        for d in range(nd):
            alias += [[d, d - nd], [d - nd, d]]
            for o in range(nd):
                if o != d:
                    alias += [[o, d, d - nd], [d - nd, o - nd, d]]
        for fmt in fmts_for(sp):
            x = with_fmt(sp, fmt, rng)
            for t in alias:
                k = len(t)
                goods = [list(p) for p in itertools.permutations(range(nd), k)][:2] + [[g - nd for g in range(k)]] if k <= nd else []
                for g in goods:
                    add("moveaxis", x, src=g, dst=t)
                    add("moveaxis", x, src=t, dst=g)
                if k == nd:
                    add("transpose", x, axes=t)
                    add("permute_dims", x, axes=t)
                for name in ("sum", "max", "any", "prod", "mean", "min"):
                    add(name, x, axis=t)
                add("squeeze", x, axis=t)
                if fmt == "coo":
                    add("flip", x, axis=t)
                    add("roll", x, shift=[1] * k, axis=t)
                    add("expand_dims", x, axis=t)
        if nd >= 2:
            for d in range(nd):
                add("diagonal", with_fmt(sp, "coo"), offset=0, a1=d, a2=d - nd)
                add("diagonal", with_fmt(sp, "coo"), offset=0, a1=d - nd, a2=d)
                add("swapaxes", with_fmt(sp, "coo"), a1=d, a2=d - nd)
            for s2 in specs:
                if s2["shape"] == sp["shape"]:
                    add("tensordot", with_fmt(sp, "coo"), with_fmt(s2, "coo"), axes=[[0, -nd], [0, 1]])
                    add("tensordot", with_fmt(sp, "coo"), with_fmt(s2, "coo"), axes=[[0, 1], [1, 1 - nd]])
    # ---- reshape
    ext = [-1, 0, 1, 2, 3, 4]
    targets = [[]] + [[x] for x in ext + [6, 8]] + [list(t) for t in itertools.product(ext, repeat=2)]
    t3 = [list(t) for t in itertools.product([-1, 0, 1, 2], repeat=3)]
    for sp in specs:
        for fmt in fmts_for(sp):
            tt = targets + rng.sample(t3, 12 if tier == "quick" else 40)
            if fmt != "coo":
                tt = rng.sample(tt, 15)
            for t in tt:
                add("reshape", with_fmt(sp, fmt, rng), shape=t)
    # ---- squeeze / flip / expand_dims / argmax / argmin / sort
    for sp in specs:
        nd = len(sp["shape"])
        for fmt in fmts_for(sp):
            for ax in axis_cands(nd)[: 2 * nd + 5] + [[0, 0], [0, 1], ["f", 1.5]]:
                add("squeeze", with_fmt(sp, fmt, rng), axis=ax)
                if fmt == "coo":
                    add("flip", with_fmt(sp, fmt, rng), axis=ax)
                    add("expand_dims", with_fmt(sp, fmt, rng), axis=ax)
            for ax in [None] + list(range(-nd - 1, nd + 1)):
                if fmt == "coo":
                    add("argmax", with_fmt(sp, fmt, rng), axis=ax, doc_limit=True)
                    add("sort", with_fmt(sp, fmt, rng), axis=ax, doc_limit=True)
    # ---- concatenate / stack
    by_nd = {}
    for sp in specs:
        by_nd.setdefault(len(sp["shape"]), []).append(sp)
    for nd, group in by_nd.items():
        for s1, s2 in itertools.product(group, repeat=2):
            for ax in [None] + list(range(-nd - 2, nd + 2)):
                f2 = rng.choice(["coo", "coo", "gcxs"]) if nd >= 1 else "coo"
                add("concatenate", with_fmt(s1, "coo"), with_fmt(s2, f2, rng), axis=ax)
                add("stack", with_fmt(s1, "coo"), with_fmt(s2, f2, rng), axis=ax)
    add("concatenate", None, None, axis=0)
    add("stack", None, None, axis=0)
    for s1 in specs[:6]:
        s2 = rng.choice(specs)
        if len(s1["shape"]) != len(s2["shape"]):
            add("concatenate", with_fmt(s1, "coo"), with_fmt(s2, "coo"), axis=0)
            add("stack", with_fmt(s1, "coo"), with_fmt(s2, "coo"), axis=0)
    # ---- products
    prng = random.Random(seed + 4)
    pshapes = [(), (0,), (1,), (2,), (3,), (0, 2), (2, 0), (2, 2), (2, 3), (3, 2), (3, 0), (0, 3), (2, 2, 2)]
    if tier != "quick":
        pshapes += [(1, 3), (2, 0, 2), (1, 1)]
    pspecs = [vlib.gen_array_spec(prng, shape=sh, density=0.8) for sh in pshapes]
    kinds = [("coo", "coo"), ("coo", "dense"), ("dense", "coo"), ("gcxs", "gcxs"), ("gcxs", "dense"), ("dense", "gcxs")]
    if tier != "quick":
        kinds.append(("coo", "gcxs"))
    for s1, s2 in itertools.product(pspecs, repeat=2):
        for ka, kb in kinds:
            if (ka == "gcxs" and not s1["shape"]) or (kb == "gcxs" and not s2["shape"]):
                continue
            add("dot", with_fmt(s1, ka), with_fmt(s2, kb))
            if tier != "quick" or prng.random() < 0.25:
                add("matmul", with_fmt(s1, ka), with_fmt(s2, kb))
            if tier != "quick" or prng.random() < 0.2:
                add("tensordot", with_fmt(s1, ka), with_fmt(s2, kb), axes=prng.choice([0, 1, 2, [[0], [0]], [[-1], [0]], [[0, 1], [1, 0]], [[5], [0]]]))
    for s1, s2 in itertools.product(pspecs[:9], repeat=2):
        if prng.random() < 0.5:
            add("kron", with_fmt(s1, "coo"), with_fmt(s2, prng.choice(["coo", "dense"])))
        if prng.random() < 0.3:
            add("outer", with_fmt(s1, "coo"), with_fmt(s2, "coo"))
        if prng.random() < 0.3:
            add("vecdot", with_fmt(s1, "coo"), with_fmt(s2, "coo"), axis=prng.choice([-1, 0, 1, -3]))
    # nonzero fill operands (documented limitation)
    # ---- multi-step sequences through an EMPTY intermediate result (zero-length contraction, or an empty array with
    # caller-supplied unsigned coords): product -> join / shift -> read.  Each step alone is covered above; the
    # sequence checks that the intermediate object is an ordinary array for the next operation.
    srng = random.Random(seed * 17 + 5)
    for m_, n_ in itertools.product([0, 1, 2], repeat=2):
        pa = vlib.gen_array_spec(srng, shape=(m_, 0), density=0.0)
        pb = vlib.gen_array_spec(srng, shape=(0, n_), density=0.0)
        xs = vlib.gen_array_spec(srng, shape=(m_, n_), density=0.8)
        seconds = [("concatenate", ax) for ax in (0, 1, -1)] + [("stack", ax) for ax in (0, 1, 2)] + \
                  [("roll", 0), ("roll", 1), ("add", None), ("where", None)]
        for prod in ("dot", "matmul", "tensordot", "uint64", "uint8"):
            for sec, ax in seconds:
                for order in (("rx", "xr") if sec in ("concatenate", "stack") else ("rx",)):
                    thirds = ["todense", "sum", "getitem", "T"] if tier != "quick" else [srng.choice(["todense", "todense", "sum", "getitem", "T"])]
                    for third in thirds:
                        for fa_, fb_ in ((("coo", "coo"),) if tier == "quick" else (("coo", "coo"), ("gcxs", "gcxs"), ("coo", "gcxs"))):
                            add("seq_zero", with_fmt(pa, fa_), with_fmt(pb, fb_), prod=prod, second=sec, axis=ax, order=order,
                                third=third, x=with_fmt(xs, "coo"))
    # ---- products with an explicit result type and with complex / large-integer data (the sparse-result kernels:
    # a TypingError or a float64 accumulator shows only with these dtypes)
    drng = random.Random(seed * 23 + 9)
    dshapes = [(2, 3), (3, 2), (3, 0), (0, 3), (2, 2), (1, 3), (3, 1), (3,), (2,)]
    dspecs = [vlib.gen_array_spec(drng, shape=sh, density=0.8) for sh in dshapes]
    for s1, s2 in itertools.product(dspecs, repeat=2):
        if s1["shape"][-1] != s2["shape"][0]:
            continue
        for ka, kb in (("coo", "dense"), ("dense", "coo"), ("gcxs", "dense"), ("dense", "gcxs"), ("gcxs", "gcxs"), ("coo", "coo"), ("gcsc", "dense"), ("dense", "gcsc")):
            for rt in ("coo", "gcxs", "dense", None):
                for dt in ("int64", "complex128", "complex64", "int64big"):
                    if tier == "quick" and drng.random() > (0.2 if dt != "int64" else 0.1):
                        continue
                    def fm(sp_, k_):
                        t = with_fmt(sp_, "gcxs" if k_ == "gcsc" else k_)
                        if k_ == "gcsc" and len(t["shape"]) == 2:
                            t["caxes"] = [1]
                        if dt == "int64big":
                            t = dict(t, data=[v * 2 ** 28 for v in t["data"]])
                        return t
                    c = {"op": "dot_rt", "a": fm(s1, ka), "b": fm(s2, kb), "args": {"rt": rt}}
                    if dt.startswith("complex"):
                        c["dtype"] = dt
                    cases.append(c)
    # ---- NumPy functions of sub-namespaces the library does not mirror (must stay "not implemented": TypeError)
    for sp in specs:
        if len(sp["shape"]) in (1, 2, 3) and (tier != "quick" or sp["shape"] in ([2], [2, 2], [2, 1, 2], [0, 2])):
            for fn in SUBNS:
                for fmt in fmts_for(sp, ("coo", "gcxs", "dok")):
                    if tier == "quick" and fmt != "coo" and rng.random() < 0.6:
                        continue
                    add("np_subns", with_fmt(sp, fmt, rng), fn=fn)
    # ---- broadcast_to / elementwise
    bshapes = [list(t) for k in range(0, 4) for t in itertools.product([0, 1, 2], repeat=k)]
    for sp in specs:
        for fmt in fmts_for(sp):
            for t in (bshapes if fmt == "coo" else rng.sample(bshapes, 10)):
                add("broadcast_to", with_fmt(sp, fmt, rng), shape=t)
    for s1, s2 in itertools.product(specs, repeat=2):
        add("add", with_fmt(s1, "coo"), with_fmt(s2, "coo"))
        f2 = rng.choice(["gcxs", "dense", "dok"])
        if f2 == "dense" or len(s2["shape"]) >= 1:
            add("multiply", with_fmt(s1, "coo"), with_fmt(s2, f2, rng))
        if rng.random() < 0.2:
            add("where", with_fmt(s1, "coo"), with_fmt(s2, "coo"))
    # ---- roll / pad / triu / tril / diagonal
    for sp in specs:
        nd = len(sp["shape"])
        for shift, ax in itertools.product([0, 1, -1, 3, [1, 1], [1]], [None, 0, -1, nd, -nd - 1, [0, 1], [0, 0], [0], [1, 0]]):
            add("roll", with_fmt(sp, "coo"), shift=shift, axis=ax)
        for pw in [0, 1, -1, [1, 2], [[1, 1]] * nd if nd else [[1, 1]], [[1, 1]] * (nd + 1), [[0, -1]] * max(nd, 1)]:
            add("pad", with_fmt(sp, "coo"), pw=pw)
        for k in (-1, 0, 1, 5):
            for fmt in fmts_for(sp):
                add("triu", with_fmt(sp, fmt, rng), k=k)
                add("tril", with_fmt(sp, fmt, rng), k=k)
        for off, a1, a2 in itertools.product([-1, 0, 1] if tier != "quick" else [-1, 0], range(-nd - 1, nd + 1), range(-nd - 1, nd + 1)):
            if tier != "quick" and True or rng.random() < 0.6:
                add("diagonal", with_fmt(sp, "coo"), offset=off, a1=a1, a2=a2)
        for lo, hi in [(None, None), (0, None), (None, 1), (2, 1)]:
            add("clip", with_fmt(sp, "coo"), lo=lo, hi=hi)
        for ind, ax in itertools.product([[0], [0, 0], [5], [-1], []], [None, 0, -1, nd]):
            add("take", with_fmt(sp, "coo"), ind=ind, axis=ax, doc_limit=True)
    # ---- einsum
    subs1 = ["ij->ji", "ii->i", "ii", "i->", "ij->", "ij,jk->ik", "i->ii", "ij->k", "abc", "i j", ">>", "", "ij->ij->", "i,i", "...->...", "i...->...", "ijk->kji", "->"]
    subs2 = ["ij,jk->ik", "i,i->", "ij,ij->ij", "i,j->ij", "ij,jk", "ij,kl->ijkl", "i,i->j", "ij,j", ",->", "ij->ji", "ab,bc,cd->ad"]
    for sp in specs:
        for s in subs1:
            add("einsum", with_fmt(sp, "coo"), sub=s)
    for s1, s2 in itertools.product(specs[:9], repeat=2):
        for s in rng.sample(subs2, 3):
            add("einsum", with_fmt(s1, "coo"), with_fmt(s2, "coo"), sub=s)
    # ---- creation
    for N, M, k in itertools.product([-1, 0, 1, 2], [-1, 0, 2, None], [-1, 0, 3]):
        add("eye", N=N, M=M, k=k)
    for sh in [[], [0], [2], [2, 0], [-1], [2, -1], [1, 2]]:
        add("full", shape=sh)
        add("zeros", shape=sh)
    for sh in [[], [0], [2, 2], [3], [2, 0]]:
        size = 1
        for d in sh:
            size *= d
        for dens in [None, -0.1, 0.0, 0.5, 1.0, 1.5, float("nan")]:
            add("random", shape=sh, density=dens, nnz=None)
        for nnz in [-1, 0, 1, size, size + 1]:
            add("random", shape=sh, density=None, nnz=nnz)
        add("random", shape=sh, density=0.5, nnz=1)
    add("random", shape=[300], density=0.1, nnz=None, idx_dtype="uint8")
    add("random", shape=[100], density=0.1, nnz=None, idx_dtype="uint8")
    add("random", shape=[-2], density=0.5, nnz=None)
    # ---- asformat / compressed axes
    for sp in specs:
        nd = len(sp["shape"])
        for fmt_ in ["coo", "gcxs", "dok", "foo", "csr", "csc", 5]:
            add("asformat", with_fmt(sp, "coo"), fmt=fmt_, unknown=fmt_ in ("foo", 5))
        if nd >= 2:
            cas = [None, [], [0], [nd - 1], [nd], [-1], [-nd - 1], [0, 0], list(range(nd)), [1, 0], [0, 1], [0, 2]]
            for ca in cas:
                add("asformat", with_fmt(sp, "coo"), fmt="gcxs", caxes=ca)
    # ---- narrow / unsigned index dtypes (D6)
    for sp in specs:
        if len(sp["shape"]) >= 1:
            for dt in ("uint8", "int8", "uint64"):
                allw = ("rev", "triu", "tril", "T", "sum0", "flat", "roll", "neg", "pad", "diag", "flip", "concat", "kron", "step2", "gcxs", "gcxs_getitem")
                if tier == "quick" and dt == "uint8":
                    allw = ("rev", "triu", "T", "sum0", "flat", "roll", "neg", "pad", "gcxs", "gcxs_getitem")
                if tier == "quick" and dt == "int8":
                    allw = ("rev", "roll")
                if tier == "quick" and dt == "uint64":
                    allw = ("gcxs_getitem", "pad")
                for which in allw:
                    c = {"op": "idx_dtype_op", "a": with_fmt(sp, "coo"), "b": None, "args": {"which": which, "dt": dt}, "idx_dtype": dt}
                    cases.append(c)
    # ---- DOK assignment
    for sp in specs:
        nd = len(sp["shape"])
        if nd >= 1:
            for ix in [["i", 0], ["i", 5], ["i", -9], ["t", [["i", 0]] * (nd + 1)], ["f", 0.5], ["s", "a"], ["sl", None, None, 0],
                       ["sl", 0, 1, 1], ["li", [7]], ["t", [["i", 0]] * nd]]:
                add("dok_set", with_fmt(sp, "dok"), idx=ix, advanced=True)
    # ---- constructors
    for shape in [[2], [2, 2], [0], [2, 0], None]:
        nd = 1 if shape is None else len(shape)
        good = [[0] for _ in range(nd)] if shape and all(shape) else [[] for _ in range(nd)]
        variants = [
            (good, [5] * len(good[0]) if good else [5]),
            ([r + [1] for r in good], [5] * (len(good[0]) + 1 if good else 1)),          # second element (1,..,1)
            ([r + [5] for r in good], [5] * (len(good[0]) + 1 if good else 1)),          # out of range
            ([r + [-1] for r in good], [5] * (len(good[0]) + 1 if good else 1)),         # negative
            ([r + [0.5] for r in good], [5] * (len(good[0]) + 1 if good else 1)),        # non-integer
            (good + [[0] * (len(good[0]) if good else 0)], [5] * (len(good[0]) if good else 0)),   # one row too many
            (good[:-1], [5] * (len(good[0]) if good else 0)),                                 # one row too few
            (good, [5] * ((len(good[0]) if good else 0) + 2)),                                # data too long
            (good, []),                                                                       # data too short / empty
            ([r + [0] for r in good], [5, 7] if good and len(good[0]) == 1 else [5] * ((len(good[0]) if good else 0) + 1)),  # duplicate
            ([[0, 1], [0]] if nd == 2 else [[0], [0, 1]], [5, 5]),                        # ragged
        ]
        for co, da in variants:
            add("ctor_coo", coords=co, data=da, shape=shape)
    add("ctor_coo", coords=[[0, 1]], data=[1, 2], shape=[300], idx_dtype="int8")
    add("ctor_coo", coords=[[0, 1]], data=[1, 2], shape=[100], idx_dtype="int8")
    add("ctor_coo", coords=[[0, 1]], data=[1, 2], shape=[-3])
    add("ctor_coo", coords=[[0, 1]], data=[1, 2], shape=[2.5])
    gc = [  # (data, indices, indptr, shape, caxes)
        ([1, 2], [0, 1], [0, 1, 2], [2, 2], [0]),
        ([1, 2], [0, 1], [0, 1, 2], [2, 2], [1]),
        ([1, 2], [0, 1], [0, 2], [2, 2], [0]),            # indptr too short
        ([1, 2], [0, 1], [0, 1, 2, 2], [2, 2], [0]),      # indptr too long
        ([1, 2], [0, 5], [0, 1, 2], [2, 2], [0]),         # index out of range
        ([1, 2], [0, -1], [0, 1, 2], [2, 2], [0]),        # negative index
        ([1, 2], [0, 1], [0, 2, 1], [2, 2], [0]),         # indptr decreasing
        ([1, 2], [0, 1], [0, 1, 5], [2, 2], [0]),         # indptr beyond nnz
        ([1, 2], [0, 1], [1, 1, 2], [2, 2], [0]),         # indptr does not start at 0
        ([1, 2, 3], [0, 1], [0, 1, 2], [2, 2], [0]),      # data longer
        ([1], [0, 1], [0, 1, 2], [2, 2], [0]),            # data shorter
        ([1, 2], [1, 0], [0, 2, 2], [2, 2], [0]),         # unsorted row
        ([1, 2], [0, 0], [0, 2, 2], [2, 2], [0]),         # duplicate in a row
        ([1, 2], [0, 1], [0, 1, 2], [2, 2], [0, 1]),      # all axes compressed
        ([1, 2], [0, 1], [0, 1, 2], [2, 2], [2]),         # axis out of range
        ([1, 2], [0, 1], [0, 1, 2], [2, 2], [-1]),
        ([1, 2], [0, 1], [0, 1, 2], [2, 2], None),
        ([], [], [0, 0, 0], [2, 0], [0]),
        ([], [], [0], [0, 2], [0]),
        ([], [], [], [0, 2], [0]),                         # empty indptr
        ([1], [0], [], [2], None),
        ([1], [3], [], [2], None),                         # 1-d index out of range
        ([1, 2], [0, 1], [0, 1, 2], [2, 2, 2], [0]),      # shape inconsistent with indptr/indices
    ]
    for da, ind, ptr, sh, ca in gc:
        add("ctor_gcxs", data=da, indices=ind, indptr=ptr, shape=sh, caxes=ca)
    add("probe", which="caxes_1_8")
    return cases


def gen_kernel_cases(tier, seed):
    rng = random.Random(seed * 31 + 18)
    out = []
    ext = [0, 1, 2, 3]
    # COO (R x K) @ dense (K x C): coords sorted by row
    nzc = 0
    for R, K, C in itertools.product(ext, ext, ext):
        for _ in range(2 if tier == "quick" else 5):
            cells = [(r, k) for r in range(R) for k in range(K) if rng.random() < 0.6]
            rows = [c[0] for c in cells]
            cols = [c[1] for c in cells]
            data = [rng.choice([-2, -1, 1, 2, 3]) for _ in cells]
            arr2 = [[rng.choice([-1, 0, 1, 2]) for _ in range(K)] for _ in range(C)]
            zero_cols = C == 0 and bool(data)     # the class that hung before the repair of D3: a regression costs the watchdog per case
            if not (tier == "quick" and zero_cols and nzc >= 2):
                out.append({"k": "dcn", "rows": rows, "cols": cols, "data": data, "arr2": arr2, "R": R, "C": C, "K": K})
                out.append({"k": "dcns", "rows": rows, "cols": cols, "data": data, "arr2": arr2, "R": R, "C": C, "K": K})
                nzc += 1 if zero_cols else 0
            # dense (R x K) @ COO (K x C): the kernel receives coords2 = (k, c) [dense result] or the transpose's
            cells2 = sorted((k, c) for k in range(K) for c in range(C) if rng.random() < 0.6)
            arr1 = [[rng.choice([-1, 0, 1, 2]) for _ in range(K)] for _ in range(R)]
            d2 = [rng.choice([-2, -1, 1, 2, 3]) for _ in cells2]
            out.append({"k": "dnc", "c0": [c[0] for c in cells2], "c1": [c[1] for c in cells2], "data": d2, "arr1": arr1, "R": R, "C": C, "K": K})
            cells3 = sorted((c, k) for k in range(K) for c in range(C) if rng.random() < 0.6)
            d3 = [rng.choice([-2, -1, 1, 2, 3]) for _ in cells3]
            out.append({"k": "dncs", "c0": [c[0] for c in cells3], "c1": [c[1] for c in cells3], "data": d3, "arr1": arr1, "R": R, "C": C, "K": K})
    # get_slicing_selection: sorted row segments, ascending column requests
    n = 150 if tier == "quick" else 800
    for _ in range(n):
        L = rng.randint(0, 7)
        row = sorted(rng.sample(range(10), L))
        pre = [rng.randint(0, 9) for _ in range(rng.randint(0, 2))]
        colstart, colstep = rng.randint(0, 9), rng.randint(1, 4)
        col = list(range(colstart, rng.randint(colstart, 11), colstep))
        out.append({"k": "slicing", "indices": pre + row + [rng.randint(0, 9) for _ in range(rng.randint(0, 2))],
                    "start": len(pre), "end": len(pre) + L, "col": col})
    for _ in range(n):
        a = sorted(rng.choice(range(6)) for _ in range(rng.randint(0, 6)))
        b = sorted(rng.choice(range(6)) for _ in range(rng.randint(0, 6)))
        if rng.random() < 0.2:
            rng.shuffle(b)                      # safety does not need sortedness
        out.append({"k": "match", "a": a, "b": b})
    for _ in range(n):
        c = [rng.randint(0, 4) for _ in range(rng.randint(0, 8))]
        cuts = sorted(rng.sample(range(len(c) + 1), min(len(c) + 1, rng.choice([2, 2, 4]))))
        pairs = [[cuts[i], cuts[i + 1]] for i in range(0, len(cuts) - 1, 2)]
        for lo, hi in pairs:
            c[lo:hi] = sorted(c[lo:hi])
        idx = [rng.randint(0, 4), rng.randint(0, 6), rng.choice([1, 1, 2, 3])]
        out.append({"k": "pairs", "pairs": pairs, "c": c, "idx": idx})
    def csr(rows, cols):
        ind, dat, ptr = [], [], [0]
        for _r in range(rows):
            cs = sorted(c for c in range(cols) if rng.random() < 0.5)
            ind += cs
            dat += [rng.choice([-2, -1, 1, 2, 3]) for _ in cs]
            ptr.append(len(ind))
        return ind, dat, ptr
    for R, K, C in itertools.product([0, 1, 2, 3], repeat=3):
        for _ in range(2 if tier == "quick" else 6):
            ai, ad, ap = csr(R, K)
            bi, bd, bp = csr(K, C)
            out.append({"k": "csrcsr", "ai": ai, "ad": ad, "ap": ap, "bi": bi, "bd": bd, "bp": bp, "n_row": R, "n_col": C})
            # a (R x K) column-compressed: K columns holding row numbers < R; b dense K x C
            ci, cd, cp = csr(K, R)
            b = [[rng.choice([-1, 0, 0, 1, 2]) for _ in range(C)] for _ in range(K)]
            out.append({"k": "cscnd", "ai": ci, "ad": cd, "ap": cp, "b": b, "a_rows": R, "bK": K, "bC": C})
    for _ in range(n // 3):
        cnts = [rng.randint(0, 3) for _ in range(rng.randint(0, 5))]
        ptr = [0]
        for c in cnts:
            ptr.append(ptr[-1] + c)
        out.append({"k": "uncompress", "indptr": ptr})
        shape = [rng.randint(1, 3) for _ in range(rng.randint(1, 3))]
        size = 1
        for d in shape:
            size *= d
        order = list(range(len(shape)))
        rng.shuffle(order)
        rshape = [shape[a] for a in order]
        cut = rng.randint(0, len(shape))
        r0 = 1
        for d in rshape[:cut]:
            r0 *= d
        xs = sorted(rng.sample(range(size), rng.randint(0, size)))
        out.append({"k": "linearize", "xs": xs, "shape": shape, "order": order, "rshape": rshape, "cshape": [r0, size // r0]})
    # indexing / slicing / take on HUGE extents with at most three stored elements: the time must not depend on the extent
    hr = random.Random(seed * 41 + 3)
    exts = [2 ** 31, 2 ** 40] if tier == "quick" else [2 ** 31, 2 ** 33, 2 ** 35, 2 ** 38, 2 ** 40]
    for E in exts:
        pos = [5, 2 ** 20 + 1, E // 2 + 7, E - 2]
        sls = [["s", 3, E // 2, 1], ["s", 3, E // 2, 7], ["s", E // 2, 3, -1], ["s", E - 5, 2, -5], ["s", None, None, 2],
               ["s", 1, None, None], ["s", None, -3, None], ["s", 6, E - 1, 2 ** 20]]
        for nnz in (0, 1, 2, 3):
            for fmt in ("coo", "dok"):
                ks = sls if fmt == "coo" else hr.sample(sls, 3)
                if tier == "quick":
                    ks = hr.sample(ks, min(len(ks), 4 if fmt == "coo" else 2))
                for k in ks:
                    cs = sorted(hr.sample(pos, nnz))
                    out.append({"k": "huge", "shape": [E], "coords": [[c] for c in cs], "data": [hr.choice([1, 2, 3]) for _ in cs], "key": [k], "fmt": fmt})
                    # 2-d: a long NON-trailing slice followed by an integer / a short slice; a row with one element
                    cs2 = sorted([c, hr.randint(0, 2)] for c in cs)
                    out.append({"k": "huge", "shape": [E, 3], "coords": cs2, "data": [hr.choice([1, 2, 3]) for _ in cs2],
                                "key": [k, hr.choice([["i", 1], ["s", 0, 2, 1]])], "fmt": fmt})
                    cs3 = sorted([hr.randint(0, 2), c] for c in cs)
                    out.append({"k": "huge", "shape": [3, E], "coords": cs3, "data": [hr.choice([1, 2, 3]) for _ in cs3],
                                "key": [hr.choice([["i", 1], ["s", 0, 2, 1]]), k], "fmt": fmt})
            cs = sorted(hr.sample(pos, nnz))
            out.append({"k": "huge", "shape": [E], "coords": [[c] for c in cs], "data": [1] * len(cs), "key": [["i", (cs or [7])[0]]], "fmt": "coo"})
            out.append({"k": "huge", "shape": [E], "coords": [[c] for c in cs], "data": [1] * len(cs), "key": [["i", (cs or [7])[0]]], "fmt": "coo", "take": True})
    for _ in range(n):
        a = sorted(rng.randint(0, 6) for _ in range(rng.randint(0, 8)))
        out.append({"k": "search", "a": a, "v": rng.randint(-1, 7), "right": rng.random() < 0.5})
    return out


# ------------------------------------------------------------------ oracle for sparse-only operations (executable Spec)
def spec_oracle(case):
    """(accepts, dense value or None) for the operations NumPy has no counterpart of"""
    import numpy as np
    op, A = case["op"], case["args"]
    if op == "ctor_coo":
        sh, co, da = A["shape"], A["coords"], A["data"]
        if sh is None or any((not isinstance(d, int)) or d < 0 for d in sh):
            return False, None
        if A.get("idx_dtype") and sh and max(sh) > np.iinfo(A["idx_dtype"]).max:
            return False, None
        nd = len(sh)
        if any(len(r) != len(co[0]) for r in co) if co else False:
            return False, None
        n = len(co[0]) if co else 0
        if nd == 0:
            return (len(co) == 0 or n <= 1) and len(da) in (n, 1) or (len(co) == 0 and len(da) <= 1), None
        if len(co) != nd and not (n == 0 and len(da) == 0):
            return False, None
        if len(da) != n:
            return False, None
        for r, d in zip(co, sh, strict=False):
            for v in r:
                if not isinstance(v, int) or not 0 <= v < d:
                    return False, None
        out = np.zeros(tuple(sh), dtype=np.int64)
        if n:
            np.add.at(out, tuple(np.array(r, dtype=np.intp) for r in co), np.array(da))
        return True, out
    if op == "np_subns":
        return False, None        # sparse mirrors no NumPy sub-namespace: every such function is "not implemented"
    if op == "random":
        sh = A["shape"]
        if any(d < 0 for d in sh):
            return False, None
        size = int(np.prod(sh, dtype=np.int64)) if sh else 1
        if A.get("density") is not None and A.get("nnz") is not None:
            return False, None
        d = A.get("density")
        if d is not None and not (0 <= d <= 1):
            return False, None
        if A.get("nnz") is not None and not (0 <= A["nnz"] <= size):
            return False, None
        if A.get("idx_dtype") and sh and max(sh) > np.iinfo(A["idx_dtype"]).max:
            return False, None
        return True, None
    if op == "asformat":
        fmt = A["fmt"]
        nd = len(case["a"]["shape"])
        if fmt not in ("coo", "gcxs", "dok", "csr", "csc"):
            return False, None
        if fmt in ("csr", "csc") and nd != 2:
            return False, None
        if fmt == "gcxs" and "caxes" in A and A["caxes"] is not None:
            ca = A["caxes"]
            if any(not -nd <= x < nd for x in ca):
                return False, None
            ca = [x + nd if x < 0 else x for x in ca]           # normalize_axis runs first
            ok = len(ca) != nd and len(ca) > 0 and all(0 <= x < nd for x in ca) and all(x < y for x, y in zip(ca, ca[1:], strict=False))
            return (ok, vlib.spec_dense(case["a"]) if ok else None)
        return True, vlib.spec_dense(case["a"])
    raise KeyError(op)


# ------------------------------------------------------------------ model literal for the modelled validators
def zl(xs):
    return vlist(list(xs))


def all_int(xs):
    return isinstance(xs, (list, tuple)) and all(isinstance(x, int) and not isinstance(x, bool) for x in xs)


def model_of(case):
    op, A = case["op"], case["args"]
    a = case.get("a")
    sh = list(a["shape"]) if a else None
    nd = len(sh) if sh is not None else None
    if op == "getitem" and nd and A["idx"][0] == "i" and a["format"] == "coo":
        return f"(MIndex {vZ(A['idx'][1])} {vZ(sh[0])})"
    if op in ("max", "min") and 0 in sh:
        return "MNone"              # NumPy rejects every zero-size max/min, whatever the axis
    if op in ("sum", "max", "min", "any", "prod") and a["format"] == "coo":     # mean reads shape[axis] first
        ax = A["axis"]
        if isinstance(ax, int):
            return f"(MAxis {vZ(ax)} {vZ(nd)})"
        if all_int(ax) and ax:
            norm = [x + nd if x < 0 else x for x in ax]
            if all(-nd <= x < nd for x in ax) and len(set(norm)) < len(norm):
                return "MNone"      # repeated axes are caught later, by transpose (not by normalize_axis)
            return f"(MAxes {zl(ax)} {vZ(nd)})"
    if op == "moveaxis" and a["format"] == "coo":
        src = A["src"] if isinstance(A["src"], list) else [A["src"]]
        dst = A["dst"] if isinstance(A["dst"], list) else [A["dst"]]
        if all_int(src) and all_int(dst):
            return f"(MMoveaxis {zl(src)} {zl(dst)} {vZ(nd)})"
    if op == "transpose" and all_int(A["axes"]) and a["format"] == "coo":
        return f"(MPerm {zl(A['axes'])} {vZ(nd)})"
    if op == "reshape" and a["format"] == "coo" and all(x >= 0 for x in A["shape"]) and list(A["shape"]) != sh:
        size = 1
        for d in sh:
            size *= d
        return f"(MReshape {vZ(size)} {zl(A['shape'])})"
    if op == "broadcast_to" and a["format"] == "coo" and list(A["shape"]) != sh:
        return f"(MBroadcastTo {zl(sh)} {zl(A['shape'])})"
    if op == "add" and case["b"]["format"] == "coo":
        return f"(MBroadcast {zl(sh)} {zl(case['b']['shape'])})"
    if op == "dot":
        sa, sb = list(a["shape"]), list(case["b"]["shape"])
        if len(sa) == 1 and len(sb) == 1:
            return f"(MDot1d {vZ(sa[0])} {vZ(sb[0])})"
        if len(sa) >= 1 and len(sb) >= 1:
            return f"(MContract {zl([sa[-1]])} {zl([sb[-2] if len(sb) >= 2 else sb[-1]])})"
    if op == "matmul" and (len(a["shape"]) == 0 or len(case["b"]["shape"]) == 0):
        return f"(MMatmulNd {len(a['shape'])} {len(case['b']['shape'])})"     # otherwise NumPy may reject for other reasons
    if op == "einsum" and "->" in A["sub"] and A["sub"].count("->") == 1:
        out = A["sub"].split("->")[1]
        worst = max((out.count(ch) for ch in out if ch.isalpha()), default=1)
        if worst != 1:
            return f"(MEinsumOut {worst})"
    if op == "ctor_coo":
        co, da, shp = A["coords"], A["data"], A["shape"]
        if shp is not None and all(isinstance(d, int) and d >= 0 for d in shp) and co and all(len(r) == len(co[0]) for r in co) \
                and all(isinstance(v, int) for r in co for v in r) and not A.get("idx_dtype") \
                and all(0 <= v < d for r, d in zip(co, shp, strict=False) for v in r) and len(co[0]) > 0:
            return f"(MCooInit {len(da)} {len(co[0])} {len(shp)} {len(co)})"
    if op == "asformat" and A["fmt"] == "gcxs" and "caxes" in A and nd >= 2 and (A["caxes"] is None or all(-nd <= x < nd for x in A["caxes"])):
        # GCXS.from_coo normalises the axes (normalize_axis) before check_compressed_axes sees them
        ca = None if A["caxes"] is None else [x + nd if x < 0 else x for x in A["caxes"]]
        return f"(MCaxes {vZ(nd)} {vopt(ca, zl)})"
    return "MNone"


# ------------------------------------------------------------------ clauses
def clause_of(case, code, r):
    """stable name of the defect class a non-zero verdict belongs to"""
    op = case["op"]
    impl = r.get("impl") or {}
    cls = impl.get("exc")
    real = (impl.get("cls") or cls or "?").split(".")[-1]
    msg = impl.get("msg") or ""
    A = case["args"]
    a, b = case.get("a") or {}, case.get("b") or {}
    fa = a.get("format")
    nda, ndb = len(a.get("shape", [])), len(b.get("shape", []))
    if code == 10:
        return f"hang:{op}"
    if code == 11:
        return f"interpreter_crash:{op}"
    if op == "idx_dtype_op":
        if A["which"] == "gcxs_getitem" and real == "AttributeError":
            return "gcxs_getitem_unsigned_indices"
        if A.get("dt") == "uint64" and cls == "TypeError":
            return "uint64_promotes_to_float"
        return f"narrow_idx_dtype:{A['which']}:{real if cls else 'accepted'}"
    omsg = ((r.get("np") or {}).get("msg") or "")
    if op == "einsum" and code == 20 and "more dimensions than subscripts" in omsg:
        return "einsum_fewer_subscripts_than_dims_accepted"      # f21ab0d checks the other direction only
    if op == "ctor_gcxs" and code == 20:
        # 9bee746 rejects an index pointer of the wrong LENGTH; what stays unvalidated (O(nnz) checks): index out of
        # range / negative, pointer not monotone / not ending at nnz / not starting at 0, unsorted or repeated
        # entries in a row, data/indices length mismatch, n-d input without compressed axes
        sh, ca = A["shape"], A["caxes"]
        if len(sh) >= 2 and ca and all(0 <= x < len(sh) for x in ca):
            rows = 1
            for x in ca:
                rows *= sh[x]
            if len(A["indptr"]) != rows + 1:
                return "accepted_invalid:ctor_gcxs:indptr_length"
        return "gcxs_ctor_unvalidated"
    kind = {20: "accepted_invalid", 21: "wrong_exception_class", 40: "valid_rejected", 41: "internal_error",
            50: "class_differs_from_model", 51: "model_accepts", 52: "model_rejects", 53: "spec_vs_numpy"}.get(code, str(code))
    extra = (":" + real) if code in (21, 41) else ""
    fmt = (":" + fa) if fa and fa != "coo" else ""
    return f"{kind}:{op}{fmt}{extra}"


GENERIC_KINDS = ("accepted_invalid", "wrong_exception_class", "valid_rejected", "internal_error", "class_differs_from_model",
                 "model_accepts", "model_rejects", "spec_vs_numpy", "hang", "interpreter_crash")
OP_FAMILY = {"sum": "reduce", "max": "reduce", "min": "reduce", "any": "reduce", "prod": "reduce", "mean": "reduce",
             "triu": "triu_tril", "tril": "triu_tril", "concatenate": "concat_stack", "stack": "concat_stack",
             "getitem": "index", "dok_set": "index", "dot": "product", "matmul": "product", "tensordot": "product"}


def py_verdict(orc, al, status, impl):
    """the oracle-vs-implementation part of Corr/C18Judge.v:judge_api (used only when Coq cannot evaluate)"""
    if status == 1 or impl.get("hang"):
        return 10
    if status == 2 or "crash" in impl:
        return 11
    if impl.get("k") == "exc":
        e = impl.get("exc")
        clean = e in CLEAN
        if orc == 0:
            return 0 if clean or (al and e == "NotImplementedError") else 21
        if al:
            return 0 if clean or e == "NotImplementedError" else 41
        return 40 if clean else 41
    return 20 if orc == 0 else 0


def replay_line(case):
    return ("import sys; sys.path.insert(0, '/verif/tools'); import json, props.c18 as m; "
            f"print(json.dumps(m.impl_case(json.loads({json.dumps(json.dumps(case))})), default=str))")


def kernel_lit(c, r):
    def rows(m):
        return vlist(m, vlist)

    def trip(m):
        return vlist(m, lambda t: vpair(*(vZ(v) for v in t)))
    o = r.get("out") if isinstance(r, dict) else None
    status = 1 if (r is None or r.get("hang")) else 2 if "crash" in r else 0
    if o is None:
        o = [] if c["k"] != "search" else 0
    k = c["k"]
    if k == "dcn":
        body = f"KDotCN {zl(c['rows'])} {zl(c['cols'])} {zl(c['data'])} {rows(c['arr2'])} {vZ(c['R'])} {vZ(c['C'])} {rows(o)}"
    elif k == "dcns":
        body = f"KDotCNS {zl(c['rows'])} {zl(c['cols'])} {zl(c['data'])} {rows(c['arr2'])} {vZ(c['C'])} {trip(o)}"
    elif k == "dnc":
        body = f"KDotNC {rows(c['arr1'])} {zl(c['c0'])} {zl(c['c1'])} {zl(c['data'])} {vZ(c['R'])} {vZ(c['C'])} {rows(o)}"
    elif k == "dncs":
        body = f"KDotNCS {rows(c['arr1'])} {zl(c['c0'])} {zl(c['c1'])} {zl(c['data'])} {vZ(c['R'])} {trip(o)}"
    elif k == "slicing":
        body = f"KSlicing {zl(c['indices'][c['start']:c['end']])} {zl(c['col'])} {vZ(c['start'])} {trip(o)}"
    elif k == "match":
        body = f"KMatch {zl(c['a'])} {zl(c['b'])} {trip(o)}"
    elif k == "pairs":
        ps = list(range(c["idx"][0], c["idx"][1], c["idx"][2]))
        body = f"KMaskPairs {trip(c['pairs'])} {zl(c['c'])} {zl(ps)} {trip(o)}"
    elif k in ("csrcsr", "cscnd", "linearize"):
        t3 = "(%s, %s, %s)" % tuple(zl(x) for x in (o if len(o) == 3 else [[], [], []]))
        if k == "csrcsr":
            body = (f"KDotCsrCsr {zl(c['ai'])} {zl(c['ad'])} {zl(c['ap'])} {zl(c['bi'])} {zl(c['bd'])} {zl(c['bp'])} "
                    f"{vZ(c['n_row'])} {vZ(c['n_col'])} {t3}")
        elif k == "cscnd":
            body = f"KDotCscNd {zl(c['ai'])} {zl(c['ad'])} {zl(c['ap'])} {rows(c['b'])} {vZ(c['a_rows'])} {vZ(c['bK'])} {vZ(c['bC'])} {t3}"
        else:
            body = f"KLinearize {zl(c['xs'])} {zl(c['shape'])} {zl(c['order'])} {zl(c['rshape'])} {zl(c['cshape'])} {t3}"
    elif k == "uncompress":
        body = f"KUncompress {zl(c['indptr'])} {zl(o)}"
    elif k == "huge":
        esh, eco, eda = _huge_expected(c)
        if isinstance(r, dict) and r.get("slow"):
            status = 1
        if isinstance(o, dict) and "scalar" in o:
            # an all-integer key: the answer is the element
            body = f"KSparseEq {zl([])} {vlist([], zl)} {zl(eda or [0])} {zl([])} {vlist([], zl)} {zl([o['scalar']])}"
        else:
            o = o if isinstance(o, dict) else {"shape": [], "coords": [], "data": []}
            if status == 0 and isinstance(r, dict) and "exc" in r:
                status = 3
            body = (f"KSparseEq {zl(esh)} {vlist(eco, zl)} {zl(eda)} {zl(o.get('shape', []))} {vlist(o.get('coords', []), zl)} {zl(o.get('data', []))}")
    else:
        body = f"KSearch {vbool(c['right'])} {zl(c['a'])} {vZ(c['v'])} {vZ(o)}"
    return f"({status}, {body})"


# ------------------------------------------------------------------ campaign
def run_watchdogged(fname, cases, group_of, kind_of):
    """run the cases in worker processes: 3 op-families x 2 workers (so that every Numba kernel is
    JIT-compiled in 2 processes, not 6), first under the 40 s watchdog; a case that did not come back
    is run again in a fresh worker under a 120 s watchdog (a cold worker may spend tens of seconds in the
    JIT compiler on a loaded machine): only a case that fails to return TWICE is a hang.  To bound the
    cost of a regression that makes a whole class hang, at most two suspects per operation are re-run
    first; the others of that operation are re-run only if those two came back (otherwise they are
    reported as hangs of the same class without confirmation)."""
    import threading
    groups = {}
    for i, c in enumerate(cases):
        groups.setdefault(group_of(c), []).append(i)
    res = [None] * len(cases)

    def work(idx, timeout, workers):
        out = vlib.run_impl("props.c18", fname, [cases[i] for i in idx], workers=workers, per_case_timeout=timeout)
        for i, r in zip(idx, out, strict=True):
            res[i] = r
    ths = [threading.Thread(target=work, args=(idx, WATCHDOG, max(1, 6 // len(groups)))) for idx in groups.values()]
    for t in ths:
        t.start()
    for t in ths:
        t.join()
    suspects = [i for i, r in enumerate(res) if r is None or r.get("hang")]
    first_pass_suspects = len(suspects)
    if suspects:
        by_kind = {}
        for i in suspects:
            by_kind.setdefault(kind_of(cases[i]), []).append(i)
        probe = [i for idx in by_kind.values() for i in idx[:2]]
        work(probe, RETRY_WATCHDOG, 6)
        rest = []
        for idx in by_kind.values():
            if any(res[i] is None or res[i].get("hang") for i in idx[:2]):
                for i in idx[2:]:
                    res[i] = {"hang": True, "unconfirmed": True}
            else:
                rest += idx[2:]
        if rest:
            work(rest, RETRY_WATCHDOG, 6)
    return res, first_pass_suspects


def api_group(c):
    op = c["op"]
    if op == "dot":
        return 0
    if op in ("matmul", "tensordot", "idx_dtype_op", "kron", "outer", "vecdot", "einsum", "seq_zero", "dot_rt"):
        return 1
    return 2


def campaign(build, tier, seed, report, budget=1):
    import numpy as np
    viol = []
    build.make(["Corr/C18Judge.vo"], timeout=600)
    cases = gen_cases(tier, seed)
    kcases = gen_kernel_cases(tier, seed)
    import time
    t0 = time.time()
    res, sus1 = run_watchdogged("impl_case", cases, api_group, lambda c: c["op"])
    t1 = time.time()
    kres, sus2 = run_watchdogged("impl_kernel", kcases, lambda c: 0 if c["k"] in ("dcn", "dcns", "dnc", "dncs") else 2 if c["k"] in ("csrcsr", "cscnd", "huge") else 1, lambda c: c["k"])
    t2 = time.time()
    report["notes"].append(f"{sus1 + sus2} cases exceeded the {4 * WATCHDOG:.0f} s watchdog in the first pass and were re-run under 120 s; "
                           f"implementation side: API {t1 - t0:.0f} s, kernels {t2 - t1:.0f} s")

    lits, keep, pyv = [], [], []
    harness_errors = []
    oracle_hist = {}
    for i, (c, r) in enumerate(zip(cases, res, strict=True)):
        status = 0
        if r is None or r.get("hang"):
            status, r = 1, {"impl": {"hang": True}, "np": None}
        elif "crash" in r:
            status, r = 2, {"impl": {"crash": r["crash"]}, "np": None}
        elif "impl" not in r:
            harness_errors.append({"case": c, "error": r})
            continue
        res[i] = r
        npo = r.get("np")
        if status:
            orc, sh, flat = 2, [], []
        elif npo is None:
            try:
                ok, val = spec_oracle(c) if c["op"] not in ("ctor_gcxs",) else (None, None)
            except KeyError:
                ok, val = None, None
            if c["op"] == "ctor_gcxs":
                orc, sh, flat = -1, [], []         # decided in Coq by gcxs_wfb, see below
            elif ok is None:
                orc, sh, flat = 2, [], []
            elif not ok:
                orc, sh, flat = 0, [], []
            elif val is None:
                orc, sh, flat = 2, [], []
            else:
                orc, sh, flat = 1, list(val.shape), [vlib.val_token(v) for v in np.asarray(val).reshape(-1)]
        elif npo.get("k") == "exc":
            orc, sh, flat = 0, [], []
        elif npo.get("k") == "dense":
            orc, sh, flat = 1, npo["shape"], npo["flat"]
        elif npo.get("k") == "scalar":
            orc, sh, flat = 1, [], [npo["v"]]
        else:
            orc, sh, flat = 2, [], []
        if c["op"] == "ctor_gcxs" and not status:
            A = c["args"]
            g = "(mkGCXS %s %s %s %s %s 0)" % (zl(A["shape"]), zl(A["caxes"] or []), zl(A["data"]), zl(A["indices"]), zl(A["indptr"]))
            # the Spec of a well-formed constructor argument is gcxs_wfb; expected value = its dense meaning
            wf_ok = _gcxs_wf_py(A)
            orc = 1 if wf_ok else 0
            if wf_ok:
                d = _gcxs_dense_py(A)
                sh, flat = list(d.shape), [int(v) for v in d.reshape(-1)]
            c["_gcxs_lit"] = g
        oracle_hist[orc] = oracle_hist.get(orc, 0) + 1
        al = bool(allowed(c, r.get("impl")))
        impl_lit = vlib.sarr_lit(r["impl"]) if not status else "SOther"
        lits.append(vpair(vZ(orc), zl(sh), zl(flat), vbool(al), model_of(c), vZ(status), impl_lit))
        pyv.append((orc, al, status))
        keep.append(i)

    try:
        bad = build.judge("c18_api", "From Verif Require Import Py NpValid Validators COO GCXS SArr C18Judge.", "api_case", "judge_api", lits)
    except vlib.CoqEvalError:
        # The Coq side does not build (a proof obligation broke, e.g. a generated fragment changed).  The search for
        # a concrete failing input must not depend on it: the oracle-vs-implementation part of judge_api (codes
        # 10/11/20/21/40/41: hang, crash, invalid accepted, wrong class, valid rejected, internal error) is
        # recomputed here in Python; the model-dependent codes (50-53) and the value comparison are skipped.
        fb = []
        for (orc, al, st), i in zip(pyv, keep, strict=True):
            c, r = cases[i], res[i]
            code = py_verdict(orc, al, st, r.get("impl") or {})
            if code:
                cl = clause_of(c, code, r)
                fam = c["op"] if ":" in cl and cl.split(":")[0] in GENERIC_KINDS else OP_FAMILY.get(c["op"], c["op"])
                fb.append({"property": "C18", "op": fam, "api": c["op"], "kind": "value", "clause": cl, "code": code,
                           "format": (c.get("a") or {}).get("format"), "case": _short(c), "impl": _short_res(r.get("impl")),
                           "oracle": _short_res(r.get("np")) if r.get("np") is not None else "Spec",
                           "note": "verdict computed without Coq: the judge modules did not build",
                           "replay_py": replay_line(_strip(c))})
        for c, r in zip(kcases, kres, strict=True):
            st = 1 if (r is None or r.get("hang")) else 2 if "crash" in r else 0
            if st:
                fb.append({"property": "C18", "op": "kernel:" + c["k"], "kind": "value", "clause": ("hang:kernel:" if st == 1 else "interpreter_crash:kernel:") + c["k"],
                           "code": 10 if st == 1 else 11, "case": c, "impl": r, "note": "verdict computed without Coq: the judge modules did not build",
                           "replay_py": ("import sys; sys.path.insert(0, '/verif/tools'); import json, props.c18 as m; "
                                         f"print(m.impl_kernel(json.loads({json.dumps(json.dumps(c))})))")})
        report["notes"].append("Coq evaluation unavailable; oracle-vs-implementation verdicts were computed in Python")
        report["coverage"]["evaluations"] = len(keep)
        if fb:
            return fb
        raise
    # cross-check of the Python-side GCXS well-formedness predicate against Model/GCXS.v:gcxs_wfb
    gl = [c for c in cases if "_gcxs_lit" in c]
    if gl:
        glits = [vpair(c["_gcxs_lit"], vbool(_gcxs_wf_py(c["args"]))) for c in gl]
        gb = build.judge("c18_gcxswf", "From Verif Require Import COO GCXS SArr.", "gcxs Z * bool",
                         "fun c => if Bool.eqb (gcxs_wfb (fst c)) (snd c) then 0 else 1", glits)
        for idx, _code in gb:
            harness_errors.append({"case": gl[idx], "error": "python gcxs_wf disagrees with Model/GCXS.v:gcxs_wfb"})

    tags = {}
    vm = []
    for j, code in bad:
        i = keep[j]
        c, r = cases[i], res[i]
        if code == 30:
            vm.append({"op": c["op"], "case": _short(c), "impl": _short_res(r.get("impl")), "numpy": _short_res(r.get("np"))})
            continue
        kind = "representation" if code in (50, 51, 52, 53) else "value"
        cl = clause_of(c, code, r)
        # a named root cause is one finding whatever member of the operation family hit it
        fam = c["op"] if ":" in cl and cl.split(":")[0] in GENERIC_KINDS else OP_FAMILY.get(c["op"], c["op"])
        viol.append({"property": "C18", "op": fam, "api": c["op"], "kind": kind, "clause": cl, "code": code,
                     "format": (c.get("a") or {}).get("format"), "case": _short(c), "impl": _short_res(r.get("impl")),
                     "oracle": _short_res(r.get("np")) if r.get("np") is not None else "Spec",
                     "replay_py": replay_line(_strip(c))})
    for i in keep:
        c, r = cases[i], res[i]
        im = r.get("impl") or {}
        o = "hang" if im.get("hang") else "crash" if "crash" in im else (im.get("exc") if im.get("k") == "exc" else "returned")
        npo = r.get("np")
        e = "spec" if npo is None else ("np_rejects" if npo.get("k") == "exc" else "np_accepts")
        t = f"{c['op']}/{e}/{o}"
        tags[t] = tags.get(t, 0) + 1

    klits = [kernel_lit(c, r) for c, r in zip(kcases, kres, strict=True)]
    kbad = build.judge("c18_kernel", "From Verif Require Import C18Judge.", "Z * kcase", "judge_kernel", klits)
    for j, code in kbad:
        c, r = kcases[j], kres[j]
        if code == 10 and c["k"] == "huge":
            kind, cl = "value", "time_not_proportional:getitem_huge_extent"
        elif code == 12:
            kind, cl = "value", "exception:getitem_huge_extent"
        elif code == 1 and c["k"] == "huge":
            kind, cl = "value", "value:getitem_huge_extent"
        elif code == 10:
            kind, cl = "value", f"hang:kernel:{c['k']}"
        elif code == 11:
            kind, cl = "value", f"interpreter_crash:kernel:{c['k']}"
        else:
            kind, cl = "representation", f"kernel_model_mismatch:{c['k']}:{code}"
        viol.append({"property": "C18", "op": "kernel:" + c["k"], "kind": kind, "clause": cl, "code": code, "case": c, "impl": r,
                     "replay_py": ("import sys; sys.path.insert(0, '/verif/tools'); import json, props.c18 as m; "
                                   f"print(m.impl_kernel(json.loads({json.dumps(json.dumps(c))})))")})
    for c in kcases:
        tags["kernel/" + c["k"]] = tags.get("kernel/" + c["k"], 0) + 1

    report["notes"].append(f"Coq evaluation of the cases: {time.time() - t2:.0f} s")
    cov = report["coverage"]
    cov["evaluations"] = len(keep) + len(kcases)
    cov["distinct_nontrivial"] = len({json.dumps(_strip(cases[i]), sort_keys=True, default=str) for i in keep}) + \
        len({json.dumps(c, sort_keys=True) for c in kcases})
    cov["rule"] = ("exhaustive enumeration over small operand shapes (extents {0,1,2}, 0-d .. 3-d) of public operations with "
                   "valid and malformed argument tuples, each call under a watchdog in a worker process (40 s, then 120 s once more before a hang is declared); distinct = "
                   "distinct (operation, operand specs, arguments); kernel cases = distinct kernel inputs")
    cov["samples"] = [dict(case=_short(cases[i]), result=_short_res(res[i].get("impl"))) for i in (keep[0], keep[len(keep) // 2], keep[-1])]
    cov["branch_tags"] = dict(sorted(tags.items()))
    cov["oracle_verdicts"] = {"rejects": oracle_hist.get(0, 0), "accepts_value": oracle_hist.get(1, 0), "accepts_no_value": oracle_hist.get(2, 0)}
    cov["allowed_limitations_table"] = [dict(operation=o, reason=r_, predicate=p) for o, r_, p in ALLOWED]
    cov["value_mismatches"] = {"count": len(vm), "note": "implementation returned another value than NumPy on a valid argument: "
                               "not a C18 matter (C01-C10 decide values)", "samples": vm[:12]}
    cov["harness_errors"] = harness_errors[:10]
    cov["watchdog_s"] = {"first_pass": WATCHDOG * 4, "confirmation": RETRY_WATCHDOG * 4}
    if harness_errors:
        report["notes"].append(f"{len(harness_errors)} cases could not be run by the harness (see coverage.harness_errors)")
    return viol


def _strip(c):
    return {k: v for k, v in c.items() if not k.startswith("_")}


def _short(c):
    d = {"op": c["op"], "args": {k: (v if k != "x" else {"shape": v["shape"], "nnz": len(v["data"])}) for k, v in (c.get("args") or {}).items()}}
    for k in ("a", "b"):
        if c.get(k):
            d[k] = {"shape": c[k]["shape"], "format": c[k]["format"], "nnz": len(c[k]["data"]), "caxes": c[k].get("caxes")}
    if c.get("idx_dtype"):
        d["idx_dtype"] = c["idx_dtype"]
    return d


def _short_res(p):
    if p is None:
        return None
    if p.get("k") == "exc":
        return {"exc": p.get("cls"), "msg": p.get("msg")}
    if p.get("hang") or "crash" in p:
        return p
    return {"k": p.get("k"), "shape": p.get("shape"), "flat": (p.get("flat") or p.get("data") or [])[:12], "v": p.get("v")}


def _gcxs_wf_py(A):
    """well-formedness of GCXS constructor input, as Model/GCXS.v:gcxs_wfb states it (cross-checked in Coq)"""
    sh, ca, da, ind, ptr = A["shape"], A["caxes"] or [], A["data"], A["indices"], A["indptr"]
    nd = len(sh)
    if any(d < 0 for d in sh):
        return False
    if nd == 0:
        return len(da) <= 1 and not ind
    if nd == 1:
        return len(ind) == len(da) and not ca and all(0 <= i < sh[0] for i in ind) and all(x < y for x, y in zip(ind, ind[1:], strict=False))
    if len(ind) != len(da) or not ca or any(not 0 <= a < nd for a in ca) or len(ca) >= nd or len(set(ca)) != len(ca):
        return False
    rows = 1
    for a in ca:
        rows *= sh[a]
    cols = 1
    for a in range(nd):
        if a not in ca:
            cols *= sh[a]
    if len(ptr) != rows + 1 or ptr[0] != 0 or ptr[rows] != len(da):
        return False
    if any(x > y for x, y in zip(ptr, ptr[1:], strict=False)):
        return False
    if any(not 0 <= i < cols for i in ind):
        return False
    for lo, hi in zip(ptr, ptr[1:], strict=False):
        seg = ind[lo:hi]
        if any(x >= y for x, y in zip(seg, seg[1:], strict=False)):
            return False
    return True


def _gcxs_dense_py(A):
    import numpy as np
    sh, ca, da, ind, ptr = A["shape"], A["caxes"] or [], A["data"], A["indices"], A["indptr"]
    nd = len(sh)
    out = np.zeros(tuple(sh), dtype=np.int64)
    if nd == 1:
        for i, v in zip(ind, da, strict=True):
            out[i] = v
        return out
    order = list(ca) + [a for a in range(nd) if a not in ca]
    rsh = [sh[a] for a in order]
    cols = 1
    for a in order[len(ca):]:
        cols *= sh[a]
    for r in range(len(ptr) - 1):
        for p in range(ptr[r], ptr[r + 1]):
            lin = r * cols + ind[p]
            t = list(np.unravel_index(lin, rsh)) if rsh and all(rsh) else []
            ix = [0] * nd
            for a, v in zip(order, t, strict=True):
                ix[a] = int(v)
            out[tuple(ix)] = da[p]
    return out


def replay(path):
    v = json.load(open(path))
    print(json.dumps(v, indent=1, default=str)[:3000])
    if "replay_py" in v:
        import subprocess
        try:
            p = subprocess.run([vlib.PY, "-c", v["replay_py"]], env=vlib.env_clean(), capture_output=True, text=True, timeout=120)
            print(p.stdout[-2000:], p.stderr[-500:])
        except subprocess.TimeoutExpired:
            print("replay: the call did not return within 120 s (hang)")
    return 0
