"""C13 — results do not depend on thread interleaving.

Proof side: Props/C13.v (Model/Threads.v, Proofs/ThreadsP.v): for any number of threads, any programs
and any schedule, the dict memo / attribute memo / cache-free calls return the sequential value; the deque
cache protocol does so iff its lookup loops iterate a snapshot; the variant is generated from /repo's AST
(tools/sitegen/threads.py -> Gen/S_threads.v) and `cache_source_verdict` states what holds of the source now.

Campaign (this file), all of it against the real code under tools/sched.py (deterministic cooperative
scheduler, real threads, switching only at `line` events, C calls atomic):
  explore  EVERY interleaving of 2 threads x <=2-3 protocol calls at the protocols' scheduling points
           (found via the AST), each execution judged in Coq against `run_coarse` of the same schedule;
  random   seeded random schedules of 3-4 threads over protocol calls, judged the same way;
  mixed    seeded random schedules with EVERY line of /repo/sparse a scheduling point, 2-4 threads over
           element-wise / indexing / reduction / dot / tensordot / transpose / reshape / asformat calls on
           shared (partly cache-enabled) operands, incl. first-use compilation of typed kernels; outcomes
           compared with the sequential run, operands' bytes before/after;
  witness  the schedule exported by the Coq development (d13_witness) replayed on the real code;
  stress   free-running preemptive threads (2..16, switch interval 1e-6) — supporting evidence only.
The deque race (finding D13: RuntimeError "deque mutated during iteration" out of a cache lookup) was repaired
in /repo (the loops iterate tuple(deque)).  It is no domain clause any more: if it shows up again — in any of
the five parts — it is reported as an ordinary NEW violation, always as the one class op "cache_lookup",
kind "value", clause None (the text says what it is), so that it is one finding and not many.
"""
import hashlib
import json
import os
import random
import re
import sys
import time

import vlib
from vlib import vZ, vlist, vpair

LEVEL = "proof"
D13 = None   # the former domain clause D13_deque_iterated_while_appended was dropped with the repair
RACE = "deque race (former finding D13): "
TRUSTED_BASE = [
    "Coq 8.16.1 kernel + vm_compute (case evaluation and concrete witnesses); no native_compute",
    "axioms: none (Print Assumptions: Closed under the global context for every C13 theorem)",
    "tools/sitegen/threads.py: AST extraction of the lookup-loop variant (deque object vs snapshot), deque maxlen, "
    "attribute-memo and dict-memo shapes, fail-closed on any other shape",
    "Model/Threads.v as a transcription of COO.transpose/reshape/tocsr/tocsc/enable_caching and "
    "_memoize_dtype.wrapped, and of CPython's defaultdict.__missing__, collections.deque iterator "
    "(state check before exhaustion) and bounded append; validated by judging every scheduled execution "
    "of the real code against the model's run of the same schedule (Corr/C13Judge.v)",
    "tools/sched.py (cooperative scheduler via sys.settrace/threading.settrace) and this harness",
    "the value of a call is a pure function of its key: operands are immutable (C11's theorem; re-checked here "
    "by comparing operands' bytes before/after every execution)",
]
ASSUMPTIONS = [
    "PARTIAL by nature: the Gallina model has threads switching between Python-level steps under a GIL. It cannot "
    "exhibit (1) preemption inside C extensions that release the GIL, (2) Numba's global compile lock and dispatcher "
    "internals during first-use compilation, (3) memory visibility / data races inside nogil kernels running truly in "
    "parallel, (4) free-threaded (no-GIL) CPython builds, where tuple(deque) and dict/attribute operations are not atomic. "
    "These are covered only by the mixed-workload scheduled runs and the free-running stress run (evidence, not proof).",
    "the deque's mutation counter is unbounded in the model (CPython: a C size_t that wraps after 2^64 appends)",
    "scipy's csr<->csc conversions are pure and agree with the direct conversion (hypothesis conv_correct)",
    "nested uses of the cache protocol inside tensordot/dot are covered by the theorems only through their "
    "individual transpose/reshape/tocsr calls (each is a call of the model); their composition is checked by the "
    "mixed-workload runs",
    "the scheduling granularity of the correspondence is CPython 3.12's (line events); the theorems are proved for a "
    "finer cut and transfer by coarse_schedules_are_schedules",
]

SITEGEN = os.path.join(vlib.VERIF, "tools", "sitegen")
STALL = 300.0   # seconds a granted thread may take to reach its next scheduling point (first-use compilation
                # inside one step under heavy machine load has been seen to take > 60 s)


def _points():
    if SITEGEN not in sys.path:
        sys.path.insert(0, SITEGEN)
    import threads as sg
    return sg.locate(vlib.REPO)


# ------------------------------------------------------------------ operands, calls, digests
AXES3 = [(1, 0, 2), (2, 1, 0), (0, 2, 1), (1, 2, 0), (2, 0, 1)]
SHAPES3 = [(6, 4), (4, 6), (2, 12), (12, 2), (24,), (3, 8)]
AXES2 = [(1, 0)]
SHAPES2 = [(4, 3), (2, 6), (12,), (6, 2)]


_DT = ["int8", "int16", "int32", "int64", "uint8", "uint16", "float32", "float64", "complex64", "complex128"]
MEMO_KEYS = [(d,) for d in _DT] + [(a, b) for a in _DT[:4] for b in _DT[6:9]]     # 22 distinct dtype tuples


def make_arrays():
    """array 0: 3-d (2,3,4); array 1: 2-d (3,4), fill 0; both cache-enabled; integer data"""
    import numpy as np
    import sparse
    a = np.arange(24).reshape(2, 3, 4) % 5
    b = (np.arange(12).reshape(3, 4) * 7) % 4
    x0 = sparse.COO.from_numpy(a)
    x1 = sparse.COO.from_numpy(b)
    x0.enable_caching()
    x1.enable_caching()
    # copies made by the copy constructor: COO(x) shares x's __dict__ entries, i.e. the SAME defaultdict object
    # (two array objects, one cache: threads working on "different" arrays share the deques); COO(x, fill_value=v)
    # gets a fresh cache (fix d7a2c41).  Made before any tocsr/tocsc, so the copies' _csr/_csc memos start empty
    # and are per object.
    x2 = sparse.COO(x1)
    x3 = sparse.COO(x0)
    x4 = sparse.COO(x0, fill_value=5)
    # fully populated operands (nnz == size): the degenerate pattern for which a densification could be tempted to
    # hand out the operand's own storage.  5: COO (cache-enabled), 6: GCXS
    c = (np.arange(12).reshape(3, 4) % 5) + 1
    x5 = sparse.COO.from_numpy(c)
    x5.enable_caching()
    x6 = sparse.GCXS.from_numpy(c + 2)
    assert x5.nnz == x5.size and x6.nnz == x6.size
    # permutation-like operand: ONE stored element per row, mixed signs, extent 5 on the last axis (every group of a
    # reduction over the trailing axis is a singleton and needs the fill correction).  Not cache-enabled, so its
    # reductions touch no cache protocol.  7: 2-d COO, 8: 3-d diagonal-like COO
    pm = np.zeros((4, 5), dtype=np.int64)
    for i, (j, v) in enumerate([(2, -3), (0, 4), (4, -1), (1, 2)]):
        pm[i, j] = v
    x7 = sparse.COO.from_numpy(pm)
    dg = np.zeros((3, 3, 4), dtype=np.int64)
    for i, v in enumerate([-2, 5, -7]):
        dg[i, i, i + 1] = v
    x8 = sparse.COO.from_numpy(dg)
    return [x0, x1, x2, x3, x4, x5, x6, x7, x8]


def alias_map(arrs):
    """array index -> index of the first array whose cache OBJECT it shares (identity, measured on the real code)"""
    out = {}
    for i, x in enumerate(arrs):
        out[i] = next((j for j in range(i) if getattr(arrs[j], "_cache", None) is not None
                       and arrs[j]._cache is getattr(x, "_cache", None)), i)
    return out


def arrays_bytes(arrs):
    out = []
    for x in arrs:
        if hasattr(x, "coords"):
            out.append((x.coords.tobytes(), x.data.tobytes(), tuple(x.shape), repr(x.fill_value), str(x.data.dtype)))
        elif hasattr(x, "indptr"):     # GCXS
            out.append((x.data.tobytes(), x.indices.tobytes(), x.indptr.tobytes(), tuple(x.shape),
                        repr(x.fill_value), str(x.data.dtype)))
        else:
            out.append((x.tobytes(), tuple(x.shape), str(x.dtype)))
    return out


def digest(obj):
    """value digest as a non-negative integer < 2^44"""
    import numpy as np
    h = hashlib.sha256()

    def feed(o):
        if hasattr(o, "coords") and hasattr(o, "data") and hasattr(o, "fill_value"):   # COO
            order = np.lexsort(o.coords[::-1]) if o.coords.size else np.arange(0)
            h.update(b"coo")
            h.update(repr((tuple(o.shape), str(o.data.dtype))).encode())
            h.update(np.ascontiguousarray(o.coords[:, order].astype(np.int64)).tobytes())
            h.update(np.ascontiguousarray(o.data[order]).tobytes())
            h.update(repr(o.fill_value).encode())
        elif hasattr(o, "indptr") and hasattr(o, "indices"):                           # scipy / GCXS
            h.update(b"cs")
            h.update(repr((tuple(o.shape), type(o).__name__, getattr(o, "format", ""),
                           getattr(o, "compressed_axes", None))).encode())
            h.update(np.asarray(o.indptr, dtype=np.int64).tobytes())
            h.update(np.asarray(o.indices, dtype=np.int64).tobytes())
            h.update(np.ascontiguousarray(o.data).tobytes())
        elif hasattr(o, "todense") and not isinstance(o, np.ndarray):                  # DOK etc.
            d = o.todense()
            h.update(b"dense-of")
            h.update(type(o).__name__.encode())
            feed(np.asarray(d))
        elif isinstance(o, np.ndarray):
            h.update(repr((o.shape, str(o.dtype))).encode())
            h.update(np.ascontiguousarray(o).tobytes())
        elif isinstance(o, (tuple, list)):
            h.update(b"seq%d" % len(o))
            for e in o:
                feed(e)
        else:
            h.update(repr(o).encode())
    feed(obj)
    return int(h.hexdigest()[:11], 16)


def code_of_exception(ex):
    if isinstance(ex, RuntimeError) and "deque mutated during iteration" in str(ex):
        return -1
    return -2


class Memo:
    """a fresh _memoize_dtype-wrapped factory (the decorator is /repo's; the factory is ours)"""

    def __init__(self):
        from sparse.numba_backend._common import _memoize_dtype

        def factory(*dts):
            return ("kernel",) + tuple(d.name for d in dts)
        self.fn = _memoize_dtype(factory)


def real_call(arrs, memo, spec):
    import numpy as np
    k = spec[0]
    if k == "T":
        return arrs[spec[1]].transpose(tuple(spec[2]))
    if k == "R":
        return arrs[spec[1]].reshape(tuple(spec[2]))
    if k == "A":
        return arrs[spec[1]].tocsc() if spec[2] == "csc" else arrs[spec[1]].tocsr()
    if k == "M":
        return memo.fn(*[np.dtype(n) for n in spec[1]])
    if k == "P":
        x = arrs[spec[1]]
        # operations that touch NO shared mutable state even on a cache-enabled array (checked: they hit none of
        # the protocols' scheduling points).  NB: reductions (x.sum) are NOT among them — COO.reduce goes through
        # self.transpose / .reshape and hence through the cache; they are exercised by the mixed workloads.
        return {"abs": lambda: abs(x), "neg": lambda: -x, "idx": lambda: x[..., 1], "nnz": lambda: x.nnz,
                "dense": lambda: x.todense(),
                # reductions over trailing axes (pure only on arrays WITHOUT a cache: arrays 7, 8)
                "max_last": lambda: x.max(axis=-1), "min_last": lambda: x.min(axis=-1),
                "any_last": lambda: x.any(axis=-1), "all_last": lambda: x.all(axis=-1),
                "prod_last": lambda: x.prod(axis=-1), "sum_last": lambda: x.sum(axis=-1),
                "max_trailing2": lambda: x.max(axis=(-2, -1)), "min_trailing2": lambda: x.min(axis=(-2, -1)),
                }[spec[2]]()
    if k == "D":
        # densify a shared operand, then the CALLER post-processes its own result in place (legitimate: the array
        # is the caller's).  The value of the call is the array after the write.
        x = arrs[spec[1]]
        d = x.todense() if spec[2] == "todense" else x.maybe_densify(max_size=10 ** 6, min_density=0)
        d += 1
        d *= 2
        return d
    if k == "W":
        # the same for a sparse result that is a fresh array (element-wise): write into result.data
        r = -arrs[spec[1]]
        r.data *= 3
        return r
    raise ValueError(spec)


def norm_spec(s):
    return tuple(tuple(e) if isinstance(e, list) else e for e in s)


class KeyMap:
    """call spec -> model call literal and key (keys of CAttr are akey = 2*arr+w, others start at 100)"""

    def __init__(self, alias=None):
        self.ids = {}
        self.alias = {int(k): int(v) for k, v in (alias or {}).items()}

    def base(self, arr):
        return self.alias.get(arr, arr)

    def key(self, spec):
        spec = norm_spec(spec)
        if spec[0] == "A":
            return 2 * spec[1] + (1 if spec[2] == "csc" else 0)
        if spec[0] in ("T", "R"):
            # a lookup through an alias finds the entries inserted through the other object: one key space
            spec = (spec[0], self.base(spec[1]), spec[2])
        if spec not in self.ids:
            self.ids[spec] = 100 + len(self.ids)
        return self.ids[spec]

    def lit(self, spec, ndims):
        spec = norm_spec(spec)
        k = self.key(spec)
        if spec[0] == "T":
            if tuple(spec[2]) == tuple(range(ndims[spec[1]])):
                return f"(CPure {k})"
            return f"(CCache STranspose {2 * self.base(spec[1])} {k})"
        if spec[0] == "R":
            return f"(CCache SReshape {2 * self.base(spec[1]) + 1} {k})"
        if spec[0] == "A":
            return f"(CAttr {spec[1]} {'true' if spec[2] == 'csc' else 'false'})"
        if spec[0] == "M":
            return f"(CMemo {k})"
        if spec[0] == "D":
            return f"(CDenseWrite {k})"
        return f"(CPure {k})"


def sequential_table(specs):
    """value of every distinct call run alone on fresh operands"""
    tbl = {}
    for s in specs:
        s = norm_spec(s)
        if s in tbl:
            continue
        arrs = make_arrays()
        tbl[s] = digest(real_call(arrs, Memo(), s))
    return tbl


# ------------------------------------------------------------------ protocol-level executions
def _make_execution(scn):
    """fresh operands + one closure per thread; collect() -> (outcomes per thread, operands unchanged)"""
    arrs = make_arrays()
    memo = Memo()
    for s in scn["setup"]:
        real_call(arrs, memo, s)
    before = arrays_bytes(arrs)
    outs = [[] for _ in scn["threads"]]
    excs = []

    def mk(i, prog):
        def body():
            for n, s in enumerate(prog):
                try:
                    outs[i].append(digest(real_call(arrs, memo, s)))
                except Exception as ex:  # noqa: BLE001
                    outs[i].append(code_of_exception(ex))
                    excs.append({"thread": i, "call": n, "spec": _jsonable_spec(s), "exception": type(ex).__name__,
                                 "message": str(ex)[:160]})
        return body
    fns = [mk(i, p) for i, p in enumerate(scn["threads"])]

    def collect():
        return [list(o) for o in outs], arrays_bytes(arrs) == before, list(excs)
    return fns, collect


def impl_explore(job):
    """every interleaving of the scenario's threads at the protocols' scheduling points"""
    import sched
    pts = set(_points().values())
    scn = job["scenario"]
    specs = list(scn["setup"]) + [s for p in scn["threads"] for s in p]
    tbl = sequential_table(specs)
    execs = []
    st = None
    deadline = time.time() + job.get("seconds", 60)
    for ex, (outs, same, excs), st in sched.explore(lambda: _make_execution(scn), pts, max_execs=job.get("max_execs"),
                                              root=os.path.join(vlib.REPO, "sparse"), deadline=deadline,
                                              stall_timeout=STALL):
        execs.append({"sched": ex.trace, "outs": outs, "same": same, "stalled": ex.stalled, "excs": excs})
        if ex.stalled:
            # a granted thread did not reach its next scheduling point in time (machine load, or first-use
            # compilation inside the step, or a genuine dead-lock): the depth-first state is no longer reliable
            return {"table": [[list(map(_jsonable, k)), v] for k, v in tbl.items()], "execs": execs,
                    "complete": False, "alias": alias_map(make_arrays())}
    return {"table": [[list(map(_jsonable, k)), v] for k, v in tbl.items()], "execs": execs,
            "complete": bool(st and st.complete), "alias": alias_map(make_arrays())}


def impl_random(job):
    """seeded random schedules (choice among the enabled threads at every scheduling point)"""
    import sched
    pts = set(_points().values())
    scn = job["scenario"]
    specs = list(scn["setup"]) + [s for p in scn["threads"] for s in p]
    tbl = sequential_table(specs)
    rng = random.Random(job["seed"])
    execs = []
    for _ in range(job["n"]):
        fns, collect = _make_execution(scn)
        r = random.Random(rng.random())
        s = sched.Scheduler(pts, root=os.path.join(vlib.REPO, "sparse"), stall_timeout=STALL)
        ex = s.run(fns, [], chooser=lambda en, step: r.choice(en))
        outs, same, excs = collect()
        execs.append({"sched": ex.trace, "outs": outs, "same": same, "stalled": ex.stalled, "excs": excs})
    return {"table": [[list(map(_jsonable, k)), v] for k, v in tbl.items()], "execs": execs, "complete": True,
            "alias": alias_map(make_arrays())}


def _jsonable(e):
    return list(e) if isinstance(e, tuple) else e


def _jsonable_spec(s):
    return [_jsonable(e) for e in s]


def impl_schedule(job):
    """one given schedule (witness replay / replay of a stored violation)"""
    import sched
    pts = set(_points().values())
    scn = job["scenario"]
    specs = list(scn["setup"]) + [s for p in scn["threads"] for s in p]
    tbl = sequential_table(specs)
    fns, collect = _make_execution(scn)
    s = sched.Scheduler(pts, root=os.path.join(vlib.REPO, "sparse"), stall_timeout=STALL)
    ex = s.run(fns, job["sched"])
    outs, same, excs = collect()
    lab = {v: k for k, v in _points().items()}
    return {"table": [[list(map(_jsonable, k)), v] for k, v in tbl.items()],
            "execs": [{"sched": ex.trace, "outs": outs, "same": same, "stalled": ex.stalled, "excs": excs,
                       "labels": [lab.get(l, l) if not isinstance(l, str) else l for l in ex.labels]}],
            "complete": True, "alias": alias_map(make_arrays())}


# ------------------------------------------------------------------ mixed workloads (every line a scheduling point)
def mixed_operands(dt_a="int64", dt_b="int64"):
    import numpy as np
    import sparse
    rs = np.random.RandomState(7)
    a = (rs.randint(0, 4, size=(3, 4, 5)) * (rs.rand(3, 4, 5) < 0.5)).astype(dt_a)
    b = (rs.randint(0, 4, size=(5, 3)) * (rs.rand(5, 3) < 0.6)).astype(dt_b)
    c = (rs.randint(0, 4, size=(4, 5)) * (rs.rand(4, 5) < 0.6)).astype(dt_a)
    x = sparse.COO.from_numpy(a)
    y = sparse.COO.from_numpy(b)
    z = sparse.COO.from_numpy(c)
    x.enable_caching()
    z.enable_caching()
    d = (np.arange(15).reshape(5, 3) % 3).astype(dt_b)
    full = sparse.COO.from_numpy((np.arange(20).reshape(4, 5) % 4 + 1).astype(dt_a))
    full.enable_caching()
    gfull = sparse.GCXS.from_numpy((np.arange(20).reshape(4, 5) % 3 + 2).astype(dt_a))
    pm = np.zeros((4, 5), dtype=dt_a)
    for i, (j, v) in enumerate([(2, -3), (0, 4), (4, -1), (1, 2)]):
        pm[i, j] = v if np.dtype(dt_a).kind in "if" else abs(v)
    perm = sparse.COO.from_numpy(pm)
    permc = sparse.COO.from_numpy(pm.copy())
    permc.enable_caching()
    dg = np.zeros((3, 3, 4), dtype=dt_a)
    for i, v in enumerate([-2, 5, -7]):
        dg[i, i, i + 1] = v if np.dtype(dt_a).kind in "if" else abs(v)
    diag3 = sparse.COO.from_numpy(dg)
    return {"x": x, "y": y, "z": z, "d": d, "xa": sparse.COO(x), "za": sparse.COO(z), "full": full, "gfull": gfull,
            "perm": perm, "permc": permc, "diag3": diag3, "gperm": sparse.GCXS.from_numpy(pm.copy())}


def _inplace(d):
    d += 1
    d *= 2
    return d


def _inplace_data(r):
    r.data *= 3
    return r


MIXED_OPS = {
    "ew_add": lambda o: o["x"] + o["x"],
    "ew_mul_bcast": lambda o: o["x"] * o["z"],
    "ew_abs_neg": lambda o: abs(-o["x"]),
    "idx_basic": lambda o: o["x"][1, :, ::2],
    "idx_fancy": lambda o: o["x"][[0, 2], :, 1],
    "idx_neg": lambda o: o["z"][::-1, -2],
    "sum_axis": lambda o: o["x"].sum(axis=1),
    "max_axes": lambda o: o["x"].max(axis=(0, 2)),
    "any_all": lambda o: (o["z"] > 1).any(axis=0),
    "dot_coo_coo": lambda o: __import__("sparse").dot(o["z"], o["y"]),
    "matmul_dense": lambda o: o["z"] @ o["d"],
    "tensordot": lambda o: __import__("sparse").tensordot(o["x"], o["y"], axes=([2], [0])),
    "transpose": lambda o: o["x"].transpose((2, 0, 1)),
    "transpose2": lambda o: o["x"].transpose((1, 0, 2)),
    "T2": lambda o: o["z"].T,
    "reshape": lambda o: o["x"].reshape((12, 5)),
    "reshape2": lambda o: o["x"].reshape((3, 20)),
    "tocsr": lambda o: o["z"].tocsr(),
    "tocsc": lambda o: o["z"].tocsc(),
    "as_gcxs": lambda o: o["z"].asformat("gcxs"),
    "as_dok": lambda o: o["y"].asformat("dok"),
    "todense": lambda o: o["x"].todense(),
    # callers that write in place into the result they were handed, on fully populated shared operands, and the
    # read-only calls whose value would notice
    "dense_inplace_full": lambda o: _inplace(o["full"].todense()),
    "dense_inplace_gcxs": lambda o: _inplace(o["gfull"].todense()),
    "maybe_densify_inplace": lambda o: _inplace(o["full"].maybe_densify(max_size=10 ** 6, min_density=0)),
    "matmul_dense_inplace": lambda o: _inplace(o["full"] @ o["d"]),
    "dense_inplace_sparse_operand": lambda o: _inplace(o["x"].todense()),
    "neg_data_inplace": lambda o: _inplace_data(-o["full"]),
    "ew_data_inplace": lambda o: _inplace_data(o["gfull"] * 2),
    "full_dense": lambda o: o["full"].todense(),
    "full_sum": lambda o: o["full"].sum(axis=0),
    "full_T": lambda o: o["full"].T,
    "gfull_dense": lambda o: o["gfull"].todense(),
    "gfull_sum": lambda o: o["gfull"].sum(axis=1),
    # reductions over trailing axes of permutation-/diagonal-like operands (singleton groups + fill correction)
    "perm_max_last": lambda o: o["perm"].max(axis=-1),
    "perm_min_last": lambda o: o["perm"].min(axis=-1),
    "perm_any_last": lambda o: o["perm"].any(axis=-1),
    "perm_all_last": lambda o: o["perm"].all(axis=-1),
    "perm_prod_last": lambda o: o["perm"].prod(axis=-1),
    "perm_dense": lambda o: o["perm"].todense(),
    "permc_max_last": lambda o: o["permc"].max(axis=-1),
    "permc_min_last": lambda o: o["permc"].min(axis=-1),
    "permc_sum0": lambda o: o["permc"].sum(axis=0),
    "diag3_max_trailing": lambda o: o["diag3"].max(axis=(1, 2)),
    "diag3_min_last": lambda o: o["diag3"].min(axis=-1),
    "diag3_dense": lambda o: o["diag3"].todense(),
    "gperm_max_last": lambda o: o["gperm"].max(axis=-1),
    "gperm_min_first": lambda o: o["gperm"].min(axis=0),
    # structural functions on shared operands (coordinate arithmetic on a private copy; seeded C13-m6: flip mirrored
    # the operand's own intp coordinates) and the read-only calls on the same operands whose value would notice
    "flip_all": lambda o: __import__("sparse").flip(o["y"]),
    "flip_axis_cached": lambda o: __import__("sparse").flip(o["x"], axis=1),
    "flip_perm": lambda o: __import__("sparse").flip(o["perm"], axis=-1),
    "roll_axis": lambda o: __import__("sparse").roll(o["y"], 2, axis=0),
    "roll_flat_cached": lambda o: __import__("sparse").roll(o["z"], 3),
    "sort_axis0": lambda o: __import__("sparse").sort(o["y"], axis=0),
    "sort_axis0_cached": lambda o: __import__("sparse").sort(o["z"], axis=0),
    "argmax_axis": lambda o: __import__("sparse").argmax(o["y"], axis=0),
    "take_rows": lambda o: __import__("sparse").take(o["y"], [0, 2], axis=0),
    "pad_one": lambda o: __import__("sparse").pad(o["y"], 1),
    "triu_cached": lambda o: __import__("sparse").triu(o["z"], 1),
    "moveaxis_cached": lambda o: __import__("sparse").moveaxis(o["x"], 0, -1),
    "expand_squeeze": lambda o: __import__("sparse").squeeze(__import__("sparse").expand_dims(o["y"], axis=1), axis=1),
    "concat_self": lambda o: __import__("sparse").concatenate([o["y"], o["y"]], axis=0),
    "stack_cached": lambda o: __import__("sparse").stack([o["z"], o["z"]], axis=1),
    "y_dense": lambda o: o["y"].todense(),
    "y_sum0": lambda o: o["y"].sum(axis=0),
    "y_getitem": lambda o: o["y"][1:, ::-1],
    # the same through a second array object sharing the cache (COO(x))
    "alias_transpose": lambda o: o["xa"].transpose((2, 0, 1)),
    "alias_reshape": lambda o: o["xa"].reshape((12, 5)),
    "alias_sum": lambda o: o["xa"].sum(axis=1),
    "alias_tensordot": lambda o: __import__("sparse").tensordot(o["xa"], o["y"], axes=([2], [0])),
    "alias_dot": lambda o: __import__("sparse").dot(o["za"], o["y"]),
}


def _mixed_execution(progs, dts):
    o = mixed_operands(*dts)
    before = arrays_bytes(list(o.values()))
    outs = [[] for _ in progs]

    def mk(i, prog):
        def body():
            for name in prog:
                try:
                    outs[i].append(digest(MIXED_OPS[name](o)))
                except Exception as ex:  # noqa: BLE001
                    c = code_of_exception(ex)
                    outs[i].append(c if c == -1 else [type(ex).__name__, str(ex)[:120]])
        return body
    return [mk(i, p) for i, p in enumerate(progs)], (lambda: ([list(x) for x in outs],
                                                              arrays_bytes(list(o.values())) == before))


def impl_mixed(job):
    """random schedules, every executed line of /repo/sparse a scheduling point.  With job['first_use'] the
    scheduled run comes BEFORE anything was compiled for these dtypes in this process."""
    import sched
    import warnings
    warnings.filterwarnings("ignore")
    rng = random.Random(job["seed"])
    dts = tuple(job.get("dtypes", ("int64", "int64")))
    names = job.get("ops") or sorted(MIXED_OPS)
    res = []
    seq = {}

    def seq_value(name):
        if name not in seq:
            seq[name] = digest(MIXED_OPS[name](mixed_operands(*dts)))
        return seq[name]
    if not job.get("first_use"):
        for nm in names:
            seq_value(nm)
    for _ in range(job["n"]):
        nthreads = rng.choice(job.get("threads", [2, 3, 4]))
        progs = [[rng.choice(names) for _ in range(job.get("calls", 2))] for _ in range(nthreads)]
        fns, collect = _mixed_execution(progs, dts)
        r = random.Random(rng.random())
        stick = rng.choice([0.0, 0.5, 0.9, 0.98])
        last = [None]

        def chooser(en, step, r=r, stick=stick, last=last):
            if last[0] in en and r.random() < stick:
                return last[0]
            last[0] = r.choice(en)
            return last[0]
        s = sched.Scheduler(None, root=os.path.join(vlib.REPO, "sparse"), stall_timeout=120)
        ex = s.run(fns, [], chooser=chooser)
        outs, same = collect()
        exp = [[seq_value(nm) for nm in p] for p in progs]
        res.append({"progs": progs, "outs": outs, "expected": exp, "same": same, "stalled": ex.stalled,
                    "steps": len(ex.trace), "switches": sum(1 for a, b in zip(ex.trace, ex.trace[1:]) if a != b),
                    "sched_digest": vlib.digest(ex.trace), "seed": job["seed"], "dtypes": list(dts)})
    return {"runs": res}


# ------------------------------------------------------------------ free-running stress (supporting evidence)
def impl_stress(job):
    import threading
    import warnings
    warnings.filterwarnings("ignore")
    dts = ("int64", "int64")
    names = sorted(MIXED_OPS)
    seq = {nm: digest(MIXED_OPS[nm](mixed_operands(*dts))) for nm in names}
    old = sys.getswitchinterval()
    sys.setswitchinterval(1e-6)
    counts = {"calls": 0, "mismatch": 0, "d13": 0, "other_exc": 0, "operand_changed": 0}
    details = []
    rng = random.Random(job["seed"])
    try:
        for n in job["threads"]:
            for _rep in range(job["reps"]):
                o = mixed_operands(*dts)
                before = arrays_bytes(list(o.values()))
                progs = [[rng.choice(names) for _ in range(job["calls"])] for _ in range(n)]
                outs = [[] for _ in range(n)]
                bar = threading.Barrier(n)

                def body(i, progs=progs, outs=outs, o=o, bar=bar):
                    bar.wait()
                    for nm in progs[i]:
                        try:
                            outs[i].append(digest(MIXED_OPS[nm](o)))
                        except Exception as ex:  # noqa: BLE001
                            c = code_of_exception(ex)
                            outs[i].append(c if c == -1 else [type(ex).__name__, str(ex)[:120]])
                ths = [threading.Thread(target=body, args=(i,)) for i in range(n)]
                for t in ths:
                    t.start()
                for t in ths:
                    t.join()
                for i in range(n):
                    for nm, got in zip(progs[i], outs[i], strict=True):
                        counts["calls"] += 1
                        if got == -1:
                            counts["d13"] += 1
                            if len(details) < 5:
                                details.append({"threads": n, "op": nm, "got": "RuntimeError deque mutated"})
                        elif isinstance(got, list):
                            counts["other_exc"] += 1
                            details.append({"threads": n, "op": nm, "got": got})
                        elif got != seq[nm]:
                            counts["mismatch"] += 1
                            details.append({"threads": n, "op": nm, "got": got, "expected": seq[nm]})
                if arrays_bytes(list(o.values())) != before:
                    counts["operand_changed"] += 1
    finally:
        sys.setswitchinterval(old)
    return {"counts": counts, "details": details[:20], "threads": job["threads"]}


# ------------------------------------------------------------------ scenarios
def scenarios(tier, rng):
    T = lambda a, ax: ("T", a, ax)          # noqa: E731
    R = lambda a, sh: ("R", a, sh)          # noqa: E731
    A = lambda a, w: ("A", a, w)            # noqa: E731
    M = lambda *n: ("M", n)                 # noqa: E731
    P = lambda a, n: ("P", a, n)            # noqa: E731
    D = lambda a, how: ("D", a, how)        # noqa: E731
    W = lambda a: ("W", a)                  # noqa: E731
    a0, a1, a2 = AXES3[0], AXES3[1], AXES3[2]
    s0, s1, s2 = SHAPES3[0], SHAPES3[1], SHAPES3[2]
    ex = [
        # --- deque protocol, two threads, every interleaving
        dict(name="T_fresh_1x1", setup=[], threads=[[T(0, a0)], [T(0, a1)]]),
        dict(name="T_fresh_same_key", setup=[], threads=[[T(0, a0)], [T(0, a0)]]),
        dict(name="T_prefilled_1x1", setup=[T(0, a2)], threads=[[T(0, a0)], [T(0, a1)]]),
        dict(name="T_prefilled_hit_vs_insert", setup=[T(0, a2)], threads=[[T(0, a2)], [T(0, a1)]]),
        dict(name="T_witness_shape", setup=[], threads=[[T(0, a1)], [T(0, a0), T(0, a2)]]),
        dict(name="T_full_deque_hit_vs_evict", setup=[T(0, a0), T(0, a1), T(0, a2)],
             threads=[[T(0, a0)], [T(0, AXES3[4])]]),
        dict(name="T_hit_vs_hit", setup=[T(0, a0)], threads=[[T(0, a0)], [T(0, a0)]]),
        dict(name="T_hit_vs_hit_full", setup=[T(0, a0), T(0, a1), T(0, a2)], threads=[[T(0, a1)], [T(0, a1)]]),
        dict(name="R_hit_vs_hit", setup=[R(0, s0)], threads=[[R(0, s0)], [R(0, s0)]]),
        dict(name="R_full_deque_hit_vs_evict", setup=[R(0, s0), R(0, s1), R(0, s2)],
             threads=[[R(0, s0)], [R(0, SHAPES3[3])]]),
        dict(name="R_witness_shape", setup=[], threads=[[R(0, s0)], [R(0, s1), R(0, s2)]]),
        dict(name="R_fresh_2x1", setup=[], threads=[[R(0, s0), R(0, s0)], [R(0, s1)]]),
        dict(name="TR_same_array", setup=[], threads=[[T(0, a0), R(0, s0)], [R(0, s0)]]),
        dict(name="T_identity_and_2d", setup=[], threads=[[T(0, (0, 1, 2)), T(1, (1, 0))], [T(1, (1, 0)), R(1, (4, 3))]]),
        # --- two array objects, one cache (COO(x) shares x's defaultdict); COO(x, fill_value=v) has its own
        dict(name="alias_T_same_key", setup=[], threads=[[T(3, a0)], [T(0, a0)]]),
        dict(name="alias_T_hit_vs_insert", setup=[T(0, a2)], threads=[[T(3, a2)], [T(0, a1)]]),
        dict(name="alias_R_full_hit_vs_evict", setup=[R(0, s0), R(3, s1), R(0, s2)],
             threads=[[R(3, s0)], [R(0, SHAPES3[3])]]),
        dict(name="alias_2d_T_and_attrs", setup=[], threads=[[T(2, (1, 0)), A(2, "csr")], [T(1, (1, 0))]]),
        dict(name="A_csr_csc_vs_csr", setup=[], threads=[[A(1, "csr"), A(1, "csc")], [A(1, "csr")]]),
        dict(name="fillcopy_T_own_cache", setup=[T(0, a0)], threads=[[T(4, a0)], [T(0, a1), T(3, a0)]]),
        # --- results are private buffers: a thread writes in place into the dense (or fresh sparse) result it was
        #     handed, on FULLY POPULATED shared operands; the others' results and the operand must not notice
        dict(name="dense_write_full_coo", setup=[], threads=[[D(5, "todense"), P(5, "dense")], [P(5, "dense"), P(5, "neg")]]),
        dict(name="dense_write_full_gcxs", setup=[], threads=[[D(6, "todense")], [P(6, "dense"), D(6, "todense")]]),
        dict(name="maybe_densify_write_vs_cache", setup=[], threads=[[D(5, "maybe"), T(5, (1, 0))], [T(5, (1, 0)), P(5, "dense")]]),
        dict(name="sparse_result_write", setup=[], threads=[[W(5), P(5, "dense")], [P(5, "neg"), W(0)]]),
        # --- library-internal in-place writes (the fill correction of reduce) must hit private buffers: reductions over
        #     trailing axes of permutation-/diagonal-like shared operands (all groups singletons), others read meanwhile
        dict(name="reduce_trailing_perm", setup=[], threads=[[P(7, "max_last"), P(7, "dense")], [P(7, "min_last"), P(7, "neg")]]),
        dict(name="reduce_trailing_perm_any_all_prod", setup=[],
             threads=[[P(7, "any_last"), P(7, "prod_last")], [P(7, "all_last"), P(7, "sum_last"), P(7, "dense")]]),
        dict(name="reduce_trailing_diag3", setup=[], threads=[[P(8, "max_trailing2"), P(8, "dense")], [P(8, "min_last"), P(8, "max_last")]]),
        # --- attribute memo
        dict(name="A_csr_vs_csc", setup=[], threads=[[A(1, "csr")], [A(1, "csc")]]),
        dict(name="A_csc_vs_csc", setup=[], threads=[[A(1, "csc")], [A(1, "csc")]]),
        dict(name="A_pre_csc", setup=[A(1, "csc")], threads=[[A(1, "csr"), A(1, "csr")], [A(1, "csr"), A(1, "csc")]]),
        # --- dict memo
        dict(name="M_2x2", setup=[], threads=[[M("int64", "float64"), M("int8",)], [M("int64", "float64"), M("int64", "float64")]]),
        dict(name="M_preloaded16_hit_vs_miss", setup=[M(*k) for k in MEMO_KEYS[:16]],
             threads=[[M(*MEMO_KEYS[0])], [M(*MEMO_KEYS[16])]]),
        dict(name="M_preloaded17_hit_vs_2miss", setup=[M(*k) for k in MEMO_KEYS[:17]],
             threads=[[M(*MEMO_KEYS[3])], [M(*MEMO_KEYS[17]), M(*MEMO_KEYS[3])]]),
        dict(name="M_3x1", setup=[], threads=[[M("int64",), M("int8",), M("int64",)], [M("int64",)]]),
        # --- all three kinds of shared state together
        dict(name="mix_TA_M", setup=[], threads=[[T(1, (1, 0)), A(1, "csr")], [M("int64",), P(1, "abs")]]),
        dict(name="mix_Acsc_R", setup=[R(1, (2, 6))], threads=[[A(1, "csc")], [R(1, (4, 3))]]),
        dict(name="mix_A_MA", setup=[], threads=[[A(1, "csr")], [M("int64",), A(1, "csr")]]),
    ]
    if tier != "quick":
        ex += [
            dict(name="T_2x2", setup=[], threads=[[T(0, a0), T(0, a1)], [T(0, a1), T(0, a0)]]),
            dict(name="T_prefilled2_1x1", setup=[T(0, a0), T(0, a1)], threads=[[T(0, a2)], [T(0, AXES3[3])]]),
            dict(name="A_2x2", setup=[], threads=[[A(1, "csc"), A(1, "csr")], [A(1, "csr"), A(1, "csc")]]),
            dict(name="alias_2d_T_and_attrs_2x2", setup=[],
                 threads=[[T(2, (1, 0)), A(2, "csr")], [T(1, (1, 0)), A(1, "csr")]]),
            dict(name="T_full_deque_1x2", setup=[T(0, a0), T(0, a1), T(0, a2)],
                 threads=[[T(0, AXES3[3])], [T(0, AXES3[4]), T(0, a0)]]),
            dict(name="R_prefilled_1x2", setup=[R(0, s2)], threads=[[R(0, s0)], [R(0, s1), R(0, s0)]]),
            dict(name="TR_same_array_2x2", setup=[T(0, a2)], threads=[[T(0, a0), R(0, s0)], [R(0, s1), T(0, a0)]]),
            dict(name="M_2x3", setup=[], threads=[[M("int64",), M("int8",), M("int64",)], [M("int8",), M("int64",), M("int8",)]]),
            dict(name="mix_TAM_2x3", setup=[], threads=[[T(1, (1, 0)), A(1, "csr")], [M("int64",), P(1, "abs"), T(1, (1, 0))]]),
            dict(name="mix_AMR_2x2", setup=[R(1, (2, 6))], threads=[[A(1, "csc"), M("int64",)], [R(1, (4, 3)), M("int64",)]]),
            dict(name="T_2x3", setup=[T(0, a2)], threads=[[T(0, a0), T(0, a1), T(0, a0)], [T(0, a1), T(0, AXES3[3])]]),
            dict(name="R_2x2_prefilled", setup=[R(0, s2)], threads=[[R(0, s0), R(0, s1)], [R(0, s1), R(0, s0)]]),
            dict(name="A_3x2", setup=[], threads=[[A(1, "csc"), A(1, "csr"), A(1, "csc")], [A(1, "csr"), A(1, "csc")]]),
            dict(name="TR_2x3", setup=[], threads=[[T(0, a0), R(0, s0), T(0, a1)], [R(0, s0), T(0, a0), R(0, s1)]]),
        ]
    # random protocol programs for 3-4 threads
    pool = ([T(0, ax) for ax in AXES3] + [R(0, sh) for sh in SHAPES3[:4]] + [T(1, (1, 0))] +
            [R(1, sh) for sh in SHAPES2[:2]] + [A(1, "csr"), A(1, "csc")] +
            [M("int64",), M("int8", "int64")] + [P(0, "abs"), P(1, "neg"), T(0, (0, 1, 2))] +
            [P(7, "max_last"), P(7, "min_last"), P(7, "any_last"), P(7, "all_last"), P(7, "prod_last"), P(7, "dense"),
             P(8, "max_trailing2"), P(8, "min_trailing2"), P(8, "max_last"), P(8, "dense")] +
            [D(5, "todense"), D(6, "todense"), D(5, "maybe"), D(0, "todense"), W(5), W(1), P(5, "dense"), P(6, "dense"),
             P(6, "neg"), T(5, (1, 0))] +
            [T(3, ax) for ax in AXES3[:3]] + [R(3, SHAPES3[0]), T(2, (1, 0)), A(2, "csc"), T(4, AXES3[0]), R(4, SHAPES3[1])])
    rnd = []
    for i in range(8 if tier == "quick" else 30):
        n = rng.choice([3, 4])
        rnd.append(dict(name=f"rand{i}", setup=[rng.choice(pool) for _ in range(rng.choice([0, 1, 3]))],
                        threads=[[rng.choice(pool) for _ in range(rng.choice([1, 2, 3]))] for _ in range(n)]))
    return ex, rnd


# ------------------------------------------------------------------ Coq literals
NDIMS = {0: 3, 1: 2, 2: 2, 3: 3, 4: 3, 5: 2, 6: 2, 7: 2, 8: 3}


def case_literal(scn, table, execu, alias=None):
    km = KeyMap(alias)
    # assign keys deterministically in order of appearance
    specs = list(scn["setup"]) + [s for p in scn["threads"] for s in p]
    for s in specs:
        km.key(s)
    tbl = {norm_spec(tuple(k)): v for k, v in table}
    # (first occurrence wins: alias specs share the base's key; the judge's table lookup takes the first entry)
    tl = vlist([(km.key(s), tbl[norm_spec(s)]) for s in dict.fromkeys(map(norm_spec, specs))],
               lambda kv: vpair(vZ(kv[0]), vZ(kv[1])))
    setup = "[" + "; ".join(km.lit(s, NDIMS) for s in scn["setup"]) + "]"
    progs = "[" + "; ".join("[" + "; ".join(km.lit(s, NDIMS) for s in p) + "]" for p in scn["threads"]) + "]"
    sch = "[" + "; ".join(f"{int(i)}%nat" for i in execu["sched"]) + "]"
    impl = "[" + "; ".join(vlist(o) for o in execu["outs"]) + "]"
    return vpair(tl, setup, progs, sch, impl, vlib.vbool(execu["same"]))


CASE_TYPE = "sched_case"
IMPORTS = "From Verif Require Import Py S_threads Threads C13Judge."


def d13_replay_py(scn, sched_):
    job = {"scenario": scn, "sched": list(sched_)}
    return (f"import sys,json; sys.path.insert(0,'/verif/tools'); sys.path.insert(0,{vlib.REPO!r}); from props import c13; "
            f"print(json.dumps(c13.impl_schedule({json.dumps(job)})['execs'][0]))")


def read_witness(build):
    """the refutation witness exported by the Coq development, as a scenario + coarse schedule"""
    header = ("From Coq Require Import ZArith List Bool.\n" + IMPORTS +
              "\nImport ListNotations.\nOpen Scope Z_scope.\nSet Printing Width 100000.\n")
    outs = build.eval_cases("c13_witness", header,
                            ["Eval vm_compute in d13_witness.\nEval vm_compute in (all_snapshot src_config)."])
    ev = vlib.parse_eval_lists(outs[0])
    if len(ev) != 2:
        raise vlib.CoqEvalError("cannot read d13_witness: " + outs[0][-500:])
    w = ev[0]
    m = re.match(r"^\(\s*\[(.*)\]\s*,\s*\[([^\[\]]*)\]\s*\)$", w)
    if not m:
        raise vlib.CoqEvalError("unexpected d13_witness: " + w[:500])
    progs_txt, sched_txt = m.group(1), m.group(2)
    keys = {}
    threads = []
    for pm in re.finditer(r"\[([^\[\]]*)\]", progs_txt):
        prog = []
        for cm in re.finditer(r"CCache\s+(STranspose|SReshape)\s+(\d+)\s+(\d+)", pm.group(1)):
            site, name, key = cm.group(1), int(cm.group(2)), int(cm.group(3))
            if key not in keys:
                keys[key] = len(keys)
            arr = name // 2
            prog.append(("T", arr, AXES3[keys[key]]) if site == "STranspose" else ("R", arr, SHAPES3[keys[key]]))
        threads.append(prog)
    sched_ = [int(x.replace("%nat", "").strip()) for x in sched_txt.split(";") if x.strip()]
    return dict(name="coq_d13_witness", setup=[], threads=threads), sched_, ev[1].strip() == "true"


# ------------------------------------------------------------------ campaign
def campaign(build, tier, seed, report, budget=1):
    t_start = time.time()
    rng = random.Random(seed)
    viol = []
    cov = report["coverage"]
    quick = tier == "quick"
    ex_scn, rnd_scn = scenarios(tier, rng)
    witness_scn, witness_sched, src_all_snapshot = read_witness(build)

    jobs = []
    for s in ex_scn:
        jobs.append(("explore", dict(scenario=s, max_execs=(6000 if quick else 15000) * budget,
                                     seconds=(70 if quick else 300))))
    for s in rnd_scn:
        jobs.append(("random", dict(scenario=s, n=(40 if quick else 200) * budget, seed=rng.randrange(1 << 30))))
    jobs.append(("schedule", dict(scenario=witness_scn, sched=witness_sched)))
    n_mixed = 6 if quick else 24
    for i in range(n_mixed):
        jobs.append(("mixed", dict(seed=rng.randrange(1 << 30), n=(5 if quick else 20) * budget, calls=2)))
    # first-use compilation under a schedule: dtype pairs nothing else in the worker has compiled
    fu = [("float32", "int16"), ("int32", "float64")] if quick else \
         [("float32", "int16"), ("int32", "float64"), ("uint8", "int64"), ("float64", "float32")]
    for dts in fu:
        jobs.append(("mixed", dict(seed=rng.randrange(1 << 30), n=1, calls=2, threads=[2, 3], first_use=True, dtypes=dts,
                                   ops=["dot_coo_coo", "matmul_dense", "tensordot", "sum_axis", "ew_mul_bcast", "idx_fancy"])))
    jobs.append(("stress", dict(seed=rng.randrange(1 << 30), threads=[2, 4, 8, 16] if quick else [2, 3, 4, 6, 8, 12, 16],
                                reps=2 if quick else 8, calls=6)))

    by_kind = {}
    for k, j in jobs:
        by_kind.setdefault(k, []).append(j)
    results = {}
    order = [("explore", "impl_explore"), ("random", "impl_random"), ("schedule", "impl_schedule"),
             ("mixed", "impl_mixed"), ("stress", "impl_stress")]
    # one pool for everything (workers import numba once)
    flat = [(k, fn, j) for k, fn in order for j in by_kind.get(k, [])]
    res = vlib.run_impl("props.c13", "impl_dispatch", [(fn, j) for _k, fn, j in flat], workers=14,
                        per_case_timeout=600.0 if quick else 1500.0)
    for (k, _fn, j), r in zip(flat, res, strict=True):
        results.setdefault(k, []).append((j, r))

    # ---- protocol-level executions judged in Coq
    lits, meta = [], []
    incomplete, broken_jobs, stalled = [], [], []
    per_scn = {}
    for kind in ("explore", "random", "schedule"):
        for j, r in results.get(kind, []):
            scn = j["scenario"]
            if "execs" not in r:
                broken_jobs.append({"scenario": scn["name"], "result": r})
                continue
            if kind == "explore" and not r["complete"]:
                incomplete.append(scn["name"])
            per_scn[scn["name"]] = {"kind": kind, "executions": len(r["execs"]), "exhaustive": kind == "explore" and r["complete"]}
            for e in r["execs"]:
                if e.get("stalled"):
                    stalled.append({"scenario": scn["name"], "schedule": e["sched"]})
                    if scn["name"] not in incomplete:
                        incomplete.append(scn["name"])
                    continue
                lits.append(case_literal(scn, r["table"], e, r.get("alias")))
                meta.append((kind, scn, e))
    both = dict(build.judge("c13_sched", IMPORTS, CASE_TYPE, "fun c => judge_sched c + 8 * tag_sched c", lits, chunk=400))
    if len(both) != len(lits):
        raise vlib.CoqEvalError(f"judge returned {len(both)} verdicts for {len(lits)} cases")
    verdicts = {i: v % 8 for i, v in both.items()}
    tags = {i: v // 8 for i, v in both.items()}
    hist = {}
    tagnames = [(1, "runtime_error_predicted"), (2, "deque_created_twice"), (4, "memo_computed_twice"),
                (8, "attr_stored_twice"), (16, "lookup_hit_or_lost")]
    for i in range(len(lits)):
        t = tags.get(i, 32)
        names = [n for b, n in tagnames if t & b] or ["plain"]
        for n in names:
            hist[n] = hist.get(n, 0) + 1
    d13_count = 0
    witness_confirmed = None
    for i, (kind, scn, e) in enumerate(meta):
        code = verdicts.get(i, 0)
        if kind == "schedule":
            raised = any(o == -1 for th in e["outs"] for o in th)
            witness_confirmed = {"raised_on_real_code": raised, "model_verdict_code": code, "schedule": e["sched"],
                                 "labels": e.get("labels"), "outcomes": e["outs"],
                                 "source_iterates_snapshot": src_all_snapshot}
        if code == 0:
            continue
        base = {"property": "C13", "case": {"scenario": scn, "schedule": e["sched"], "source": kind},
                "impl": {"outcomes": e["outs"], "operands_unchanged": e["same"], "exceptions": e.get("excs", [])},
                "replay_py": d13_replay_py(scn, e["sched"])}
        if code in (3, 5):
            d13_count += 1
            viol.append(dict(base, op="cache_lookup", kind="value", clause=D13,
                             what=RACE + "a transpose/reshape on a cache-enabled COO raised RuntimeError('deque mutated during "
                                  "iteration') under this schedule; run alone it returns a value"))
            if code == 5:
                viol.append(dict(base, op="cache_lookup_model", kind="representation", clause=None,
                                 what="deque race observed where the model does not predict it"))
        elif code == 1:
            viol.append(dict(base, op="protocol_model", kind="representation", clause=None,
                             what="implementation equals the sequential values but the model predicts otherwise"))
        elif code == 4:
            viol.append(dict(base, op="operand_mutated", kind="value", clause=None, what="an operand's bytes changed"))
        else:
            exn = sorted({x["exception"] for x in e.get("excs", [])})
            viol.append(dict(base, op="protocol_call" + ("_" + "_".join(exn) if exn else ""), kind="value", clause=None,
                             what="under this schedule a call " + (f"raised {', '.join(exn)} (" +
                                  "; ".join(x["message"].splitlines()[0][:80] for x in e.get("excs", [])[:2] if x["message"]) + ")" if exn else
                                  "returned another value") + " although run alone it returns its sequential value"))
    # the witness must behave as the proved verdict says
    if witness_confirmed is not None:
        if not src_all_snapshot and not witness_confirmed["raised_on_real_code"]:
            viol.append({"property": "C13", "op": "witness_replay", "kind": "representation", "clause": None,
                         "case": {"scenario": witness_scn, "schedule": witness_sched}, "impl": witness_confirmed,
                         "replay_py": d13_replay_py(witness_scn, witness_sched),
                         "what": "the Coq refutation witness does not fail on the real code"})

    # ---- mixed workloads: implementation vs sequential
    mixed_runs = mixed_calls = mixed_d13 = mixed_steps = mixed_switches = 0
    opcount = {}
    for j, r in results.get("mixed", []):
        if "runs" not in r:
            broken_jobs.append({"mixed": j, "result": r})
            continue
        for run in r["runs"]:
            mixed_runs += 1
            mixed_steps += run["steps"]
            mixed_switches += run["switches"]
            if run["stalled"]:
                stalled.append({"mixed_seed": j["seed"], "progs": run["progs"]})
            if not run["same"]:
                viol.append({"property": "C13", "op": "operand_mutated", "kind": "value", "clause": None,
                             "case": run, "impl": run["outs"], "replay_py": _mixed_replay(j),
                             "what": "an operand's bytes changed during a scheduled mixed run (the calls' deviations "
                                     "in this run are consequences and are not listed separately)"})
                continue
            for p, o, x in zip(run["progs"], run["outs"], run["expected"], strict=True):
                for nm, got, exp in zip(p, o, x, strict=True):
                    mixed_calls += 1
                    opcount[nm] = opcount.get(nm, 0) + 1
                    if got == exp:
                        continue
                    if got == -1:
                        mixed_d13 += 1
                        viol.append({"property": "C13", "op": "cache_lookup", "kind": "value", "clause": D13,
                                     "case": {"mixed_job": j, "call": nm, "progs": run["progs"]}, "impl": got,
                                     "replay_py": _mixed_replay(j),
                                     "what": RACE + f"{nm} raised RuntimeError('deque mutated during iteration') in a scheduled mixed run"})
                    else:
                        viol.append({"property": "C13", "op": "mixed_" + nm, "kind": "value", "clause": None,
                                     "case": {"mixed_job": j, "call": nm, "progs": run["progs"]},
                                     "impl": got, "expected": exp, "replay_py": _mixed_replay(j),
                                     "what": f"{nm}: outcome under a schedule differs from the sequential run"})

    # ---- stress (supporting evidence)
    stress = None
    for j, r in results.get("stress", []):
        if "counts" not in r:
            broken_jobs.append({"stress": j, "result": r})
            continue
        stress = r
        c = r["counts"]
        if c["d13"]:
            viol.append({"property": "C13", "op": "cache_lookup", "kind": "value", "clause": D13,
                         "case": {"stress": j}, "impl": r["details"][:3], "replay_py": _stress_replay(j),
                         "what": RACE + "free-running threads: RuntimeError('deque mutated during iteration')"})
        if c["mismatch"] or c["other_exc"] or c["operand_changed"]:
            viol.append({"property": "C13", "op": "operand_mutated" if c["operand_changed"] else "stress",
                         "kind": "value", "clause": None,
                         "case": {"stress": j}, "impl": r["details"], "replay_py": _stress_replay(j),
                         "what": "free-running threads: outcome differs from the sequential run"})
    if broken_jobs:
        raise RuntimeError("harness jobs failed: " + json.dumps(broken_jobs, default=str)[:1500])

    n_ex = sum(v["executions"] for v in per_scn.values())
    cov["evaluations"] = n_ex + mixed_runs
    cov["distinct_nontrivial"] = len({(m[1]["name"], tuple(m[2]["sched"])) for m in meta
                                      if len(set(m[2]["sched"])) > 1})
    cov["rule"] = ("one evaluation = one complete execution of the real code under the deterministic scheduler; "
                   "explore: ALL interleavings of 2 threads at the protocol's scheduling points (exhaustive per scenario "
                   "unless listed under incomplete_scenarios); random: seeded schedules for 3-4 threads; each judged in Coq "
                   "against run_coarse of the same schedule and against the sequential values; mixed: every line of "
                   "/repo/sparse a scheduling point, compared with the sequential run only; distinct = distinct "
                   "(scenario, schedule) pairs in which at least two threads are interleaved")
    cov["exhaustive"] = not incomplete
    cov["incomplete_scenarios"] = incomplete
    cov["stalled_executions"] = stalled
    if stalled:
        report["notes"].append(f"{len(stalled)} scheduled execution(s) stalled (a granted thread did not reach its next "
                               f"scheduling point within {STALL:.0f}s) and were not judged; see coverage.stalled_executions")
    cov["scenarios"] = per_scn
    cov["branch_tags"] = hist
    cov["d13_executions"] = d13_count
    cov["witness_replay"] = witness_confirmed
    cov["mixed"] = {"runs": mixed_runs, "calls": mixed_calls, "scheduler_steps": mixed_steps,
                    "thread_switches": mixed_switches, "d13_hits": mixed_d13, "ops": opcount,
                    "first_use_dtype_pairs": [list(d) for d in fu]}
    cov["stress_supporting_only"] = stress
    cov["samples"] = [dict(scenario=m[1]["name"], schedule=m[2]["sched"], outcomes=m[2]["outs"])
                      for m in (meta[0], meta[len(meta) // 2], meta[-1])] if meta else []
    cov["campaign_wall_s"] = round(time.time() - t_start, 1)
    return viol


def impl_dispatch(case):
    fn, job = case
    return globals()[fn](job)


def _mixed_replay(job):
    return (f"import sys,json; sys.path.insert(0,'/verif/tools'); sys.path.insert(0,{vlib.REPO!r}); from props import c13; "
            f"r=c13.impl_mixed({json.dumps(job)}); print(json.dumps([[x['progs'],x['outs'],x['expected']] for x in r['runs']]))")


def _stress_replay(job):
    return (f"import sys,json; sys.path.insert(0,'/verif/tools'); sys.path.insert(0,{vlib.REPO!r}); from props import c13; "
            f"print(json.dumps(c13.impl_stress({json.dumps(job)})))")


def replay(path):
    v = json.load(open(path))
    print(json.dumps({k: v[k] for k in v if k != "replay_py"}, indent=1, default=str)[:3000])
    if "replay_py" in v:
        import subprocess
        p = subprocess.run([vlib.PY, "-c", v["replay_py"]], env=vlib.env_clean(), capture_output=True, text=True,
                           timeout=900)
        print(p.stdout[-3000:], p.stderr[-800:])
    return 0
