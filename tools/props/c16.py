"""C16 — sparse stays sparse.

Campaign: arrays with 10^12 .. 10^18 logical elements and 3 .. 3000 stored elements (distinct random
coordinates drawn as Python ints); every operation of the listed families (fill-preserving
element-wise, indexing, reductions, shape manipulation, joining, format conversion, 1-d/2-d
products, nonzero, sort along a short axis) is run by the implementation in a FORKED CHILD of a warm
worker under RLIMIT_AS = (virtual size of the warm worker at the fork) + 3 GiB and a 30 s CPU-time limit;
the result's raw representation (coords/data, or data/indices/indptr, or the DOK dict) is compared
inside Coq with the sparse-only reference of Model/SparseOps.v (exact in Z, proved to have the NumPy
meaning and to build no list longer than the stored elements: Props/C16.v).

MemoryError / numpy 'Unable to allocate' / kill / time-out / a ValueError about the size / a dense
result are violations (verdict code 1 or 2), wrong values are violations (4, 5).

Partial by nature: actual peak memory and NumPy temporaries are runtime behaviour — the bound is
proved on the reference model, the limit test is on the code.  Peak-RSS deltas are recorded in the
coverage as supporting evidence only."""
import json
import os
import pickle
import random
import resource
import select
import signal
import subprocess
import time

import vlib
from vlib import vZ, vlist, vopt

LEVEL = "proof"
TRUSTED_BASE = [
    "Coq 8.16.1 kernel + vm_compute (evaluation of the sparse reference on every case); no native_compute",
    "axioms: none (Print Assumptions: Closed under the global context for all 35 C16 theorems)",
    "Model/SparseOps.v as the sparse-only reference (proved: den of every operation = NumPy meaning; longest "
    "list built <= stored elements [+ rows for the GCXS-like form], independent of size(shape)); its result is sorted "
    "with Coq's verified merge sort and pruned (canon_den, canon_eq_sound) before the raw coords/data are compared",
    "Spec side of the den-theorems: Lib/Shape.v (ravel/unravel/all_indices), Model/COO.v (den), Spec/PySlice.v "
    "(slice.indices / len(range)) used to normalise Python slices in the judge",
    "Model/GCXS.v gcxs_as_coo / gcxs_wfb and Corr/SArr.v as the meaning of what the implementation returned",
    "tools/sitegen/dense_sites.py (AST walk listing densifying calls and NumPy allocators of the anchored files) "
    "and the reviewed table in Model/DenseSites.v (review by reading; reasons recorded per row)",
    "correspondence harness tools/props/c16.py, tools/vlib.py: fork-per-call isolation, RLIMIT_AS = baseline + 3 GiB, "
    "30 s limit, translation of each API call into an expression over the reference operations",
    "Corr/C16Judge.v sp_sort_last (sort along the last axis) has no theorem: differential only",
]
ASSUMPTIONS = [
    "space is not observable in Gallina: the proved bound is on the lengths of all lists the reference model builds; "
    "the implementation is only TESTED under an address-space limit (3 GiB above the warm worker) and a 30 s limit",
    "element values are integers (int64 data, fill 0 unless stated); dtype promotion is not modelled; mean is checked "
    "on power-of-two extents only (exact in binary floating point) as mean * count = sum",
    "O(sum of extents) allocations (GCXS index pointers of the operand/result format, per-axis counters of the "
    "product kernels) are allowed by the property and are not violations; extents are chosen <= 10^7 where such an "
    "allocation is inherent",
]

HEADROOM = 3 * 2 ** 30
TLIMIT = 30.0                # seconds of CPU time of the forked child
WALL_BACKSTOP = 240.0        # wall-clock seconds after which the parent kills the child regardless

CL_G1 = "G1_gcxs_reduce_recompresses_kept_axes"
CL_G2 = "G2_gcxs_getitem_enumerates_selected_columns"
CL_V1 = "V1_var_std_broadcast_intermediate_nnz_times_extent"
CL_T1 = "T1_dot_coo_coo_resets_column_buffer_per_row"
CL_E1 = "E1_scalar_operand_broadcast_to_full_shape_2pow60"
CL_U1 = "gcxs_unsigned_indices_after_widening"

# the smallest input of each finding class, as a stand-alone program (for the reader of a violation record)
MINIMAL_REPRO = {
    CL_G1: "import numpy as np, sparse; x = sparse.COO(np.array([[1],[2],[3]]), np.array([5]), shape=(10, 10**6, 10**6)); "
           "sparse.GCXS.from_coo(x, compressed_axes=(0,)).sum(axis=0)   # MemoryError: index pointer of 10^12+1 entries",
    CL_G2: "import numpy as np, sparse; x = sparse.COO(np.array([[1],[2],[3]]), np.array([5]), shape=(10, 10**6, 10**6)); "
           "sparse.GCXS.from_coo(x, compressed_axes=(0,))[1]   # MemoryError: enumerates the 10^12 selected columns",
    CL_V1: "import numpy as np, sparse; r = np.random.default_rng(0); c = np.stack([r.integers(0, 16, 50), r.integers(0, 30, 50), "
           "r.integers(0, 2**20, 50)]); x = sparse.COO(c, np.ones(50, dtype=np.int64), shape=(16, 2**20, 2**20)); "
           "x.var(axis=1)   # x - mean(keepdims) has 50 * 2^20 stored elements; GiBs of temporaries, MemoryError under a 3 GiB limit",
    CL_T1: "import numpy as np, sparse; a = sparse.COO(np.array([[0],[0]]), np.array([1]), shape=(10**6, 1000)); "
           "b = sparse.COO(np.array([[0],[0]]), np.array([1]), shape=(1000, 10**6)); a @ b   "
           "# _dot_coo_coo executes next_[:] = -1 (10^6 entries) for each of the 10^6 result rows: minutes",
    CL_U1: "import numpy as np, sparse; x = sparse.COO(np.array([[19],[83757],[85972]], dtype=np.int32), np.array([5]), "
           "shape=(100, 10**5, 10**5)); g = x.asformat('gcxs', compressed_axes=(0,)); print(g.indices.dtype); g[19, 83757, 85972]   "
           "# _from_coo widens the int32 index dtype with np.min_scalar_type(10**10) = uint64: IndexError here, TypeError in g.sum(axis=2)",
    CL_E1: "import numpy as np, sparse; sparse.COO(np.array([[5],[7]]), np.array([1]), shape=(2**31, 2**31)) * 2   "
           "# ValueError: array is too big (np.broadcast_to(2, shape) in _Elemwise._get_func_coords_data); same for 2^30 x 2^30",
}

# ============================================================================ implementation side
_WARM = False


def _vmsize():
    with open("/proc/self/status") as f:
        for line in f:
            if line.startswith("VmSize"):
                return int(line.split()[1]) * 1024
    return 2 * 2 ** 30


def _warm():
    """JIT-compile every kernel the campaign reaches, once per worker: the whole campaign on tiny analogues of its
    shapes (same numbers of axes, formats, dtypes and call forms), in-process, results discarded"""
    global _WARM
    if _WARM:
        return
    rng = random.Random(1)
    for case in gen_cases("tiny", rng, Scale(tiny=True)):
        try:
            arrs = [vlib.build_array(s, idx_dtype=s.get("idx_dtype")) for s in case["inputs"]]
            if "steps" in case:
                _run_steps(case, arrs)
                continue
            r = _apply(case["call"], arrs)
            r = _post(case.get("post"), r, arrs)
            if not isinstance(r, dict):
                vlib.plain(r)
        except Exception:  # noqa: BLE001
            pass
    _WARM = True


def _index(entry):
    import numpy as np
    if isinstance(entry, int):
        return entry
    if entry[0] == "s":
        return slice(entry[1], entry[2], entry[3])
    if entry[0] == "a":
        return np.array(entry[1], dtype=np.intp)
    raise ValueError(entry)


def _apply(call, arrs):
    import numpy as np
    import sparse
    op = call[0]
    x = arrs[0]
    y = arrs[1] if len(arrs) > 1 else None
    if op == "mulc":
        return x * call[1]
    if op == "addc":
        return x + call[1]
    if op == "abs":
        return abs(x)
    if op == "neg":
        return -x
    if op == "sq":
        return x ** 2
    if op == "gt0":
        return x > 0
    if op == "sign":
        return np.sign(x)
    if op == "clip":
        return x.clip(call[1], call[2])
    if op == "bin":
        f = call[1]
        if f == "add":
            return x + y
        if f == "mul":
            return x * y
        if f == "sub":
            return x - y
        if f == "max":
            return sparse.elemwise(np.maximum, x, y)
        if f == "min":
            return sparse.elemwise(np.minimum, x, y)
        if f == "ne":
            return x != y
    if op == "self2":
        return x + x if call[1] == "add" else x * x
    if op == "getitem":
        return x[tuple(_index(e) for e in call[1])]
    if op == "reduce":
        kind, axes = call[1], call[2]
        ax = None if axes is None else (axes[0] if len(axes) == 1 else tuple(axes))
        r = getattr(x, kind)(axis=ax)
        return r
    if op == "var":
        return x.var(axis=call[1][0] if len(call[1]) == 1 else tuple(call[1]))
    if op == "transpose":
        return x.transpose(tuple(call[1]))
    if op == "T":
        return x.T
    if op == "swapaxes":
        return x.swapaxes(call[1], call[2])
    if op == "moveaxis":
        return sparse.moveaxis(x, call[1], call[2])
    if op == "reshape":
        return x.reshape(tuple(call[1]) if isinstance(call[1], list) else call[1])
    if op == "flatten":
        return x.flatten()
    if op == "squeeze":
        return sparse.squeeze(x, axis=call[1]) if call[1] is not None else sparse.squeeze(x)
    if op == "expand_dims":
        return sparse.expand_dims(x, axis=call[1])
    if op == "flip":
        return sparse.flip(x, axis=call[1])
    if op == "roll":
        return sparse.roll(x, call[1], axis=call[2])
    if op == "broadcast_to":
        return sparse.broadcast_to(x, tuple(call[1]))
    if op == "concatenate":
        return sparse.concatenate(list(arrs), axis=call[1])
    if op == "stack":
        return sparse.stack(list(arrs), axis=call[1])
    if op == "asformat":
        if call[1] == "gcxs" and call[2] is not None:
            return x.asformat("gcxs", compressed_axes=tuple(call[2]))
        return x.asformat(call[1])
    if op == "matmul":
        return x @ y
    if op == "dot":
        return sparse.dot(x, y)
    if op == "nonzero":
        return x.nonzero()
    if op == "sort":
        return sparse.sort(x, axis=call[1])
    if op == "concat_blocks":          # concatenate of concatenates: blocks of `k` operands along ax_in, then along ax_out
        ax_in, ax_out, k = call[1], call[2], call[3]
        blocks = [sparse.concatenate(list(arrs[i:i + k]), axis=ax_in) for i in range(0, len(arrs), k)]
        return sparse.concatenate(blocks, axis=ax_out)
    if op == "pad":
        ax, lo, hi = call[1], call[2], call[3]
        return sparse.pad(x, tuple((lo, hi) if i == ax else (0, 0) for i in range(x.ndim)))
    if op == "argmax":
        return sparse.argmax(x, axis=call[1])
    raise ValueError(f"unknown op {op}")


def _post(post, r, arrs):
    """turn special results into something plain() understands"""
    import numpy as np
    import sparse
    if post is None:
        return r
    if post[0] == "mul_round":           # mean (or var) * count -> integer-valued
        k = post[1]
        if isinstance(r, sparse.SparseArray):
            c = r.asformat("coo") if not isinstance(r, sparse.COO) else r
            d = np.asarray(c.data, dtype=np.float64) * float(k)
            rd = np.rint(d)
            if d.size and float(np.max(np.abs(d - rd))) > 1e-6 * max(1.0, float(np.max(np.abs(d)))):
                return {"k": "other", "repr": "non-integral mean*count"}
            out = sparse.COO(c.coords, rd.astype(np.int64), shape=c.shape, fill_value=np.int64(round(float(c.fill_value) * k)),
                             sorted=True, has_duplicates=False, prune=False)
            return type(r).from_coo(out) if isinstance(r, sparse.GCXS) else out
        return np.int64(round(float(r) * k))
    if post[0] == "nonzero":
        x = arrs[0]
        coords = np.stack([np.asarray(c) for c in r]) if len(r) else np.zeros((0, 0), dtype=np.intp)
        return sparse.COO(coords, np.ones(coords.shape[1], dtype=np.int64), shape=x.shape, sorted=True, has_duplicates=False)
    return r


def _snapshot(arrs):
    """the bytes of every operand's arrays (+ shape and fill): an operation must leave them untouched"""
    import numpy as np
    import sparse
    out = []
    for a in arrs:
        if isinstance(a, sparse.COO):
            out.append(("coo", a.shape, np.asarray(a.coords).tobytes(), str(a.coords.dtype), np.asarray(a.data).tobytes(), repr(a.fill_value)))
        elif isinstance(a, sparse.GCXS):
            out.append(("gcxs", a.shape, np.asarray(a.indices).tobytes(), np.asarray(a.indptr).tobytes() if a.ndim >= 2 else b"",
                        np.asarray(a.data).tobytes(), repr(a.fill_value), a.compressed_axes))
        elif isinstance(a, sparse.DOK):
            out.append(("dok", a.shape, sorted((tuple(int(i) for i in k), repr(v)) for k, v in a.data.items()), repr(a.fill_value)))
        else:
            out.append(("?",))
    return out


def _run_steps(case, arrs):
    """a multi-step scenario on ONE operand object: every step is a call on the same arrays (results of earlier steps
    may be combined with the operand: x + op(x)); after every step the operands' bytes are compared with the snapshot
    taken before the first step"""
    snap = _snapshot(arrs)
    results = []
    outs = []
    for st in case["steps"]:
        t0 = time.time()
        try:
            if st["call"][0] == "add_prev":
                r = arrs[0] + results[st["call"][1]]
            elif st["call"][0] == "on_prev":          # the call applied to the RESULT of an earlier step
                prev = results[st["call"][1]]
                if isinstance(prev, BaseException):
                    raise prev
                r = _apply(st["call"][2], [prev])
            else:
                r = _apply(st["call"], arrs)
        except BaseException as ex:  # noqa: BLE001
            r = ex
        secs = time.time() - t0
        results.append(r)
        try:
            o = r if isinstance(r, BaseException) else _post(st.get("post"), r, arrs)
            import sparse
            big_indptr = isinstance(o, sparse.GCXS) and o.ndim >= 2 and len(o.indptr) > 5000
            if big_indptr:
                o = o.tocoo()           # an index pointer with > 5000 entries is not shipped to Coq as a literal
            o = o if isinstance(o, dict) else vlib.plain(o)
            if big_indptr:
                o["gcxs_large_indptr_compared_as_coo"] = True
        except BaseException as ex:  # noqa: BLE001
            o = {"k": "other", "repr": f"POST FAILED {type(ex).__name__}: {ex}"[:200]}
        if isinstance(r, BaseException):
            o["msg"] = str(r)[:200]
        o["secs"] = round(secs, 3)
        try:
            o["operand_changed"] = _snapshot(arrs) != snap
        except BaseException as ex:  # noqa: BLE001
            o["operand_changed"] = True
            o["snapshot_error"] = str(ex)[:100]
        outs.append(o)
    return outs


def impl_case(case):
    """worker entry: run one call (or one multi-step scenario) in a forked child under the limits; returns a plain()
    dict with timing (a scenario: {"k": "seq", "steps": [plain dict per step]})"""
    _warm()
    rd, wr = os.pipe()
    pid = os.fork()
    if pid == 0:
        os.close(rd)
        out = None
        try:
            try:
                arrs = [vlib.build_array(s, idx_dtype=s.get("idx_dtype")) for s in case["inputs"]]
            except BaseException as ex:  # noqa: BLE001
                out = {"k": "other", "repr": f"BUILD FAILED {type(ex).__name__}: {ex}"[:200], "build_failed": True}
                arrs = None
            if arrs is not None:
                # the time limit is on the child's own CPU time (SIGXCPU ends it), so that a loaded machine does not
                # turn slow-but-finishing calls into time-outs; the parent keeps a generous wall-clock backstop
                used = resource.getrusage(resource.RUSAGE_SELF)
                _s, _h = resource.getrlimit(resource.RLIMIT_CPU)
                lim = int(used.ru_utime + used.ru_stime + TLIMIT) + 1
                resource.setrlimit(resource.RLIMIT_CPU, (lim if _h == resource.RLIM_INFINITY else min(lim, _h), _h))
            if arrs is not None and "steps" in case:
                soft, hard = resource.getrlimit(resource.RLIMIT_AS)
                resource.setrlimit(resource.RLIMIT_AS, (_vmsize() + HEADROOM, hard))
                r0 = resource.getrusage(resource.RUSAGE_SELF).ru_maxrss
                steps = _run_steps(case, arrs)
                r1 = resource.getrusage(resource.RUSAGE_SELF).ru_maxrss
                out = {"k": "seq", "steps": steps, "rss_mb": max(0, (r1 - r0) // 1024), "secs": round(sum(o["secs"] for o in steps), 3)}
            elif arrs is not None:
                soft, hard = resource.getrlimit(resource.RLIMIT_AS)
                resource.setrlimit(resource.RLIMIT_AS, (_vmsize() + HEADROOM, hard))
                r0 = resource.getrusage(resource.RUSAGE_SELF).ru_maxrss
                t0 = time.time()
                try:
                    r = _apply(case["call"], arrs)
                    res = r
                except BaseException as ex:  # noqa: BLE001
                    res = ex
                secs = time.time() - t0
                r1 = resource.getrusage(resource.RUSAGE_SELF).ru_maxrss
                resource.setrlimit(resource.RLIMIT_AS, (soft, hard))
                big_indptr = False
                try:
                    if not isinstance(res, BaseException):
                        res = _post(case.get("post"), res, arrs)
                        import sparse
                        if isinstance(res, sparse.GCXS) and res.ndim >= 2 and len(res.indptr) > 5000:
                            # an index pointer with millions of entries (inherent in the result format) cannot be
                            # shipped to Coq as a literal: compare the entries only
                            res = res.tocoo()
                            big_indptr = True
                    out = res if isinstance(res, dict) else vlib.plain(res)
                    if big_indptr:
                        out["gcxs_large_indptr_compared_as_coo"] = True
                except BaseException as ex:  # noqa: BLE001
                    out = {"k": "other", "repr": f"POST FAILED {type(ex).__name__}: {ex}"[:200]}
                if isinstance(res, BaseException):
                    out["msg"] = str(res)[:200]
                out["secs"] = round(secs, 3)
                out["rss_mb"] = max(0, (r1 - r0) // 1024)
            os.write(wr, pickle.dumps(out))
        except BaseException as ex:  # noqa: BLE001
            try:
                os.write(wr, pickle.dumps({"k": "other", "repr": f"CHILD FAILED {type(ex).__name__}: {ex}"[:200]}))
            except BaseException:  # noqa: BLE001
                pass
        finally:
            os._exit(0)
    os.close(wr)
    buf = b""
    deadline = time.time() + WALL_BACKSTOP          # the CPU-time limit inside the child is the real limit
    while True:
        left = deadline - time.time()
        if left <= 0:
            break
        rl, _, _ = select.select([rd], [], [], left)
        if not rl:
            break
        chunk = os.read(rd, 1 << 20)
        if not chunk:
            break
        buf += chunk
    os.close(rd)
    timed_out = time.time() >= deadline
    if timed_out:
        try:
            os.kill(pid, signal.SIGKILL)
        except OSError:
            pass
    _, status = os.waitpid(pid, 0)
    if timed_out:
        return {"hang": True, "secs": TLIMIT, "msg": f"no result within {WALL_BACKSTOP}s wall clock"}
    if not buf and os.WIFSIGNALED(status) and os.WTERMSIG(status) in (signal.SIGXCPU, signal.SIGKILL):
        return {"hang": True, "secs": TLIMIT, "msg": f"no result within {TLIMIT}s of CPU time"}
    if not buf:
        return {"k": "exc", "exc": "OtherError", "cls": "Killed", "msg": f"child died, status {status}"}
    try:
        return pickle.loads(buf)
    except Exception as ex:  # noqa: BLE001
        return {"k": "other", "repr": f"unpickle failed {ex}"}


# ============================================================================ Coq literals
def lit_psel(e):
    if isinstance(e, int):
        return f"(PInt {vZ(e)})"
    return f"(PSlice {vopt(e[1])} {vopt(e[2])} {vopt(e[3])})"


def vbools(bs):
    return "[" + "; ".join("true" if b else "false" for b in bs) + "]"


def vnats(ns):
    return "[" + "; ".join(f"{int(n)}%nat" for n in ns) + "]"


def lit_sop(e):
    k = e[0]
    if k == "in":
        return f"(OIn {e[1]}%nat)"
    if k == "map":
        return f"(OMap {e[1]} {lit_sop(e[2])})"
    if k == "zip":
        return f"(OZip {e[1]} {lit_sop(e[2])} {lit_sop(e[3])})"
    if k == "bmul":
        return f"(OBcastMul {lit_sop(e[1])} {lit_sop(e[2])})"
    if k == "get":
        return f"(OGet [{'; '.join(lit_psel(p) for p in e[1])}] {lit_sop(e[2])})"
    if k == "sum":
        return f"(OSum {vbools(e[1])} {lit_sop(e[2])})"
    if k == "max":
        return f"(OMax {vbools(e[1])} {lit_sop(e[2])})"
    if k == "trans":
        return f"(OTrans {vnats(e[1])} {lit_sop(e[2])})"
    if k == "reshape":
        return f"(OReshape {vlist(e[1])} {lit_sop(e[2])})"
    if k == "concat":
        return f"(OConcat {e[1]}%nat {lit_sop(e[2])} {lit_sop(e[3])})"
    if k == "stack":
        return f"(OStack {e[1]}%nat {lit_sop(e[2])} {lit_sop(e[3])})"
    if k == "matmul":
        return f"(OMatmul {lit_sop(e[1])} {lit_sop(e[2])})"
    if k == "sortlast":
        return f"(OSortLast {lit_sop(e[1])})"
    raise ValueError(k)


def lit_rkind(rk):
    if rk == "sparse":
        return "RSparse"
    if rk == "scalar":
        return "RScalar"
    return f"(RGcxs {vbools(rk[1])})"


def lit_case(case, res):
    ins = "[" + "; ".join(vlib.spec_coo_lit(s) for s in case["inputs"]) + "]"
    return f"({ins}, {lit_sop(case['expr'])}, {lit_rkind(case['rkind'])}, {vlib.sarr_lit(res)})"


# ============================================================================ expressions for derived operations
FULL = ("s", None, None, None)
IN0 = ("in", 0)
IN1 = ("in", 1)


def e_min(mask, a):
    return ("map", "UNeg", ("max", mask, ("map", "UNeg", a)))


def e_flip(nd, axes, a):
    sel = [("s", None, None, -1) if i in axes else FULL for i in range(nd)]
    return ("get", sel, a)


def e_roll_axis(shape, shift, axis, a):
    d = shape[axis]
    t = shift % d if d else 0
    if t == 0:
        return a
    nd = len(shape)
    hi = [("s", d - t, None, None) if i == axis else FULL for i in range(nd)]
    lo = [("s", None, d - t, None) if i == axis else FULL for i in range(nd)]
    return ("concat", axis, ("get", hi, a), ("get", lo, a))


def e_chain_concat(axis, parts):
    e = parts[0]
    for p in parts[1:]:
        e = ("concat", axis, e, p)
    return e


def prod(xs):
    r = 1
    for v in xs:
        r *= v
    return r


# ============================================================================ inputs
def rand_spec(rng, shape, nnz, fmt="coo", caxes=None, small=None, values=(-3, -2, -1, 1, 2, 3, 4, 5), fill=0):
    """nnz distinct random coordinates (Python ints); `small` restricts an axis to few values so that
    coordinates collide across operands (products, element-wise matches, reductions with real groups)"""
    shape = list(shape)
    small = small or {}
    nnz = min(nnz, prod((len(small[i]) if isinstance(small.get(i), list) else min(d, small.get(i, d))) for i, d in enumerate(shape)))
    cs = set()
    while len(cs) < nnz:
        cs.add(tuple(rng.choice(small[i]) if isinstance(small.get(i), list) else rng.randrange(min(d, small.get(i, d)))
                     for i, d in enumerate(shape)))
    cs = sorted(cs)
    return {"shape": shape, "coords": [list(c) for c in cs], "data": [rng.choice(values) for _ in cs], "fill": fill,
            "format": fmt, "caxes": caxes}


def related_spec(rng, base, nnz, overlap=0.5):
    """another operand of the same shape sharing about `overlap` of its positions with base"""
    shape = base["shape"]
    nnz = min(nnz, prod(shape))
    cs = set()
    pool = [tuple(c) for c in base["coords"]]
    while len(cs) < nnz:
        if pool and rng.random() < overlap:
            cs.add(rng.choice(pool))
        else:
            cs.add(tuple(rng.randrange(d) for d in shape))
    cs = sorted(cs)
    return {"shape": list(shape), "coords": [list(c) for c in cs], "data": [rng.choice((-3, -2, -1, 1, 2, 3, 4, 5)) for _ in cs],
            "fill": 0, "format": base["format"], "caxes": base.get("caxes")}


class Scale:
    """the shapes of the campaign; tiny=True gives small analogues of every shape (same number of axes, same call
    forms) that the workers use once to JIT-compile every kernel before the measured calls"""

    def __init__(self, tiny=False):
        self.tiny = tiny
        if not tiny:
            self.S3 = (10 ** 6, 10 ** 6, 10 ** 6)
            self.P3 = (999983, 999979, 1000003)      # 999965000243001071 elements > 2^53 (the former D12 input)
            self.M2 = (2 ** 31, 2 ** 31)
            self.B2 = (10 ** 9, 10 ** 9)
            self.V1 = (10 ** 18,)
            self.A4 = (10 ** 5, 4, 10 ** 6, 10 ** 6)
            self.K3 = (10 ** 9, 10 ** 9, 4)
            self.GS3 = (50, 10 ** 6, 10 ** 6)         # GCXS, first axis compressed
            self.G2 = (1000, 10 ** 7)
            self.G3 = (10, 10 ** 6, 10 ** 6)
            self.VAR = (16, 2 ** 20, 2 ** 20)
            self.BC = [(1, 10 ** 12, 1), (10 ** 9, 1, 10 ** 9), (1, 1, 10 ** 18)]
            self.CONV = [((100, 10 ** 9, 10 ** 7), [0]), ((1000, 10 ** 15), [0]), ((10 ** 15, 500), [1]),
                         ((20, 10 ** 8, 30, 10 ** 8), [0, 2]), ((10 ** 6, 7, 10 ** 6), [1])]
            self.PROD = [(200, 10 ** 7, 10 ** 6), (10 ** 6, 10 ** 7, 200), (1000, 10 ** 6, 10 ** 6)]
            self.GPROD = (100, 10 ** 7)
            self.SLOW = (10 ** 6, 1000)
            self.col = 40
            # narrow index dtypes: every axis fits the dtype, the linearised uncompressed extent does not
            self.NARROW = [((100, 10 ** 5, 10 ** 5), "int32", [0]), ((300, 30000, 30000), "int16", [0]), ((4, 20, 20), "uint8", [0]),
                           ((40, 50, 10 ** 5, 10 ** 5), "int32", [0, 1]), ((120, 120, 120, 120), "int8", [1]),
                           ((10 ** 5, 10 ** 5, 10 ** 5), "int32", [0])]
            # long slices on an axis of extent 2^40 (few or no stored elements)
            self.LONG = [(2 ** 40,), (2 ** 40, 1000), (1000, 2 ** 40), (2 ** 40, 100, 100), (2 ** 20, 2 ** 40)]
        else:
            self.S3 = (6, 5, 7)
            self.P3 = (5, 7, 3)
            self.M2 = (8, 8)
            self.B2 = (9, 9)
            self.V1 = (40,)
            self.A4 = (5, 4, 6, 7)
            self.K3 = (6, 5, 4)
            self.GS3 = (4, 5, 7)
            self.G2 = (6, 30)
            self.G3 = (3, 8, 9)
            self.VAR = (4, 8, 8)
            self.BC = [(1, 12, 1), (9, 1, 9), (1, 1, 18)]
            self.CONV = [((4, 9, 7), [0]), ((5, 15), [0]), ((15, 5), [1]), ((3, 8, 3, 8), [0, 2]), ((6, 7, 6), [1])]
            self.PROD = [(5, 30, 6), (6, 30, 5), (7, 20, 6)]
            self.GPROD = (5, 30)
            self.SLOW = None
            self.col = 4
            self.NARROW = [((5, 6, 7), "int32", [0]), ((5, 6, 7), "int16", [0]), ((4, 6, 5), "uint8", [0]), ((3, 2, 5, 6), "int32", [0, 1]),
                           ((3, 4, 3, 4), "int8", [1]), ((6, 5, 7), "int32", [0])]
            self.LONG = [(40,), (40, 10), (10, 40), (40, 5, 5), (8, 40)]


def pick_nnz(rng, tier, big_ok=True):
    if tier == "tiny":
        return rng.randint(3, 12)
    r = rng.random()
    if big_ok and tier != "quick" and r < 0.05:
        return rng.choice([1000, 3000])
    if r < 0.25:
        return rng.randint(3, 10)
    if r < 0.75:
        return rng.randint(11, 80)
    return rng.randint(81, 300)


def mk_case(name, family, inputs, call, expr, rkind="sparse", post=None, expect_clause=None):
    op = call[0] + ("." + str(call[1]) if call[0] in ("reduce", "bin", "self2", "asformat") else "")
    return {"name": name, "op": name.split(":")[0] + ":" + op, "family": family, "fmt": inputs[0]["format"], "inputs": inputs,
            "call": call, "expr": expr, "rkind": rkind, "post": post, "expect_clause": expect_clause}


def axis_subsets(nd):
    out = []
    for m in range(1, 2 ** nd):
        out.append([i for i in range(nd) if m >> i & 1])
    return out


def rand_index(rng, spec, allow_int=True):
    """one basic index entry per axis; integer entries and slice bounds are biased towards stored coordinates"""
    shape = spec["shape"]
    idx = []
    pivot = rng.choice(spec["coords"]) if spec["coords"] else [0] * len(shape)
    for a, d in enumerate(shape):
        r = rng.random()
        if allow_int and r < 0.25:
            v = pivot[a] if rng.random() < 0.7 else rng.randrange(d)
            idx.append(v - d if rng.random() < 0.3 else v)
        elif r < 0.45:
            idx.append(FULL)
        else:
            step = rng.choice([1, 1, 2, 3, 7, -1, -1, -2, -5, 1000003])

            def bound():
                t = rng.random()
                if t < 0.3:
                    return None
                if t < 0.6:
                    return max(-d, min(d, pivot[a] + rng.choice([-3, -1, 0, 1, 2, 1000])))
                if t < 0.8:
                    return -rng.randrange(1, d + 1)
                return rng.randrange(d)
            if rng.random() < 0.5:
                # a window aligned with the pivot, so that the selection is not empty
                k = rng.randrange(0, 5)
                if step > 0:
                    lo = pivot[a] - k * step
                    idx.append(("s", lo if lo >= 0 else pivot[a] % step, bound() if rng.random() < 0.3 else None, step))
                else:
                    hi = pivot[a] + k * (-step)
                    idx.append(("s", hi if hi < d else pivot[a] + ((d - 1 - pivot[a]) // (-step)) * (-step), None, step))
            else:
                idx.append(("s", bound(), bound(), step))
    if all(isinstance(e, int) for e in idx):
        idx[rng.randrange(len(idx))] = FULL
    return idx


def scalar_op_too_big(shape, call):
    """x * 2, x + 5, x ** 2, x > 0: the scalar is broadcast (np.broadcast_to, a zero-stride view) to the full logical
    shape; NumPy refuses views with size * itemsize >= 2^63, i.e. 2^60 or more logical elements for an 8-byte scalar"""
    return call[0] in ("mulc", "addc", "sq", "gt0") and prod(shape) * 8 >= 2 ** 63


# ============================================================================ case generation
def gen_cases(tier, rng, sc=None):
    import itertools
    sc = sc or Scale()
    cases = []
    tiny = sc.tiny
    n_rep = 1 if tier in ("quick", "tiny") else 4
    few = tier in ("quick", "tiny")
    S3, P3, M2, B2, V1, A4, K3 = sc.S3, sc.P3, sc.M2, sc.B2, sc.V1, sc.A4, sc.K3

    # ---------------------------------------------------------------- element-wise (COO, GCXS, DOK)
    for _ in range(n_rep):
        for shape in [S3, P3, M2, B2, V1, A4]:
            for fmt in ["coo", "gcxs", "dok"]:
                if fmt == "gcxs" and (len(shape) < 2 or shape in (M2, B2)):
                    continue
                if fmt == "gcxs":
                    shape_ = sc.GS3 if shape in (S3, P3) else shape
                    caxes = [1] if shape_ == A4 else [0]
                else:
                    shape_, caxes = shape, None
                nnz = pick_nnz(rng, tier)
                x = rand_spec(rng, shape_, nnz, fmt, caxes)
                y = related_spec(rng, x, pick_nnz(rng, tier, big_ok=nnz >= 1000))
                un = [(["mulc", 2], ("map", "(UMulC 2)", IN0)), (["abs"], ("map", "UAbs", IN0)), (["neg"], ("map", "UNeg", IN0)),
                      (["sq"], ("map", "USq", IN0)), (["mulc", -3], ("map", "(UMulC (-3))", IN0))]
                if fmt != "dok":
                    un += [(["gt0"], ("map", "UGt0", IN0)), (["sign"], ("map", "USign", IN0)),
                           (["clip", -1, 2], ("map", "(UMinC 2)", ("map", "(UMaxC (-1))", IN0))),
                           (["addc", 5], ("map", "(UAddC 5)", IN0)),
                           (["self2", "add"], ("zip", "BAdd", IN0, IN0)), (["self2", "mul"], ("zip", "BMul", IN0, IN0))]
                for call, expr in (un if tiny or not few else rng.sample(un, 3)):
                    cases.append(mk_case(f"{fmt}:{call[0]}{call[1:]}", "elemwise", [x], call, expr,
                                         expect_clause=CL_E1 if scalar_op_too_big(shape_, call) else None))
                if fmt != "dok":
                    bi = [("add", "BAdd"), ("mul", "BMul"), ("sub", "BSub"), ("max", "BMax"), ("min", "BMin"), ("ne", "BNe")]
                    for f, b in (bi if tiny or not few else rng.sample(bi, 2)):
                        cases.append(mk_case(f"{fmt}:x {f} y", "elemwise", [x, y], ["bin", f], ("zip", b, IN0, IN1)))
    if not tiny:
        # the scalar operand on 2^62 logical elements (deterministic instance of clause E1) and just below the bound
        x = rand_spec(rng, M2, 20)
        cases.append(mk_case("coo:mulc[2]", "elemwise", [x], ["mulc", 2], ("map", "(UMulC 2)", IN0), expect_clause=CL_E1))
        x = rand_spec(rng, (2 ** 30, 2 ** 29), 20)
        cases.append(mk_case("coo:mulc[2]", "elemwise", [x], ["mulc", 2], ("map", "(UMulC 2)", IN0)))
    # broadcasting against (1,N,1)-like operands (x * b keeps the fill)
    for _ in range(2 * n_rep):
        for shape in [S3, P3]:
            x = rand_spec(rng, shape, pick_nnz(rng, tier, big_ok=False), small={1: sc.col})
            for bshape in [(1, shape[1], 1), (shape[1], 1), (1, 1, shape[2]), (shape[0], 1, 1), (shape[2],)]:
                small = {i: sc.col for i, d in enumerate(bshape) if d == shape[1] and (len(bshape) - i) == 2}
                b = rand_spec(rng, bshape, rng.randint(3, 40), small=small or None)
                cases.append(mk_case(f"coo:x * b{list(bshape)}", "elemwise-broadcast", [x, b], ["bin", "mul"], ("bmul", IN0, IN1)))

    # ---------------------------------------------------------------- indexing
    for _ in range(n_rep):
        for shape in [S3, P3, M2, V1, A4]:
            for fmt in ["coo", "dok"]:
                x = rand_spec(rng, shape, pick_nnz(rng, tier), fmt)
                for _k in range(4 if few else 10):
                    idx = rand_index(rng, x)
                    cases.append(mk_case(f"{fmt}:x[{idx}]", "index", [x], ["getitem", idx], ("get", idx, IN0)))
                if fmt == "coo":
                    # element access: a stored position and an unstored one
                    for pos in [x["coords"][0], [rng.randrange(d) for d in shape]]:
                        cases.append(mk_case(f"coo:x[{pos}]", "index", [x], ["getitem", list(pos)],
                                             ("reshape", [], ("get", [("s", p, p + 1, None) for p in pos], IN0)), "scalar"))
                    # a short integer array along one axis, slices elsewhere
                    for _k in range(2 if few else 5):
                        a = rng.randrange(len(shape))
                        ids = [rng.choice(x["coords"])[a] if rng.random() < 0.7 else rng.randrange(shape[a]) for _ in range(rng.randint(1, 4))]
                        others = [e if not isinstance(e, int) else FULL for e in rand_index(rng, x, allow_int=False)]
                        idx = [("a", ids) if i == a else others[i] for i in range(len(shape))]
                        parts = [("get", [("s", v, v + 1, None) if i == a else others[i] for i in range(len(shape))], IN0) for v in ids]
                        cases.append(mk_case(f"coo:x[{idx}]", "index-array", [x], ["getitem", idx], e_chain_concat(a, parts)))
    # GCXS indexing: 2-d (work proportional to ONE axis is allowed) and 3-d (two long uncompressed axes)
    for _ in range(n_rep):
        g2 = rand_spec(rng, sc.G2, pick_nnz(rng, tier, big_ok=False), "gcxs", [0])
        r0, c0_ = g2["coords"][0]
        g2idx = [[r0, FULL], [FULL, c0_], [("s", None, None, 2), ("s", None, None, 3)], [("s", None, None, -1), FULL],
                 [FULL, ("s", 3, sc.G2[1] // 10, 7)], [("s", 1, sc.G2[0] - 1, 5), FULL], [2, FULL]]
        for idx in (g2idx if tiny or not few else g2idx[:4]):
            cases.append(mk_case(f"gcxs2:x[{idx}]", "index", [g2], ["getitem", idx], ("get", idx, IN0)))
        g3 = rand_spec(rng, sc.G3, pick_nnz(rng, tier, big_ok=False), "gcxs", [0])
        c0 = g3["coords"][0]
        for idx in [[c0[0], FULL, FULL], [("s", 0, 3, 2), FULL, FULL], [FULL, ("s", None, None, -1), FULL]]:
            cases.append(mk_case(f"gcxs3:x[{idx}]", "index", [g3], ["getitem", idx], ("get", idx, IN0), expect_clause=CL_G2))
        for idx in [[FULL, c0[1], FULL], [FULL, FULL, c0[2]], list(c0)]:
            if all(isinstance(e, int) for e in idx):
                cases.append(mk_case(f"gcxs3:x[{idx}]", "index", [g3], ["getitem", idx],
                                     ("reshape", [], ("get", [("s", p, p + 1, None) for p in idx], IN0)), "scalar"))
            else:
                cases.append(mk_case(f"gcxs3:x[{idx}]", "index", [g3], ["getitem", idx], ("get", idx, IN0)))

    # ---------------------------------------------------------------- reductions
    for _ in range(n_rep):
        for shape, small in [(S3, {0: 30}), (P3, {2: 25}), (M2, {1: 20}), (A4, {0: 10, 2: 12}), (V1, None), (S3, None)]:
            x = rand_spec(rng, shape, pick_nnz(rng, tier), small=small)
            nd = len(shape)
            subsets = axis_subsets(nd)
            if few and len(subsets) > 7:
                subsets = rng.sample(subsets, 7)
            for axes in subsets:
                mask = [i in axes for i in range(nd)]
                full = len(axes) == nd
                rk = "scalar" if full else "sparse"
                kinds = ["sum", "max", "min", "any"] if tiny or not few else rng.sample(["sum", "max", "min", "any"], 2)
                for kind in kinds:
                    if kind == "sum":
                        expr = ("sum", mask, IN0)
                    elif kind == "max":
                        expr = ("max", mask, IN0)
                    elif kind == "min":
                        expr = e_min(mask, IN0)
                    else:
                        expr = ("max", mask, ("map", "UNe0", IN0))
                    cases.append(mk_case(f"coo:{kind}(axis={axes})", "reduce", [x], ["reduce", kind, None if full else axes], expr, rk))
                if shape == M2:
                    cnt = prod(shape[a] for a in axes)
                    cases.append(mk_case(f"coo:mean(axis={axes})", "reduce", [x], ["reduce", "mean", None if full else axes],
                                         ("sum", mask, IN0), rk, post=["mul_round", cnt]))
    # GCXS reductions
    for _ in range(n_rep):
        g2 = rand_spec(rng, sc.G2, pick_nnz(rng, tier, big_ok=False), "gcxs", [0], small={1: 30})
        for axes in [[0], [1], [0, 1]]:
            mask = [i in axes for i in range(2)]
            for kind, expr in [("sum", ("sum", mask, IN0)), ("max", ("max", mask, IN0))]:
                cases.append(mk_case(f"gcxs2:{kind}(axis={axes})", "reduce", [g2], ["reduce", kind, None if len(axes) == 2 else axes],
                                     expr, "scalar" if len(axes) == 2 else "sparse"))
        g3 = rand_spec(rng, sc.G3, pick_nnz(rng, tier, big_ok=False), "gcxs", [0], small={1: 30})
        for axes in [[1], [2], [1, 2], [0, 1], [0, 2]]:
            mask = [i in axes for i in range(3)]
            cases.append(mk_case(f"gcxs3:sum(axis={axes})", "reduce", [g3], ["reduce", "sum", axes], ("sum", mask, IN0)))
        for kind in ["sum", "max"]:
            mask = [True, False, False]
            cases.append(mk_case(f"gcxs3:{kind}(axis=[0])", "reduce", [g3], ["reduce", kind, [0]],
                                 (kind, mask, IN0), expect_clause=CL_G1))
    # var: mean of squared deviations, through a broadcast intermediate
    for _ in range(n_rep):
        c3 = rand_spec(rng, sc.VAR, rng.randint(10, 60), small={1: 30})
        for axes, clause in ([([0], None), ([1], CL_V1)] if few and not tiny else [([0], None), ([1], CL_V1), ([2], CL_V1)]):
            mask = [i in axes for i in range(3)]
            cnt = prod(c3["shape"][a] for a in axes)
            # var * cnt^2 = cnt * sum(x^2) - (sum x)^2
            expr = ("zip", "BSub", ("map", f"(UMulC {cnt})", ("sum", mask, ("map", "USq", IN0))), ("map", "USq", ("sum", mask, IN0)))
            cases.append(mk_case(f"coo:var(axis={axes})", "var", [c3], ["var", axes], expr, post=["mul_round", cnt * cnt], expect_clause=clause))

    # ---------------------------------------------------------------- shape manipulation
    for _ in range(n_rep):
        for shape in [S3, P3, A4, M2]:
            x = rand_spec(rng, shape, pick_nnz(rng, tier))
            nd = len(shape)
            perms = list(itertools.permutations(range(nd)))
            for perm in rng.sample(perms, min(len(perms), 3 if few else 8)):
                cases.append(mk_case(f"coo:transpose({list(perm)})", "shape", [x], ["transpose", list(perm)], ("trans", list(perm), IN0)))
            cases.append(mk_case("coo:T", "shape", [x], ["T"], ("trans", list(range(nd))[::-1], IN0)))
            a, b = rng.sample(range(nd), 2)
            p = list(range(nd))
            p[a], p[b] = p[b], p[a]
            cases.append(mk_case(f"coo:swapaxes({a},{b})", "shape", [x], ["swapaxes", a, b], ("trans", p, IN0)))
            p = list(range(nd))
            p.insert(b, p.pop(a))
            cases.append(mk_case(f"coo:moveaxis({a},{b})", "shape", [x], ["moveaxis", a, b], ("trans", p, IN0)))
            n = prod(shape)
            cases.append(mk_case("coo:flatten", "shape", [x], ["flatten"], ("reshape", [n], IN0)))
            cases.append(mk_case("coo:reshape(-1)", "shape", [x], ["reshape", -1], ("reshape", [n], IN0)))
            if nd >= 3:
                for sh in [[shape[0] * shape[1]] + list(shape[2:]), [shape[0], prod(shape[1:])], list(shape[:1]) + [1] + list(shape[1:])]:
                    cases.append(mk_case(f"coo:reshape({sh})", "shape", [x], ["reshape", sh], ("reshape", sh, IN0)))
                sh = [-1, shape[-1]]
                cases.append(mk_case(f"coo:reshape({sh})", "shape", [x], ["reshape", sh], ("reshape", [n // shape[-1], shape[-1]], IN0)))
            else:
                a0, b0 = shape
                for sh in [[a0 // 4, b0 * 4], [n], [a0 // 2, 2, b0]]:
                    cases.append(mk_case(f"coo:reshape({sh})", "shape", [x], ["reshape", sh], ("reshape", sh, IN0)))
            ax = rng.randrange(nd + 1)
            cases.append(mk_case(f"coo:expand_dims({ax})", "shape", [x], ["expand_dims", ax],
                                 ("reshape", list(shape[:ax]) + [1] + list(shape[ax:]), IN0)))
            ax = rng.randrange(nd)
            cases.append(mk_case(f"coo:flip({ax})", "shape", [x], ["flip", ax], e_flip(nd, [ax], IN0)))
            cases.append(mk_case("coo:flip(None)", "shape", [x], ["flip", None], e_flip(nd, list(range(nd)), IN0)))
            sft = rng.choice([1, 5, -3, shape[ax] - 1, shape[ax] + 2, 123456])
            cases.append(mk_case(f"coo:roll({sft},{ax})", "shape", [x], ["roll", sft, ax], e_roll_axis(shape, sft, ax, IN0)))
            if n < 2 ** 62:
                cases.append(mk_case(f"coo:roll({sft},None)", "shape", [x], ["roll", sft, None],
                                     ("reshape", list(shape), e_roll_axis([n], sft, 0, ("reshape", [n], IN0)))))
        # squeeze / broadcast_to on (1, N, 1)-like arrays
        for bshape in sc.BC:
            b = rand_spec(rng, bshape, pick_nnz(rng, tier, big_ok=False))
            cases.append(mk_case("coo:squeeze", "shape", [b], ["squeeze", None], ("reshape", [d for d in bshape if d != 1], IN0)))
            ones = [i for i, d in enumerate(bshape) if d == 1]
            cases.append(mk_case(f"coo:squeeze({ones[0]})", "shape", [b], ["squeeze", ones[0]],
                                 ("reshape", [d for i, d in enumerate(bshape) if i != ones[0]], IN0)))
            k = rng.randint(2, 4)
            a = ones[0]
            tgt = list(bshape)
            tgt[a] = k
            cases.append(mk_case(f"coo:broadcast_to({tgt})", "shape", [b], ["broadcast_to", tgt], e_chain_concat(a, [IN0] * k)))
            tgt2 = [k] + list(bshape)
            cases.append(mk_case(f"coo:broadcast_to({tgt2})", "shape", [b], ["broadcast_to", tgt2],
                                 e_chain_concat(0, [("reshape", [1] + list(bshape), IN0)] * k)))
    # GCXS shape ops
    for _ in range(n_rep):
        g3 = rand_spec(rng, sc.G3, pick_nnz(rng, tier, big_ok=False), "gcxs", [0])
        d0, d1, d2 = sc.G3
        for perm in [[0, 2, 1], [1, 0, 2], [2, 1, 0]]:
            cases.append(mk_case(f"gcxs3:transpose({perm})", "shape", [g3], ["transpose", perm], ("trans", perm, IN0)))
        for sh in [[d0, d1 * d2], [d0 * d1, d2], [d0 * d1 * d2]]:
            cases.append(mk_case(f"gcxs3:reshape({sh})", "shape", [g3], ["reshape", sh], ("reshape", sh, IN0)))
        cases.append(mk_case("gcxs3:flatten", "shape", [g3], ["flatten"], ("reshape", [d0 * d1 * d2], IN0)))

    # ---------------------------------------------------------------- joining (the result must still have < 2^63 elements)
    for _ in range(n_rep):
        for shape in [S3, P3, B2, V1]:
            nd = len(shape)
            x = rand_spec(rng, shape, pick_nnz(rng, tier))
            y = related_spec(rng, x, pick_nnz(rng, tier, big_ok=False))
            z = related_spec(rng, x, pick_nnz(rng, tier, big_ok=False))
            for ax in range(nd):
                cases.append(mk_case(f"coo:concatenate(axis={ax})", "join", [x, y], ["concatenate", ax], ("concat", ax, IN0, IN1)))
            ax = rng.randrange(nd)
            cases.append(mk_case(f"coo:concatenate3(axis={ax})", "join", [x, y, z], ["concatenate", ax],
                                 ("concat", ax, ("concat", ax, IN0, IN1), ("in", 2))))
            for ax in range(nd + 1):
                cases.append(mk_case(f"coo:stack(axis={ax})", "join", [x, y], ["stack", ax], ("stack", ax, IN0, IN1)))
        g3 = rand_spec(rng, sc.G3, pick_nnz(rng, tier, big_ok=False), "gcxs", [0])
        h3 = related_spec(rng, g3, pick_nnz(rng, tier, big_ok=False))
        for ax in range(3):
            cases.append(mk_case(f"gcxs3:concatenate(axis={ax})", "join", [g3, h3], ["concatenate", ax], ("concat", ax, IN0, IN1)))
        for ax in range(2):
            cases.append(mk_case(f"gcxs3:stack(axis={ax})", "join", [g3, h3], ["stack", ax], ("stack", ax, IN0, IN1)))

    # ---------------------------------------------------------------- joining with all-zero operands (nnz == 0): the typical block at scale
    def empty_like(x):
        return dict(x, coords=[], data=[])

    for _ in range(n_rep):
        for shape, fmt, cax in [(S3, "coo", None), (P3, "coo", None), (B2, "coo", None), (sc.G3, "gcxs", [0])]:
            nd = len(shape)
            x = rand_spec(rng, shape, pick_nnz(rng, tier, big_ok=False), fmt, cax)
            y = related_spec(rng, x, pick_nnz(rng, tier, big_ok=False))
            z = related_spec(rng, x, pick_nnz(rng, tier, big_ok=False))
            e = empty_like(x)
            tag = "coo" if fmt == "coo" else "gcxs3"
            patterns = [[e, x, y], [x, e, y], [x, y, e], [x, e, e, y], [e, e, x], [e, x, e, y, e], [e, e]]
            for ax in range(nd):
                for ops in (patterns if tiny or not few else rng.sample(patterns[:6], 3) + [patterns[6]]):
                    if fmt == "gcxs" and ax != 0 and few and not tiny and len(ops) > 3:
                        continue
                    names = "".join("E" if not o["coords"] else "X" for o in ops)
                    cases.append(mk_case(f"{tag}:concatenate[{names}](axis={ax})", "join-empty", list(ops), ["concatenate", ax],
                                         e_chain_concat(ax, [("in", i) for i in range(len(ops))])))
            for ax in (range(nd + 1) if fmt == "coo" else range(2)):
                ops = rng.choice([[e, x], [x, e], [e, x, y], [x, e, y]])
                names = "".join("E" if not o["coords"] else "X" for o in ops)
                expr = ("stack", ax, IN0, IN1)
                if len(ops) == 3:
                    sh1 = list(shape[:ax]) + [1] + list(shape[ax:])
                    expr = e_chain_concat(ax, [("reshape", sh1, ("in", i)) for i in range(3)])
                cases.append(mk_case(f"{tag}:stack[{names}](axis={ax})", "join-empty", list(ops), ["stack", ax], expr))
            # block-wise builds: concatenate of concatenates, along the same axis and along two different axes
            for ops in ([[x, e, e, y], [e, x, y, e], [e, e, z, x]] if not few or tiny else [[x, e, e, y], [e, x, y, e]]):
                names = "".join("E" if not o["coords"] else "X" for o in ops)
                for ax_in, ax_out in [(0, 0), (nd - 1, nd - 1), (0, nd - 1), (nd - 1, 0)]:
                    if ax_in == ax_out:
                        expr = e_chain_concat(ax_in, [("in", i) for i in range(4)])
                    else:
                        expr = ("concat", ax_out, ("concat", ax_in, ("in", 0), ("in", 1)), ("concat", ax_in, ("in", 2), ("in", 3)))
                    cases.append(mk_case(f"{tag}:blocks[{names}](in={ax_in},out={ax_out})", "join-empty", list(ops),
                                         ["concat_blocks", ax_in, ax_out, 2], expr))

    # ---------------------------------------------------------------- conversion between sparse formats
    for _ in range(n_rep):
        for shape, cax in sc.CONV:
            x = rand_spec(rng, shape, pick_nnz(rng, tier, big_ok=False))
            mask = [i in cax for i in range(len(shape))]
            cases.append(mk_case(f"coo->gcxs{cax}", "convert", [x], ["asformat", "gcxs", cax], IN0, ("gcxs", mask)))
            cases.append(mk_case("coo->dok", "convert", [x], ["asformat", "dok", None], IN0))
            g = dict(x, format="gcxs", caxes=cax)
            cases.append(mk_case(f"gcxs{cax}->coo", "convert", [g], ["asformat", "coo", None], IN0))
            cases.append(mk_case(f"gcxs{cax}->dok", "convert", [g], ["asformat", "dok", None], IN0))
            d = dict(x, format="dok")
            cases.append(mk_case("dok->coo", "convert", [d], ["asformat", "coo", None], IN0))
            cases.append(mk_case(f"dok->gcxs{cax}", "convert", [d], ["asformat", "gcxs", cax], IN0, ("gcxs", mask)))
        for shape in [S3, P3, V1]:
            x = rand_spec(rng, shape, pick_nnz(rng, tier))
            cases.append(mk_case("coo->dok", "convert", [x], ["asformat", "dok", None], IN0))
            cases.append(mk_case("dok->coo", "convert", [dict(x, format="dok")], ["asformat", "coo", None], IN0))

    # ---------------------------------------------------------------- products of 1-d and 2-d operands
    for _ in range(n_rep):
        for (n, m, p) in sc.PROD:
            ks = sorted(rng.sample(range(m), 15))
            a = rand_spec(rng, (n, m), rng.randint(10, 120), small={1: ks})
            b = rand_spec(rng, (m, p), rng.randint(10, 120), small={0: ks})
            w = rand_spec(rng, (m,), rng.randint(3, 12), small={0: ks})
            u = rand_spec(rng, (m,), rng.randint(3, 12), small={0: ks})
            cases.append(mk_case(f"coo:({n},{m})@({m},{p})", "product", [a, b], ["matmul"], ("matmul", IN0, IN1)))
            cases.append(mk_case(f"coo:dot(({n},{m}),({m},{p}))", "product", [a, b], ["dot"], ("matmul", IN0, IN1)))
            cases.append(mk_case(f"coo:({n},{m})@({m},)", "product", [a, w], ["matmul"], ("sum", [False, True], ("bmul", IN0, IN1))))
            cases.append(mk_case(f"coo:({m},)@({m},{p})", "product", [w, b], ["matmul"],
                                 ("sum", [True, False], ("bmul", IN1, ("reshape", [m, 1], IN0)))))
            cases.append(mk_case(f"coo:dot(({m},),({m},))", "product", [w, u], ["dot"], ("sum", [True], ("zip", "BMul", IN0, IN1)), "scalar"))
        v = rand_spec(rng, V1, rng.randint(5, 60))
        v2 = related_spec(rng, v, rng.randint(5, 60))
        cases.append(mk_case(f"coo:dot(({V1[0]},),({V1[0]},))", "product", [v, v2], ["dot"], ("sum", [True], ("zip", "BMul", IN0, IN1)), "scalar"))
        # GCXS with small row counts
        gr, m = sc.GPROD
        ks = sorted(rng.sample(range(m), 15))
        ga = rand_spec(rng, (gr, m), rng.randint(10, 80), "gcxs", [0], small={1: ks})
        gb = rand_spec(rng, (m, gr), rng.randint(10, 80), "gcxs", [1], small={0: ks})
        gw = rand_spec(rng, (m,), rng.randint(3, 12), "gcxs", None, small={0: ks})
        cases.append(mk_case(f"gcxs:({gr},{m})@({m},{gr})", "product", [ga, gb], ["matmul"], ("matmul", IN0, IN1)))
        cases.append(mk_case(f"gcxs:({gr},{m})@({m},)", "product", [ga, gw], ["matmul"], ("sum", [False, True], ("bmul", IN0, IN1))))
        if sc.SLOW:
            # both result extents long: the COO kernel clears a buffer of one entry per result column for every result row
            n, m = sc.SLOW
            a = rand_spec(rng, (n, m), 40, small={1: 12})
            b = rand_spec(rng, (m, n), 40, small={0: 12})
            cases.append(mk_case(f"coo:({n},{m})@({m},{n})", "product", [a, b], ["matmul"], ("matmul", IN0, IN1), expect_clause=CL_T1))

    # ---------------------------------------------------------------- nonzero, sort along a short axis
    for _ in range(n_rep):
        for shape in [S3, P3, V1]:
            x = rand_spec(rng, shape, pick_nnz(rng, tier))
            cases.append(mk_case("coo:nonzero", "misc", [x], ["nonzero"], ("map", "UNe0", IN0), post=["nonzero"]))
        x = rand_spec(rng, K3, pick_nnz(rng, tier, big_ok=False), small={0: 6, 1: 5})
        cases.append(mk_case("coo:sort(axis=2)", "misc", [x], ["sort", 2], ("sortlast", IN0)))
        cases.append(mk_case("coo:sort(axis=-1)", "misc", [x], ["sort", -1], ("sortlast", IN0)))

    # ---------------------------------------------------------------- multi-step scenarios on ONE operand object
    # op(x) first (flip / roll / pad / transpose / reshape / sort / argmax / squeeze: the functions that do coordinate
    # arithmetic), then x is used again: a partial sum, one stored element, one slab, and x + op(x).  Every answer is
    # computed by the reference from the ORIGINAL coordinate list, and the operand's bytes are compared after each step.
    def followups(x, first_expr, same_shape):
        shape = x["shape"]
        nd = len(shape)
        pos = rng.choice(x["coords"])
        ax = rng.randrange(nd)
        mask = [i == ax for i in range(nd)]
        st = [{"call": ["reduce", "sum", [ax] if nd > 1 else None], "expr": ("sum", mask, IN0), "rkind": "sparse" if nd > 1 else "scalar"},
              {"call": ["getitem", list(pos)], "expr": ("reshape", [], ("get", [("s", p_, p_ + 1, None) for p_ in pos], IN0)), "rkind": "scalar"}]
        if nd > 1:
            slab = [pos[0]] + [FULL] * (nd - 1)
            st.append({"call": ["getitem", slab], "expr": ("get", slab, IN0), "rkind": "sparse"})
        if same_shape and first_expr is not None:
            st.append({"call": ["add_prev", 0], "expr": ("zip", "BAdd", IN0, first_expr), "rkind": "sparse"})
        return st

    def seq(name, inputs, first_call, first_expr, same_shape, first_rkind="sparse"):
        steps = [{"call": first_call, "expr": first_expr, "rkind": first_rkind}] + followups(inputs[0], first_expr, same_shape)
        return {"name": "seq:" + name, "op": "seq:" + first_call[0], "family": "sequence", "fmt": inputs[0]["format"], "inputs": inputs,
                "steps": steps, "expect_clause": None}

    for _ in range(n_rep):
        for shape in [S3, P3, M2]:
            nd = len(shape)
            x = rand_spec(rng, shape, pick_nnz(rng, tier, big_ok=False))
            ax = rng.randrange(nd)
            cases.append(seq(f"flip({ax})", [x], ["flip", ax], e_flip(nd, [ax], IN0), True))
            cases.append(seq("flip(None)", [x], ["flip", None], e_flip(nd, list(range(nd)), IN0), True))
            sft = rng.choice([1, -3, shape[ax] - 1, 123456])
            cases.append(seq(f"roll({sft},{ax})", [x], ["roll", sft, ax], e_roll_axis(shape, sft, ax, IN0), True))
            e = {"shape": [1 if i == ax else d for i, d in enumerate(shape)], "coords": [], "data": [], "fill": 0, "format": "coo", "caxes": None}
            cases.append(seq(f"pad(axis {ax})", [x, e], ["pad", ax, 1, 1], ("concat", ax, ("concat", ax, IN1, IN0), IN1), False))
            perm = list(range(nd))
            rng.shuffle(perm)
            cases.append(seq(f"transpose({perm})", [x], ["transpose", perm], ("trans", perm, IN0), shape == S3 or nd == 2))
            sh = [shape[0] * shape[1]] + list(shape[2:]) if nd >= 3 else [shape[0] // 2, shape[1] * 2]
            cases.append(seq(f"reshape({sh})", [x], ["reshape", sh], ("reshape", sh, IN0), False))
        x = rand_spec(rng, K3, pick_nnz(rng, tier, big_ok=False), small={0: 6, 1: 5})
        cases.append(seq("sort(axis=2)", [x], ["sort", 2], ("sortlast", IN0), True))
        cases.append(seq("argmax(axis=2)", [x], ["argmax", 2], None, False))
        b = rand_spec(rng, sc.BC[0], pick_nnz(rng, tier, big_ok=False))
        cases.append(seq("squeeze", [b], ["squeeze", None], ("reshape", [d for d in sc.BC[0] if d != 1], IN0), False))

    # ---------------------------------------------------------------- format conversion with narrow index dtypes
    # COO coordinates of a narrow integer dtype (every axis fits, the linearised uncompressed / compressed extent does
    # not): conversion to GCXS without an explicit idx_dtype, the raw arrays, the round trip and element lookups
    for _ in range(n_rep):
        for shape, idt, cax in sc.NARROW:
            nnz_ = min(pick_nnz(rng, tier, big_ok=False), 100)
            x = dict(rand_spec(rng, shape, nnz_), idx_dtype=idt)
            mask = [i in cax for i in range(len(shape))]
            pos = rng.choice(x["coords"])
            free = [rng.randrange(d) for d in shape]
            lookup = lambda p_: ("reshape", [], ("get", [("s", q, q + 1, None) for q in p_], IN0))  # noqa: E731
            nd = len(shape)
            last = [i == nd - 1 for i in range(nd)]
            rows_ = prod(shape[a] for a in cax)
            cols_ = prod(shape[a] for a in range(len(shape)) if a not in cax)
            # the widened index dtype is np.min_scalar_type(...): unsigned; uint64 indices break lookups and reductions
            u1 = CL_U1 if max(rows_, cols_) >= 2 ** 32 else None
            kept_ = prod(shape[:-1])
            steps = [{"call": ["asformat", "gcxs", cax], "expr": IN0, "rkind": ("gcxs", mask) if rows_ <= 5000 else "sparse"},
                     {"call": ["on_prev", 0, ["asformat", "coo", None]], "expr": IN0, "rkind": "sparse"},
                     {"call": ["on_prev", 0, ["getitem", list(pos)]], "expr": lookup(pos), "rkind": "scalar", "expect_clause": u1},
                     {"call": ["on_prev", 0, ["getitem", list(free)]], "expr": lookup(free), "rkind": "scalar", "expect_clause": u1},
                     {"call": ["on_prev", 0, ["asformat", "dok", None]], "expr": IN0, "rkind": "sparse"}]
            if kept_ <= 10 ** 7:        # (a reduction of a GCXS that keeps two long axes is finding G1)
                steps.append({"call": ["on_prev", 0, ["reduce", "sum", [nd - 1]]], "expr": ("sum", last, IN0), "rkind": "sparse",
                              "expect_clause": u1})
            cases.append({"name": f"seq:coo[{idt}]{list(shape)}->gcxs{cax}", "op": "seq:narrow_to_gcxs", "family": "sequence", "fmt": "coo",
                          "inputs": [x], "steps": steps, "expect_clause": None})
            # the same array given directly as a GCXS operand (built by the same conversion), then used
            g = dict(x, format="gcxs", caxes=cax)
            cases.append(mk_case(f"gcxs[{idt}]{cax}->coo", "convert", [g], ["asformat", "coo", None], IN0))
            cases.append(mk_case(f"gcxs[{idt}]:x[{pos}]", "index", [g], ["getitem", list(pos)], lookup(pos), "scalar", expect_clause=u1))

    # ---------------------------------------------------------------- long slices on an axis of extent 2^40, 0..2 stored elements
    # (partial slices, and slices followed by another index, so that they are not pruned as full trailing slices)
    for _ in range(n_rep):
        for shape in sc.LONG:
            nd = len(shape)
            la = max(range(nd), key=lambda i: shape[i])       # the long axis
            d = shape[la]
            for nnz_ in (0, 1, 2):
                for fmt in (["coo", "dok"] if (nnz_ == 1 and not few) or tiny else ["coo"]):
                    x = rand_spec(rng, shape, nnz_, fmt)
                    c0 = x["coords"][0] if nnz_ else [rng.randrange(e) for e in shape]
                    longs = [("s", 3, d // 2, None), ("s", 1, d - 1, 1), ("s", d - 2, 0, -1), ("s", c0[la] % 7, None, 7)]
                    for sl in (longs if tiny or not few else rng.sample(longs, 2)):
                        for other in ("full", "int"):
                            idx = [sl if i == la else (FULL if other == "full" else c0[i]) for i in range(nd)]
                            if other == "int" and nd == 1:
                                continue
                            cases.append(mk_case(f"{fmt}:x[{idx}]", "index-long", [x], ["getitem", idx], ("get", idx, IN0)))

    # unsigned / narrow coordinate dtypes under slices with a negative step or a non-zero start: (coord - start) // step
    # must be formed in intp (seeded C16-m6: the arithmetic ran in the operand's unsigned dtype -> OverflowError)
    for shape, idt in [((3 * 10 ** 9,), "uint32"), ((60000,), "uint16"), ((200, 250), "uint8"), ((120, 100), "int8"),
                       ((250, 3, 200), "uint8")]:
        x = dict(rand_spec(rng, shape, 3), idx_dtype=idt)
        nd = len(shape)
        c0 = x["coords"][0]
        for sl in [("s", None, None, -1), ("s", shape[0] - 1, 0, -2), ("s", 1, None, 1), ("s", c0[0], None, -1)]:
            idx = [sl] + [FULL] * (nd - 1)
            cases.append(mk_case(f"coo[{idt}]:x[{idx}]", "index-narrow", [x], ["getitem", idx], ("get", idx, IN0)))
        if nd >= 2:
            idx = [FULL] * (nd - 1) + [("s", None, None, -1)]
            cases.append(mk_case(f"coo[{idt}]:x[{idx}]", "index-narrow", [x], ["getitem", idx], ("get", idx, IN0)))
            idx = [("s", None, None, -3)] + [c0[i] for i in range(1, nd)]
            cases.append(mk_case(f"coo[{idt}]:x[{idx}]", "index-narrow", [x], ["getitem", idx], ("get", idx, IN0)))

    if tier == "quick":
        # a few operands with thousands of stored elements (the reference is quadratic in Coq for zip / reductions)
        big = rand_spec(rng, S3, 3000, small={0: 50})
        big2 = related_spec(rng, big, 1000)
        cases.append(mk_case("coo:mulc[2]", "elemwise", [big], ["mulc", 2], ("map", "(UMulC 2)", IN0)))
        cases.append(mk_case("coo:x add y", "elemwise", [big2, related_spec(rng, big2, 1000)], ["bin", "add"], ("zip", "BAdd", IN0, IN1)))
        cases.append(mk_case("coo:sum(axis=[1, 2])", "reduce", [big], ["reduce", "sum", [1, 2]], ("sum", [False, True, True], IN0)))
        cases.append(mk_case("coo:transpose([2, 0, 1])", "shape", [big], ["transpose", [2, 0, 1]], ("trans", [2, 0, 1], IN0)))
        cases.append(mk_case("coo:reshape(-1)", "shape", [big], ["reshape", -1], ("reshape", [prod(S3)], IN0)))
        idx = [("s", None, None, -1), FULL, ("s", 5, None, 3)]
        cases.append(mk_case(f"coo:x[{idx}]", "index", [big], ["getitem", idx], ("get", idx, IN0)))
    # calls expected to run into the time limit first, so that they overlap with everything else; operands with
    # thousands of stored elements spread out, so that they land in different Coq case files
    slow = [c for c in cases if c["expect_clause"] in (CL_T1, CL_V1)]
    bigs = [c for c in cases if c not in slow and max(len(s_["coords"]) for s_ in c["inputs"]) >= 1000]
    rest = [c for c in cases if c not in slow and c not in bigs]
    out = slow + rest
    step = max(13, len(out) // (len(bigs) + 1)) if bigs else 13
    for k, c in enumerate(bigs):
        out.insert(min(len(out), 5 + k * step), c)
    return out


# ============================================================================ campaign
CODE_MEANING = {1: "the call failed or did not return (exception / MemoryError / time-out / kill)",
                2: "a dense array or another object where a sparse result is required",
                3: "the result is ill-formed (Corr/SArr.v sarr_wfb)", 4: "shape or fill value differs from the reference",
                5: "values differ from the sparse reference", 6: "the reference could not be evaluated (model or harness defect)",
                7: "GCXS arrays differ from the reference rows",
                8: "the call returned the right result but modified its operand (coords/data bytes differ from before the call)"}


def clause_of(case, res, code):
    """the named clause of a resource failure, decided from what was called (never for wrong values)"""
    if code != 1:
        return None
    return case.get("expect_clause")


def replay_program(case):
    return ("import resource, numpy as np, sparse, sys; sys.path.insert(0, '/verif/tools'); import vlib; from props import c16; "
            f"case = {case!r}; "
            "print(c16.impl_case(case))")


_IMPL_CACHE = {}     # (tier, seed, repository) -> (cases, results, seconds): the implementation side of one check process


def campaign(build, tier, seed, report, budget=1):
    # when the regenerated development does not build, tools/check.py calls campaign() a second time with the
    # reference model: the implementation's answers are the same, only the Coq side changes -> run it once
    key = (tier, seed, vlib.REPO)
    if key not in _IMPL_CACHE:
        rng = random.Random(seed * 7919 + 16)
        cases = gen_cases(tier, rng)
        t0 = time.time()
        res = vlib.run_impl("props.c16", "impl_case", cases, workers=6, per_case_timeout=WALL_BACKSTOP + 30.0)
        _IMPL_CACHE[key] = (cases, res, time.time() - t0)
    cases, res, t_impl = _IMPL_CACHE[key]
    n_calls = len(cases)
    # a multi-step scenario becomes one judged case per step (same operands, the step's own reference expression)
    flat_c, flat_r = [], []
    for c, r in zip(cases, res, strict=True):
        if "steps" not in c:
            flat_c.append(c)
            flat_r.append(r)
            continue
        rs = r.get("steps") if isinstance(r, dict) and r.get("k") == "seq" else None
        done = []
        for k, st in enumerate(c["steps"]):
            done.append(st["call"])
            sub = {"name": c["name"] + f" step {k}: {st['call']}", "op": c["op"] if k == 0 else c["op"] + ">" + st["call"][0],
                   "family": "sequence", "fmt": c["fmt"], "inputs": c["inputs"], "call": st["call"], "expr": st["expr"],
                   "rkind": st["rkind"], "post": st.get("post"), "expect_clause": st.get("expect_clause"), "sequence": list(done), "seq_case": c}
            flat_c.append(sub)
            flat_r.append(rs[k] if rs is not None else r)      # the whole scenario failed / timed out: every step inherits it
    cases, res = flat_c, flat_r
    judged = [i for i, c in enumerate(cases) if c["expr"] is not None]
    lits = [lit_case(cases[i], res[i]) for i in judged]
    # cases with many stored elements are quadratic in Coq: small chunks so that they run in parallel
    t0 = time.time()
    verdicts = {judged[j]: code for j, code in build.judge(
        "c16", "From Verif Require Import Py Shape COO GCXS SArr PySlice SparseOps C16Judge.",
        "c16_case", "judge_c16", lits, chunk=12, timeout=900)}
    t_coq = time.time() - t0
    for i, (c, r) in enumerate(zip(cases, res, strict=True)):
        failed = (not isinstance(r, dict)) or r.get("hang") or r.get("k") in ("exc", None) or "crash" in r
        if c["expr"] is None and failed:
            verdicts[i] = 1                 # a step without a reference expression (argmax) must still complete
        if isinstance(r, dict) and r.get("operand_changed") and i not in verdicts:
            verdicts[i] = 8                 # right answer, but the call rewrote its operand
    viol = []
    tags = {}
    rss_max, rss_arg, secs_max = 0, None, 0.0
    logical = []
    for i, (c, r) in enumerate(zip(cases, res, strict=True)):
        code = verdicts.get(i, 0)
        outcome = "ok" if code == 0 else f"code{code}"
        key = f"{c['family']}/{c['fmt']}/{outcome}"
        tags[key] = tags.get(key, 0) + 1
        if isinstance(r, dict) and r.get("rss_mb", 0) > rss_max and code == 0:
            rss_max, rss_arg = r["rss_mb"], c["name"] + " shape=" + str(c["inputs"][0]["shape"])
        if isinstance(r, dict):
            secs_max = max(secs_max, r.get("secs", 0.0))
        logical.append(max(prod(s_["shape"]) for s_ in c["inputs"]))
        if code == 0:
            continue
        kind = {1: "value", 2: "value", 3: "value", 4: "value", 5: "value", 6: "representation", 7: "representation", 8: "value"}[code]
        small = {k_: v_ for k_, v_ in c.items() if k_ != "seq_case"}
        small["inputs"] = [dict(s, coords=s["coords"][:400], data=s["data"][:400]) for s in c["inputs"]] if any(len(s["coords"]) > 400 for s in c["inputs"]) else c["inputs"]
        viol.append({"property": "C16", "op": c["op"], "call": c["name"],
                     "family": c["family"], "format": c["fmt"], "kind": kind, "clause": clause_of(c, r, code),
                     "code": code, "meaning": CODE_MEANING[code], "case": small,
                     "impl": {k: v for k, v in (r or {}).items() if k in ("k", "exc", "cls", "msg", "hang", "secs", "rss_mb", "shape", "repr", "crash")},
                     "limits": {"address_space": "baseline + 3 GiB", "cpu_seconds": TLIMIT, "wall_backstop_seconds": WALL_BACKSTOP},
                     "minimal_repro": MINIMAL_REPRO.get(clause_of(c, r, code)),
                     "sequence": c.get("sequence"),
                     "replay_py": replay_program(c.get("seq_case", c))})
    cov = report["coverage"]
    cov["evaluations"] = len(cases)
    cov["forked_calls_or_scenarios"] = n_calls
    cov["multi_step_scenarios"] = len({id(c["seq_case"]) for c in cases if "seq_case" in c})
    cov["distinct_nontrivial"] = len({(c["name"], tuple(c["inputs"][0]["shape"]), len(c["inputs"][0]["coords"])) for c in cases})
    cov["rule"] = ("one evaluation = one API call on operands with 10^12..10^18 logical elements and 3..3000 stored elements, run in a "
                   "forked child under RLIMIT_AS = baseline + 3 GiB and 30 s, compared inside Coq with the sparse-only reference; "
                   "distinct = distinct (call, shape, number of stored elements)")
    cov["branch_tags"] = dict(sorted(tags.items()))
    cov["logical_size_min"] = min(logical)
    cov["logical_size_max"] = max(logical)
    hist = {}
    for n in logical:
        k = f"1e{len(str(n)) - 1}"
        hist[k] = hist.get(k, 0) + 1
    cov["logical_size_of_largest_operand_by_decade"] = dict(sorted(hist.items(), key=lambda kv: int(kv[0][2:])))
    cov["stored_elements_max"] = max(len(s["coords"]) for c in cases for s in c["inputs"])
    cov["peak_rss_delta_mb_max_over_passing_calls"] = rss_max
    cov["peak_rss_delta_argmax"] = rss_arg
    cov["slowest_call_s"] = secs_max
    cov["wall_impl_s"] = round(t_impl, 1)
    cov["wall_coq_cases_s"] = round(t_coq, 1)
    cov["differential_only"] = ["sort along the last axis (Corr/C16Judge.v sp_sort_last has no theorem)",
                                "mean / var (checked as mean*count = sum on power-of-two extents)"]
    cov["samples"] = [{"case": {k: (v if k != "inputs" else [dict(s, coords=s["coords"][:5], data=s["data"][:5]) for s in v]) for k, v in cases[i].items() if k != "seq_case"},
                       "impl": {k: (v if not isinstance(v, list) else v[:6]) for k, v in (res[i] or {}).items()}, "verdict": verdicts.get(i, 0)}
                      for i in (0, len(cases) // 3, 2 * len(cases) // 3, len(cases) - 1)]
    report["notes"].append("partial: actual peak memory and NumPy temporaries are runtime behaviour; the bound is proved on the "
                           "reference model (Props/C16.v mem_bound_*), the limit test is on the code")
    return viol


def replay(path):
    v = json.load(open(path))
    print(json.dumps({k: v[k] for k in v if k not in ("case", "replay_py")}, indent=1)[:3000])
    if "replay_py" in v:
        p = subprocess.run([vlib.PY, "-c", v["replay_py"]], env=vlib.env_clean(), capture_output=True, text=True, timeout=300)
        print("\n".join(l for l in (p.stdout + p.stderr[-800:]).splitlines() if "conda" not in l))
    return 0
