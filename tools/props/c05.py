"""C05 — construction and format conversion are lossless and representation-independent.

Campaign (implementation in worker processes, model and verdicts inside Coq, Corr/C05Judge.v):
  1. kernels      : the jitted helpers of _compressed/convert.py and the NumPy primitives the model
                    gives list definitions for, against the model functions that transcribe them;
  2. construction : COO(coords, data, …) from unsorted / duplicated / pruned input, from dicts and
                    iterables, from dense arrays (every target format), from scipy.sparse matrices
                    (coo/csr/csc, canonical or not), compared with the model exactly and with the Spec
                    (sum of the values given for an index);
  3. chains       : (incl. operands whose coordinates are held in int8/uint8/int16/uint16 with compressed
                    extents straddling the dtype's maximum) random conversion histories through COO, GCXS (every compressed-axes subset and
                    the default), CSR, CSC, DOK, scipy.sparse, dense — after EVERY hop the raw
                    representation is compared with the model's, sarr_wfb is evaluated, and the dense
                    meaning / shape / fill / dtype are compared with the original;
  4. independence : the same operation on the same array held as COO / every GCXS axes choice / DOK
                    must give the NumPy result.
"""
import itertools
import json
import math
import random
import time

import vlib
from vlib import vZ, vbool, vlist, vpair

LEVEL = "proof"
TRUSTED_BASE = [
    "Coq 8.16.1 kernel + vm_compute (case evaluation); no native_compute",
    "axioms: none (Print Assumptions: Closed under the global context for every C05 theorem)",
    "Model/Convert.v as a transcription of COO.__init__/_sort_indices/_sum_duplicates/_prune/from_iter/reshape/"
    "transpose, _from_coo, GCXS.tocoo/change_compressed_axes/_transpose/_convert_coords/unravel_index/"
    "ravel_multi_index/uncompress_dimension, DOK.from_coo/asformat — tied to the code by kernel-level and "
    "API-level correspondence on every run (this campaign); np.argsort(stable), np.bincount, np.cumsum, "
    "np.argmin, np.ravel_multi_index are list definitions validated by the kernel cases",
    "Lib/Shape.v, Model/COO.v, Model/GCXS.v (den, canonical form, gcxs_wfb) as the meaning of the formats",
    "tools/sitegen/convert.py (index-dtype bounds of _from_coo/_transpose -> Gen/S_convert.v) and tools/sitegen/scipyconv.py "
    "(_canonical_scipy's condition, axis choice and constructor flags at the scipy boundary -> Gen/S_scipyconv.v): AST extractors, fail-closed",
    "Model/ScipyConv.v as a description of scipy's csr/csc arrays, has_canonical_format and sum_duplicates (by its result), "
    "compared with real scipy on canonical and non-canonical input by the construction stream",
    "scipy.sparse itself (format changes inside scipy are not modelled; a scipy hop is compared with the "
    "canonical result of the same hop)",
    "correspondence harness tools/props/c05.py, tools/vlib.py",
]
ASSUMPTIONS = [
    "element values are opaque (V with decidable equality); sums of duplicates use an abstract add; dtype "
    "handling is not modelled — dtype preservation is checked differentially on every hop",
    "a dense array carries no fill value: a hop through dense passes the original fill back to from_numpy",
    "np.argsort without kind= (_from_coo) is modelled by the stable sort; the theorems about it assume a canonical "
    "COO (distinct keys), where every sorting permutation coincides",
]

DTYPES = {
    "int64": dict(values=(-3, -2, -1, 1, 2, 3, 4, 5), fills=(0, 0, 3, -1)),
    "int32": dict(values=(-3, -2, -1, 1, 2, 3, 4, 5), fills=(0, 7)),
    "uint8": dict(values=(1, 2, 3, 4, 5, 200), fills=(0, 9)),
    "float64": dict(values=(-3.0, -2.0, -1.0, 1.0, 2.0, 3.0, 4.0, 5.0), fills=(0.0, 2.0, float("nan"), float("inf"), -0.0, 2.5)),
    "float32": dict(values=(-3.0, -1.0, 1.0, 2.0, 4.0), fills=(0.0, float("nan"), -0.0)),
    "complex128": dict(values=(-3, -1, 1, 2, 5), fills=(0, 3)),
    "bool": dict(values=(1,), fills=(0,)),
}


# ------------------------------------------------------------------ literals
def tok(v):
    return vlib.val_token(v)


def lit_coo(shape, coords, data, fill):
    return "(mkCOO %s %s %s %s)" % (vlist(shape), vlist(coords, vlist), vlist([tok(v) for v in data]), vZ(tok(fill)))


def lit_fmt(h):
    k = h["fmt"]
    if k == "coo":
        return "FCoo"
    if k == "gcxs":
        return "(FGcxs None)" if h.get("axes") is None else f"(FGcxs (Some {vlist(h['axes'])}))"
    return {"csr": "FCsr", "csc": "FCsc", "dok": "FDok", "dense": "FDense"}[k]


def lit_items(items):
    return vlist(items, lambda kv: vpair(vlist(kv[0]), vZ(tok(kv[1]))))


def scipy_equiv(f, axis):
    """the model-level hop a conversion from a scipy matrix is equivalent to: GCXS.from_scipy_sparse keeps
    csc as compressed axes (1,) and turns everything else into csr, compressed axes (0,)"""
    return {"fmt": "gcxs", "axes": [axis]} if f["fmt"] == "gcxs" else f


def jcase(c):
    return json.dumps(c, allow_nan=True)


def replay_line(fn, case):
    return ("import sys, json; sys.path.insert(0, '/verif/tools'); from props import c05; "
            f"print(c05.{fn}(json.loads({jcase(case)!r})))")


# ------------------------------------------------------------------ implementation side (worker)
def _np_fill(dt, f):
    import numpy as np
    return np.dtype(dt).type(f)


def _build(spec):
    return vlib.build_array(dict(spec, format="coo"), dtype=spec["dtype"])


def _cs_cls(name):
    from sparse.numba_backend._compressed import CSC, CSR
    return CSR if name == "csr" else CSC


def _apply_hop(cur, h, fv):
    """one conversion hop; h = {fmt, axes, via, scipy, skind}"""
    import numpy as np
    import sparse
    k, axes, via = h["fmt"], h.get("axes"), h.get("via", 0)
    axes = None if axes is None else tuple(axes)
    if isinstance(cur, np.ndarray):
        zero_fill = bool(fv == 0) and not (np.issubdtype(cur.dtype, np.floating) and np.signbit(fv)) and cur.ndim > 0
        if k == "dense":
            return cur
        if k == "coo":
            if zero_fill and via == 1:
                return sparse.asarray(cur, format="coo")
            if zero_fill and via == 2:
                return sparse.COO(cur)
            return sparse.COO.from_numpy(cur, fill_value=fv)
        if k == "gcxs":
            if zero_fill and via == 1 and axes is None:
                return sparse.asarray(cur, format="gcxs")
            if zero_fill and via == 2:
                return sparse.GCXS(cur, compressed_axes=axes)
            return sparse.GCXS.from_numpy(cur, compressed_axes=axes, fill_value=fv)
        if k in ("csr", "csc"):
            if zero_fill and via == 1:
                return sparse.asarray(cur, format=k)
            return _cs_cls(k).from_numpy(cur, fill_value=fv)
        if k == "dok":
            # DOK.from_numpy takes no fill value: the direct constructors (DOK.from_numpy / asarray(format="dok") /
            # DOK(ndarray)) serve arrays with fill 0, any ndim (0-d included); other fills return to DOK through COO
            dok_zero = bool(fv == 0) and not (np.issubdtype(cur.dtype, np.floating) and np.signbit(fv))
            if h.get("direct") or dok_zero:
                if via == 1:
                    return sparse.asarray(cur, format="dok")
                return sparse.DOK(cur) if via == 2 else sparse.DOK.from_numpy(cur)
            return sparse.COO.from_numpy(cur, fill_value=fv).asformat("dok")
        raise AssertionError(k)
    if h.get("scipy"):
        m = cur.to_scipy_sparse()
        if h.get("skind"):
            m = m.asformat(h["skind"])
        if via == 1:
            return sparse.asarray(m, format=k)
        cls = {"coo": sparse.COO, "gcxs": sparse.GCXS, "dok": sparse.DOK}.get(k) or _cs_cls(k)
        if via == 2 and k in ("coo", "gcxs", "dok"):
            return cls(m)
        return cls.from_scipy_sparse(m)
    if k == "dense":
        return sparse.asnumpy(cur) if via == 1 else cur.todense()
    if k == "coo":
        if via == 1:
            return sparse.asarray(cur, format="coo")
        if via == 2 and isinstance(cur, sparse.GCXS):
            return cur.tocoo()
        if via == 2 and isinstance(cur, sparse.DOK):
            return cur.to_coo()
        if via == 3:
            return sparse.COO(cur)
        return cur.asformat("coo")
    if k == "gcxs":
        if axes is None:
            return sparse.asarray(cur, format="gcxs") if via == 1 else cur.asformat("gcxs")
        if via == 1 and isinstance(cur, sparse.GCXS):
            return cur.change_compressed_axes(axes)
        if via == 2 and isinstance(cur, sparse.COO):
            return sparse.GCXS.from_coo(cur, compressed_axes=axes)
        if via == 3 and isinstance(cur, sparse.COO | sparse.GCXS):
            return sparse.GCXS(cur, compressed_axes=axes)
        return cur.asformat("gcxs", compressed_axes=axes)
    if k in ("csr", "csc"):
        return sparse.asarray(cur, format=k) if via == 1 else cur.asformat(k)
    if k == "dok":
        if via == 1:
            return sparse.asarray(cur, format="dok")
        if via == 2 and isinstance(cur, sparse.GCXS):
            return cur.todok()
        if via == 3 and isinstance(cur, sparse.COO):
            return sparse.DOK(cur)
        return cur.asformat("dok")
    raise AssertionError(k)


def impl_chain(case):
    import numpy as np
    spec = case["spec"]
    x = vlib.build_array(dict(spec, format="coo"), dtype=spec["dtype"], idx_dtype=case.get("idx_dtype"))
    fv = x.fill_value
    outs = []
    cur = x
    expected = vlib.spec_dense(spec, dtype=spec["dtype"]) if case.get("raw") else None
    dense_bad = []
    for hno, h in enumerate(case["hops"]):
        try:
            cur = _apply_hop(cur, h, fv)
            p = vlib.plain(cur)
            if expected is not None:
                # large arrays: the dense meaning is compared here with NumPy (inside Coq only the raw arrays are)
                d = cur if isinstance(cur, np.ndarray) else cur.todense()
                if d.shape != expected.shape or not np.array_equal(d, expected):
                    dense_bad.append({"hop": hno + 1, "differing_elements": int((d != expected).sum()) if d.shape == expected.shape else -1})
                if p.get("k") == "dense" and d.size > 4000:
                    p = {"k": "other", "repr": "large dense array (compared with NumPy only)"}
            outs.append(p)
        except Exception as ex:  # noqa: BLE001
            outs.append(vlib.plain(ex))
            break
    return {"outs": outs, "dtype": str(x.dtype), "coords_dtype": str(x.coords.dtype), "dense_bad": dense_bad}


def impl_make(case):
    import numpy as np
    import scipy.sparse as sps
    import sparse
    k = case["k"]
    dt = np.dtype(case.get("dtype", "int64"))
    try:
        if k == "coords":
            sh = tuple(case["shape"])
            n, nd = len(case["coords"]), len(sh)
            co = np.array(case["coords"], dtype=np.intp).reshape(n, -1).T if n else np.zeros((nd, 0), dtype=np.intp)
            if n and nd == 0:
                co = np.zeros((0, n), dtype=np.intp)
            if case.get("idx_dtype"):
                co = co.astype(case["idx_dtype"])
            r = sparse.COO(co, np.array(case["data"], dtype=dt), shape=sh, fill_value=dt.type(case["fill"]),
                           sorted=case["sorted"], has_duplicates=case["hasdup"], prune=case["prune"])
        elif k == "iter":
            sh = tuple(case["shape"])
            items = [(tuple(c), dt.type(v)) for c, v in case["items"]]
            form = case["form"]
            if form == "dict":
                x = dict(items)
            elif form == "list":
                x = items
            elif form == "iterator":
                x = iter(items)
            else:   # (data, coords) form
                x = ([v for _c, v in items], tuple([c[a] for c, _v in items] for a in range(len(sh))))
            f = case["fmt"]
            fv = dt.type(case["fill"])
            if f["fmt"] == "coo":
                r = sparse.COO(x, shape=sh, fill_value=fv) if case.get("via") == 1 else sparse.COO.from_iter(x, shape=sh, fill_value=fv, dtype=dt)
            else:
                ax = None if f.get("axes") is None else tuple(f["axes"])
                r = sparse.GCXS.from_iter(x, shape=sh, compressed_axes=ax, fill_value=fv)
        elif k == "dense":
            d = np.array(case["flat"], dtype=dt).reshape(tuple(case["shape"]))
            r = _apply_hop(d, case["fmt"], dt.type(case["fill"]))
        elif k == "scipy_coo":
            m = sps.coo_matrix((np.array(case["data"], dtype=dt), (np.array(case["row"], dtype=np.int32), np.array(case["col"], dtype=np.int32))),
                               shape=tuple(case["shape"]))
            snap = _scipy_snapshot(m)
            r = _from_scipy(m, case["fmt"], case.get("via", 0))
            out = vlib.plain(r)
            out["operand_modified"] = _scipy_changed(m, snap)
            return out
        elif k == "scipy_cs":
            cls = sps.csr_matrix if case["axis"] == 0 else sps.csc_matrix
            m = cls((np.array(case["data"], dtype=dt), np.array(case["indices"], dtype=np.int32), np.array(case["indptr"], dtype=np.int32)),
                    shape=tuple(case["shape"]))
            snap = _scipy_snapshot(m)
            r = _from_scipy(m, case["fmt"], case.get("via", 0))
            modified = _scipy_changed(m, snap)
            probe = None
            if hasattr(r, "todense"):
                # element-wise read-back through indexing, against scipy's own meaning
                ref = np.asarray(m.todense())
                bad = [(i, j) for i in range(ref.shape[0]) for j in range(ref.shape[1]) if _item(r, i, j) != ref[i, j]]
                probe = bad[:3]
            out = vlib.plain(r)
            out["getitem_mismatch"] = probe
            out["operand_modified"] = modified
            return out
        else:
            raise AssertionError(k)
        return vlib.plain(r)
    except Exception as ex:  # noqa: BLE001
        return vlib.plain(ex)


def _scipy_snapshot(m):
    """copies of the arrays a scipy matrix is made of (the conversions must leave the operand alone)"""
    names = ("row", "col", "data") if m.format == "coo" else ("data", "indices", "indptr")
    return {n: getattr(m, n).copy() for n in names} | {"nnz": int(m.nnz), "shape": tuple(m.shape)}


def _scipy_changed(m, snap):
    import numpy as np
    bad = []
    for n, a in snap.items():
        b = getattr(m, n)
        if isinstance(a, np.ndarray):
            if not (a.shape == b.shape and a.dtype == b.dtype and np.array_equal(a, b)):
                bad.append(f"{n}: {a.tolist()} -> {np.asarray(b).tolist()}")
        elif a != (tuple(b) if n == "shape" else int(b)):
            bad.append(f"{n}: {a} -> {b}")
    return bad


def _item(r, i, j):
    try:
        v = r[i, j]
        return v.todense() if hasattr(v, "todense") else v
    except Exception:  # noqa: BLE001
        return None


def _from_scipy(m, f, via):
    import sparse
    k = f["fmt"]
    if via == 1:
        return sparse.asarray(m, format=k)
    cls = {"coo": sparse.COO, "gcxs": sparse.GCXS, "dok": sparse.DOK}.get(k) or _cs_cls(k)
    if via == 2 and k in ("coo", "gcxs", "dok"):
        return cls(m)
    return cls.from_scipy_sparse(m)


def impl_kernel(case):
    import numpy as np
    import sparse
    from sparse.numba_backend._compressed import compressed as C
    from sparse.numba_backend._compressed import convert as K
    from sparse.numba_backend._coo.common import linear_loc
    k = case["k"]
    I = np.intp
    if k == "unravel":
        return [int(v) for v in K.unravel_index(I(case["n"]), np.array(case["shape"], dtype=I))]
    if k == "ravel":
        return int(K.ravel_multi_index(np.array(case["arr"], dtype=I), np.array(case["shape"], dtype=I)))
    if k == "uncompress":
        return [int(v) for v in K.uncompress_dimension(np.array(case["indptr"], dtype=I))]
    if k == "convert":
        nl = np.empty(1, dtype=I)
        nc = np.empty((2, 1), dtype=I)
        K._convert_coords(np.array([case["n"]], dtype=I), np.array(case["old_shape"], dtype=I), np.array(case["rsh"], dtype=I),
                          np.array(case["sao"], dtype=I), np.arange(len(case["shape"]), dtype=I), np.array(case["shape"], dtype=I),
                          np.array(case["new_ord"], dtype=I), np.array(case["new_rsh"], dtype=I), nl, nc,
                          np.array(case["new_cshape"], dtype=I), False)
        return {"linear": int(nl[0]), "coords": [int(nc[0, 0]), int(nc[1, 0])]}
    if k == "argsort":
        return [int(v) for v in np.argsort(np.array(case["keys"], dtype=I), kind="mergesort")]
    if k == "bincount":
        m = case["m"]
        indptr = np.empty(m + 1, dtype=I)
        indptr[0] = 0
        np.cumsum(np.bincount(np.array(case["rows"], dtype=I), minlength=m), out=indptr[1:])
        return [int(v) for v in indptr]
    if k == "argmin":
        return int(np.argmin(tuple(case["l"])))
    if k == "invperm":
        return [int(v) for v in np.argsort(case["ord"])]
    if k == "strided":
        sh = tuple(case["shape"])
        size = int(np.prod(sh))
        x = sparse.COO(np.array([[case["n"]]]), np.array([1]), shape=(size,))
        return [int(v) for v in x.reshape(sh).coords[:, 0]]
    if k == "from_coo":
        x = vlib.build_array(dict(case["spec"], format="coo"))
        (data, indices, indptr), _sh, _ca, _fv = C._from_coo(x, tuple(case["ca"]))
        return {"data": [int(v) for v in data], "indices": [int(v) for v in indices], "indptr": [int(v) for v in indptr]}
    if k == "transpose":
        x = vlib.build_array(dict(case["spec"], format="gcxs", caxes=case["ca"]))
        data, indices, indptr = K._transpose(x, x.shape, np.arange(x.ndim), tuple(case["new_ca"]))
        return {"data": [int(v) for v in data], "indices": [int(v) for v in indices], "indptr": [int(v) for v in indptr],
                "g": vlib.plain(x)}
    if k == "linear_loc":
        co = np.array(case["coords"], dtype=I).reshape(len(case["coords"]), -1).T
        return [int(v) for v in linear_loc(co, tuple(case["shape"]))]
    raise AssertionError(k)


def impl_indep(case):
    """the same operation with the operand(s) held in every representation"""
    import numpy as np
    import sparse
    spec = case["spec"]
    x = _build(spec)
    d = vlib.spec_dense(spec, dtype=spec["dtype"])
    op = case["op"]
    y = yd = None
    if op["k"] == "add":
        y = _build(op["other"])
        yd = vlib.spec_dense(op["other"], dtype=spec["dtype"])
    nd = x.ndim

    def hold(a, rep):
        if rep == "coo":
            return a
        if rep == "dok":
            return a.asformat("dok")
        if rep == "gcxs":
            return a.asformat("gcxs")
        return a.asformat("gcxs", compressed_axes=tuple(rep))

    def run(a, b):
        if op["k"] == "sum":
            return a.sum(axis=op["axis"])
        if op["k"] == "add":
            return a + b
        if op["k"] == "getitem":
            return a[_mk_index(op["index"])]
        if op["k"] == "transpose":
            return a.transpose(tuple(op["axes"]))
        raise AssertionError(op)
    if op["k"] == "sum":
        exp = d.sum(axis=op["axis"])
    elif op["k"] == "add":
        exp = d + yd
    elif op["k"] == "getitem":
        exp = d[_mk_index(op["index"])]
    else:
        exp = d.transpose(tuple(op["axes"]))
    outs = []
    for rep in case["reps"]:
        try:
            r = run(hold(x, rep), None if y is None else hold(y, rep))
            outs.append(vlib.plain(r))
        except Exception as ex:  # noqa: BLE001
            outs.append(vlib.plain(ex))
    exp = np.asarray(exp)
    return {"outs": outs, "exp_shape": [int(v) for v in exp.shape], "exp_flat": [vlib.val_token(v) for v in exp.reshape(-1)], "ndim": nd}


def impl_any(case):
    """single entry point so that one worker pool (one JIT warm-up per worker) serves every phase"""
    fn, c = case
    return globals()[fn](c)


def _mk_index(ix):
    return tuple(slice(*e) if isinstance(e, list) else e for e in ix)


# ------------------------------------------------------------------ generators
def all_axes_subsets(nd):
    out = []
    for k in range(1, nd):
        out.extend(list(c) for c in itertools.combinations(range(nd), k))
    return out


def gen_shape(rng, nd, extents, max_size):
    while True:
        sh = [rng.choice(extents) for _ in range(nd)]
        if math.prod(sh) <= max_size:
            return sh


def gen_spec(rng, tier, nd=None, dtype=None, max_size=None):
    if dtype is None:
        dtype = rng.choice(["int64", "int64", "float64", "float64", "int32", "uint8", "float32", "complex128", "bool"])
    info = DTYPES[dtype]
    if nd is None:
        nd = rng.choice([0, 1, 2, 2, 3, 3, 4, 5])
    if max_size is None:
        max_size = 48 if tier == "quick" else 96
    extents = (0, 1, 2, 2, 3, 3) if nd >= 4 else (0, 1, 2, 3, 3, 4, 5)
    sh = gen_shape(rng, nd, extents, max_size)
    spec = vlib.gen_array_spec(rng, shape=sh, fills=info["fills"], values=info["values"])
    spec["dtype"] = dtype
    return spec


def default_axes(shape):
    if len(shape) < 2:
        return None
    return [min(range(len(shape)), key=lambda i: (shape[i], i))]


def gen_hops(rng, spec, maxlen):
    """a conversion history; tracks the symbolic state so that hops through scipy can be given the
    model-level hop they are equivalent to"""
    sh = spec["shape"]
    nd = len(sh)
    fill = spec["fill"]
    zero_fill = (fill == 0) and not (isinstance(fill, float) and math.copysign(1, fill) < 0)
    n = rng.randint(1, maxlen)
    state = ("coo", None)
    hops = []
    subsets = all_axes_subsets(nd)
    for _ in range(n):
        kinds = ["coo", "gcxs", "gcxs_axes", "gcxs_axes", "dok", "dense"]
        if nd == 2:
            kinds += ["csr", "csc", "scipy", "scipy"]
        else:
            kinds += rng.choice([[], [], [], ["csr"], ["csc"], ["scipy"]])
        if rng.random() < 0.04:
            kinds = ["gcxs_bad"]
        k = rng.choice(kinds)
        via = rng.randint(0, 3)
        h = None
        if k in ("coo", "dok", "dense", "csr", "csc"):
            h = {"fmt": k, "via": via}
        elif k == "gcxs":
            h = {"fmt": "gcxs", "axes": None, "via": via}
        elif k == "gcxs_axes":
            if subsets:
                ax = list(rng.choice(subsets))
                if rng.random() < 0.15:
                    ax = [a - nd if rng.random() < 0.5 else a for a in ax]
                    ax = sorted(ax, key=lambda a: a % nd)
                h = {"fmt": "gcxs", "axes": ax, "via": via}
            else:
                h = {"fmt": "gcxs", "axes": None, "via": via} if rng.random() < 0.8 else {"fmt": "gcxs", "axes": [0], "via": 0}
        elif k == "gcxs_bad":
            bad = rng.choice([[nd], list(range(nd)), [1, 0], [0, 0], [-nd - 1], []])
            h = {"fmt": "gcxs", "axes": bad, "via": 0}
        elif k == "scipy":
            if state[0] not in ("coo", "gcxs"):
                h = {"fmt": "coo", "via": via}
            else:
                target = rng.choice(["coo", "gcxs", "csr", "csc", "dok"])
                skind = rng.choice([None, None, "csr", "csc", "coo"])
                h = {"fmt": target, "via": rng.randint(0, 2), "scipy": True, "skind": skind}
                if target == "gcxs":
                    # GCXS.from_scipy_sparse: csc -> (1,), everything else through csr -> (0,)
                    if skind is not None:
                        mk = skind
                    elif state[0] == "coo":
                        mk = "coo"
                    else:
                        mk = "csr" if (state[1] is not None and 0 in state[1]) else "csc"
                    h["axes"] = [1] if mk == "csc" else [0]
        hops.append(h)
        # symbolic state after the hop (None when the hop must be rejected)
        if h.get("scipy") and (nd != 2 or not zero_fill):
            break
        f = h["fmt"]
        if f in ("csr", "csc"):
            if nd != 2:
                break
            state = ("gcxs", [0] if f == "csr" else [1])
        elif f == "gcxs":
            ax = h.get("axes")
            if ax is None:
                state = state if state[0] == "gcxs" else ("gcxs", default_axes(sh))
            else:
                norm = [a + nd if a < 0 else a for a in ax]
                ok = (nd >= 2 and len(norm) > 0 and len(norm) < nd and all(-nd <= a < nd for a in ax)
                      and all(norm[i] < norm[i + 1] for i in range(len(norm) - 1)))
                if not ok:
                    break
                state = ("gcxs", norm)
        else:
            state = (f, None)
    return hops


def gen_chain_cases(rng, tier, n_cases):
    cases = []
    maxlen = 6 if tier == "quick" else 12
    # boundary-directed: every compressed-axes subset of every ndim, each followed by every kind of hop
    for nd in range(0, 6):
        subs = all_axes_subsets(nd)
        for ax in (subs if subs else [None]):
            for nxt in ["coo", "dok", "dense", "gcxs", "gcxs_axes"]:
                spec = gen_spec(rng, tier, nd=nd)
                h1 = {"fmt": "gcxs", "axes": ax, "via": rng.randint(0, 3)}
                if nxt == "gcxs_axes":
                    if not subs:
                        continue
                    h2 = {"fmt": "gcxs", "axes": list(rng.choice(subs)), "via": rng.randint(0, 3)}
                elif nxt == "gcxs":
                    h2 = {"fmt": "gcxs", "axes": None, "via": 0}
                else:
                    h2 = {"fmt": nxt, "via": rng.randint(0, 3)}
                cases.append({"spec": spec, "hops": [h1, h2, {"fmt": "coo", "via": 0}]})
    # re-compression between EVERY ordered pair of compressed-axes choices of 3-d and 4-d arrays whose extents are
    # all > 1 and whose pattern is dense enough that any permutation of positions shows (non-contiguous choices such
    # as (0, 2), (0, 3), (0, 1, 3) included), through each API path of the second hop, then on to COO / DOK / dense
    for sh in ([2, 3, 2], [3, 2, 4], [2, 2, 3, 2]):
        subs = all_axes_subsets(len(sh))
        for ax1 in subs:
            for ax2 in subs:
                if ax1 == ax2:
                    continue
                if tier == "quick" and len(sh) == 4 and rng.random() < 0.5:
                    continue
                dtype = rng.choice(["int64", "float64"])
                spec = vlib.gen_array_spec(rng, shape=sh, fills=DTYPES[dtype]["fills"][:2], values=DTYPES[dtype]["values"],
                                           density=rng.choice([0.6, 0.85, 1.0]))
                spec["dtype"] = dtype
                cases.append({"spec": spec, "hops": [{"fmt": "gcxs", "axes": ax1, "via": rng.randint(0, 3)},
                                                     {"fmt": "gcxs", "axes": ax2, "via": rng.randint(0, 3)},
                                                     {"fmt": rng.choice(["coo", "dok", "dense"]), "via": 0}]})
    # 0-d with and without a stored element, through every format
    for dtype in ("int64", "float64"):
        for dens in (0.0, 1.0):
            for mid in ["gcxs", "dok", "dense"]:
                for last in ["coo", "gcxs", "dok", "dense"]:
                    spec = vlib.gen_array_spec(rng, shape=[], fills=DTYPES[dtype]["fills"], values=DTYPES[dtype]["values"], density=dens)
                    spec["dtype"] = dtype
                    cases.append({"spec": spec, "hops": [{"fmt": mid, "via": 0} if mid != "gcxs" else {"fmt": "gcxs", "axes": None, "via": 0},
                                                         {"fmt": last, "via": 0} if last != "gcxs" else {"fmt": "gcxs", "axes": None, "via": 0}]})
    while len(cases) < n_cases:
        spec = gen_spec(rng, tier)
        cases.append({"spec": spec, "hops": gen_hops(rng, spec, maxlen)})
    return cases


NARROW = {
    # coordinate dtype -> shapes whose compressed extents (products of axes) straddle the dtype's maximum
    # while every single extent and nnz fit
    "int8": [[4, 12, 11], [3, 8, 16], [2, 9, 14], [4, 20, 20], [12, 11, 3], [2, 3, 5, 9], [3, 2, 127], [2, 127], [127, 2]],
    "uint8": [[4, 20, 20], [2, 16, 16], [2, 15, 17], [3, 2, 127], [16, 16, 2], [2, 4, 8, 9], [3, 255], [2, 2, 2, 8, 8]],
    "int16": [[2, 181, 182], [2, 181, 181], [3, 200, 200], [2, 2, 128, 128]],
    "uint16": [[2, 256, 256], [2, 255, 257], [2, 300, 300], [2, 2, 2, 130, 130]],
}
NARROW_MAX = {"int8": 127, "uint8": 255, "int16": 32767, "uint16": 65535}


def gen_narrow_cases(rng, tier):
    """chains starting from a COO whose coordinates are held in a narrow integer dtype: the converters must
    widen the index dtype whenever a compressed extent or nnz no longer fits (raw arrays against the model,
    dense meaning against NumPy)"""
    cases = []
    reps = 3 if tier == "quick" else 12
    for idt, shapes in NARROW.items():
        for sh in shapes:
            nd = len(sh)
            subs = [ax for ax in all_axes_subsets(nd) if math.prod(sh[a] for a in ax) <= 1500]
            size = math.prod(sh)
            for _ in range(reps):
                dtype = rng.choice(["int64", "float64"])
                nnz = rng.randint(1, min(40, NARROW_MAX[idt] - 1, size))
                pos = set(rng.sample(range(size), nnz - 1)) | {size - 1}      # the last element: largest linear index
                if rng.random() < 0.5:
                    pos |= set(range(max(0, size - 4), size))
                coords = []
                for q in sorted(pos):
                    ix = []
                    for d in reversed(sh):
                        ix.append(q % d)
                        q //= d
                    coords.append(ix[::-1])
                vals = DTYPES[dtype]["values"]
                spec = {"shape": sh, "coords": coords, "data": [rng.choice(vals) for _ in coords],
                        "fill": rng.choice([0, 0, 3]) if dtype == "int64" else rng.choice([0.0, 2.0]),
                        "format": "coo", "caxes": None, "dtype": dtype}
                hops = []
                n_h = rng.randint(1, 4)
                for j in range(n_h):
                    kinds = ["gcxs", "gcxs_axes", "gcxs_axes"] if j == 0 else ["coo", "dok", "gcxs", "gcxs_axes", "gcxs_axes"]
                    if nd == 2:
                        kinds += ["csr", "csc"]
                    if size <= 2000 and j > 0:
                        kinds.append("dense")
                    k = rng.choice(kinds)
                    via = rng.randint(0, 3)
                    if k == "gcxs_axes" and subs:
                        hops.append({"fmt": "gcxs", "axes": list(rng.choice(subs)), "via": via})
                    elif k in ("gcxs", "gcxs_axes"):
                        # default axes (argmin of the shape) only when its row count is small enough to print
                        if sh[default_axes(sh)[0]] <= 1500:
                            hops.append({"fmt": "gcxs", "axes": None, "via": via})
                        else:
                            hops.append({"fmt": "coo", "via": via})
                    else:
                        hops.append({"fmt": k, "via": via})
                cases.append({"spec": spec, "hops": hops, "idx_dtype": idt, "raw": True})
    return cases


def gen_make_cases(rng, tier, n):
    cases = []
    # directed: 1-d arrays whose coordinates are held in an UNSIGNED dtype and given out of order with repeats
    # (the constructor must still sort by a signed linear location and sum)
    for idt in ("uint8", "uint16", "uint32", "uint64"):
        for _ in range(3):
            d = rng.choice([3, 5, 9])
            k = rng.randint(3, 8)
            coords = [[rng.randrange(d)] for _ in range(k)]
            if all(coords[j][0] <= coords[j + 1][0] for j in range(k - 1)):
                coords[0], coords[-1] = [d - 1], [0]
            cases.append({"k": "coords", "dtype": "int64", "shape": [d], "coords": coords, "data": [rng.choice([1, 2, 3, -2]) for _ in range(k)],
                          "fill": rng.choice([0, 3]), "sorted": False, "hasdup": True, "prune": rng.random() < 0.5, "idx_dtype": idt})
    # directed: the direct DOK constructors on a 0-d input and on a stored -0.0 (repaired in e32b8cc / 29860dd), every API path
    for via in (0, 1, 2):
        cases.append({"k": "dense", "dtype": "float64", "shape": [3], "flat": [0.0, -0.0, 2.0], "fill": 0.0,
                      "fmt": {"fmt": "dok", "via": via, "direct": True}})
        cases.append({"k": "dense", "dtype": "int64", "shape": [], "flat": [5], "fill": 0,
                      "fmt": {"fmt": "dok", "via": via, "direct": True}})
    for i in range(n):
        dtype = rng.choice(["int64", "float64"])
        info = DTYPES[dtype]
        nd = rng.choice([0, 1, 2, 2, 3, 3, 4])
        sh = gen_shape(rng, nd, (0, 1, 2, 3, 4), 40)
        allidx = list(itertools.product(*[range(d) for d in sh]))
        fill = rng.choice(info["fills"])
        mode = i % 4
        if mode in (0, 1):
            # unsorted, duplicated coordinates; values may equal the fill and may cancel
            k = rng.choice([0, 1, 2, 3, 5, 8, 12]) if allidx else 0
            pool = rng.sample(allidx, min(len(allidx), rng.randint(1, 5))) if allidx else []
            coords = [list(rng.choice(pool)) for _ in range(k)]
            vals = list(info["values"]) + [0, 0]
            data = [rng.choice(vals) for _ in range(k)]
            if dtype == "float64" and isinstance(fill, float) and (fill != fill or fill in (float("inf"),)):
                data = [rng.choice(info["values"]) for _ in range(k)]
            lin = [sum(c * math.prod(sh[j + 1:]) for j, c in enumerate(co)) for co in coords]
            is_sorted = all(lin[j] <= lin[j + 1] for j in range(len(lin) - 1))
            no_dup = len(set(lin)) == len(lin)
            srt = is_sorted and rng.random() < 0.5
            hd = (not no_dup) or rng.random() < 0.6
            if rng.random() < 0.3 and coords:
                order = sorted(range(k), key=lambda j: lin[j])
                coords = [coords[j] for j in order]
                data = [data[j] for j in order]
                srt = rng.random() < 0.7
            c = {"k": "coords", "dtype": dtype, "shape": sh, "coords": coords, "data": data, "fill": fill,
                 "sorted": srt, "hasdup": hd, "prune": rng.random() < 0.4}
            if rng.random() < 0.3:
                c["idx_dtype"] = rng.choice(["int8", "uint8", "int16", "uint16"])   # narrow coordinate dtype
            if mode == 1 and rng.random() < 0.25 and nd >= 1:
                # malformed stream: out-of-range / negative coordinate, or a length mismatch
                if rng.random() < 0.6:
                    bad = [rng.randrange(max(1, d)) for d in sh]
                    a = rng.randrange(nd)
                    bad[a] = rng.choice([sh[a], sh[a] + 2, -1, -sh[a] - 1])
                    c["coords"] = c["coords"] + [bad]
                    c["data"] = c["data"] + [1]
                    c["sorted"], c["hasdup"] = False, True
                else:
                    c["data"] = c["data"] + [1]
            cases.append(c)
        elif mode == 2:
            k = rng.choice([0, 1, 2, 2, 3, 5]) if allidx else 0
            form = rng.choice(["dict", "list", "iterator", "data_coords"])
            if form == "dict":
                keys = rng.sample(allidx, min(k, len(allidx)))
            else:
                keys = [rng.choice(allidx) for _ in range(k)]
            if form == "data_coords" and (not keys or nd == 0):
                form = "list"
            items = [[list(c), rng.choice(info["values"])] for c in keys]
            f = {"fmt": "coo"}
            if rng.random() < 0.3:
                subs = all_axes_subsets(nd)
                f = {"fmt": "gcxs", "axes": list(rng.choice(subs)) if subs and rng.random() < 0.7 else None}
            cases.append({"k": "iter", "dtype": dtype, "shape": sh, "items": items, "fill": fill, "form": form, "fmt": f,
                          "via": rng.randint(0, 1)})
        else:
            # dense input, every target format; stored values include fill-equal ones, and -0.0 for floats
            vals = list(info["values"]) + [fill, fill]
            if dtype == "float64":
                vals += [-0.0, 0.0, float("nan")]
            else:
                vals += [0]
            flat = [rng.choice(vals) if rng.random() < 0.6 else fill for _ in allidx]
            subs = all_axes_subsets(nd)
            t = rng.choice(["coo", "gcxs", "gcxs_axes", "dok", "csr", "csc"] if nd == 2 else ["coo", "gcxs", "gcxs_axes", "dok"])
            f = {"fmt": t, "via": rng.randint(0, 2)}
            if t == "gcxs":
                f["axes"] = None
            if t == "gcxs_axes":
                f = {"fmt": "gcxs", "axes": list(rng.choice(subs)) if subs else None, "via": rng.randint(0, 2)}
            zf = fill == 0 and not (isinstance(fill, float) and math.copysign(1, fill) < 0)
            if t == "dok" and zf and rng.random() < 0.7:
                f["direct"] = True       # DOK.from_numpy / asarray(format="dok") / DOK(ndarray)
            cases.append({"k": "dense", "dtype": dtype, "shape": sh, "flat": flat, "fill": fill, "fmt": f})
    # scipy.sparse input
    for i in range(n // 2):
        r, c = rng.choice([0, 1, 2, 3, 4]), rng.choice([0, 1, 2, 3, 4])
        dtype = rng.choice(["int64", "float64"])
        vals = DTYPES[dtype]["values"]
        allidx = [(a, b) for a in range(r) for b in range(c)]
        k = rng.choice([0, 1, 2, 3, 5, 8]) if allidx else 0
        t = rng.choice(["coo", "gcxs", "csr", "csc", "dok"])
        if i % 2 == 0:
            pts = [rng.choice(allidx) for _ in range(k)]
            cases.append({"k": "scipy_coo", "dtype": dtype, "shape": [r, c], "row": [p[0] for p in pts], "col": [p[1] for p in pts],
                          "data": [rng.choice(vals) for _ in range(k)], "fmt": {"fmt": t}, "via": rng.randint(0, 2)})
        else:
            axis = rng.randint(0, 1)
            canonical = rng.random() < 0.4
            sorted_dups = rng.random() < 0.5
            nrows, ncols = (r, c) if axis == 0 else (c, r)
            indptr, indices = [0], []
            for _row in range(nrows):
                cnt = rng.choice([0, 0, 1, 2, 3]) if ncols else 0
                if canonical:
                    cols = sorted(rng.sample(range(ncols), min(cnt, ncols)))
                else:
                    cols = [rng.randrange(ncols) for _ in range(cnt)]
                    if sorted_dups:
                        # scipy's has_sorted_indices (non-decreasing) holds, has_canonical_format does not
                        cols = sorted(cols + cols[:1])
                indices += cols
                indptr.append(len(indices))
            cases.append({"k": "scipy_cs", "dtype": dtype, "axis": axis, "canonical": canonical, "shape": [r, c], "indices": indices, "indptr": indptr,
                          "data": [rng.choice(vals) for _ in indices], "fmt": {"fmt": t}, "via": rng.randint(0, 2)})
    return cases


def gen_kernel_cases(rng, tier):
    cases = []
    shapes = [[1], [4], [2, 3], [3, 1], [1, 1], [2, 3, 2], [1, 4, 2], [3, 2, 1, 2], [2, 1, 3, 2], [2, 2, 2, 2, 2]]
    if tier != "quick":
        shapes += [[5, 4], [3, 3, 3], [4, 1, 1, 3], [2, 3, 1, 2, 2]]
    for sh in shapes:
        size = math.prod(sh)
        for n in range(size):
            cases.append({"k": "unravel", "n": n, "shape": sh})
            cases.append({"k": "strided", "n": n, "shape": sh})
        for ix in itertools.product(*[range(d) for d in sh]):
            cases.append({"k": "ravel", "arr": list(ix), "shape": sh})
        nd = len(sh)
        if nd >= 2:
            for ca in all_axes_subsets(nd):
                for new_ca in all_axes_subsets(nd):
                    if ca == new_ca and rng.random() < 0.7:
                        continue
                    ordr = ca + [a for a in range(nd) if a not in ca]
                    nord = new_ca + [a for a in range(nd) if a not in new_ca]
                    rsh = [sh[a] for a in ordr]
                    nrsh = [sh[a] for a in nord]
                    sao = [ordr.index(a) for a in range(nd)]
                    ncsh = [math.prod(nrsh[:len(new_ca)]), math.prod(nrsh[len(new_ca):])]
                    for n in rng.sample(range(size), min(size, 2 if tier == "quick" else 4)):
                        cases.append({"k": "convert", "n": n, "old_shape": sh, "rsh": rsh, "sao": sao, "shape": sh,
                                      "new_ord": nord, "new_rsh": nrsh, "new_cshape": ncsh})
            cases.append({"k": "argmin", "l": sh})
    for _ in range(60 if tier == "quick" else 300):
        m = rng.randint(0, 6)
        counts = [rng.choice([0, 0, 1, 2, 3]) for _ in range(m)]
        indptr = [0]
        for cnt in counts:
            indptr.append(indptr[-1] + cnt)
        cases.append({"k": "uncompress", "indptr": indptr})
        rows = [rng.randrange(m) for _ in range(rng.randint(0, 8))] if m else []
        cases.append({"k": "bincount", "rows": rows, "m": m})
        keys = [rng.randint(0, 5) for _ in range(rng.randint(0, 9))]
        cases.append({"k": "argsort", "keys": keys})
        p = list(range(rng.randint(1, 5)))
        rng.shuffle(p)
        cases.append({"k": "invperm", "ord": p})
        cases.append({"k": "argmin", "l": [rng.randint(0, 4) for _ in range(rng.randint(1, 5))]})
        nd = rng.randint(1, 4)
        sh = gen_shape(rng, nd, (1, 2, 3, 4), 40)
        co = [[rng.randrange(d) for d in sh] for _ in range(rng.randint(0, 6))]
        if co:
            cases.append({"k": "linear_loc", "shape": sh, "coords": co})
    for _ in range(150 if tier == "quick" else 800):
        nd = rng.randint(2, 5)
        sh = gen_shape(rng, nd, (0, 1, 2, 3) if nd >= 4 else (0, 1, 2, 3, 4), 60)
        spec = vlib.gen_array_spec(rng, shape=sh)
        subs = all_axes_subsets(nd)
        ca = list(rng.choice(subs))
        cases.append({"k": "from_coo", "spec": spec, "ca": ca})
        cases.append({"k": "transpose", "spec": spec, "ca": ca, "new_ca": list(rng.choice(subs))})
    return cases


def gen_indep_cases(rng, tier, n):
    cases = []
    # directed: a reduction / transpose of a dense-ish 3-d and 4-d array held under EVERY compressed-axes choice
    # (GCXS reductions re-compress internally)
    for sh in ([2, 3, 2], [2, 2, 3, 2]):
        for axis in range(len(sh)):
            spec = vlib.gen_array_spec(rng, shape=sh, fills=(0,), values=DTYPES["int64"]["values"], density=0.85)
            spec["dtype"] = "int64"
            cases.append({"spec": spec, "op": {"k": "sum", "axis": axis},
                          "reps": ["coo", "gcxs"] + [list(a) for a in all_axes_subsets(len(sh))]})
    for _ in range(n):
        dtype = rng.choice(["int64", "float64"])
        nd = rng.choice([1, 2, 2, 3, 3, 4])
        sh = gen_shape(rng, nd, (1, 2, 3, 4), 48)
        fills = (0, 0, 3) if dtype == "int64" else (0.0, 0.0, 2.0)
        spec = vlib.gen_array_spec(rng, shape=sh, fills=fills, values=DTYPES[dtype]["values"])
        spec["dtype"] = dtype
        kind = rng.choice(["sum", "add", "getitem", "transpose"])
        reps = ["coo", "gcxs"] + [list(a) for a in all_axes_subsets(nd)]
        if kind == "sum":
            op = {"k": "sum", "axis": rng.randrange(nd)}
        elif kind == "add":
            other = vlib.gen_array_spec(rng, shape=sh, fills=(spec["fill"],), values=DTYPES[dtype]["values"])
            other["dtype"] = dtype
            op = {"k": "add", "other": other}
            reps.append("dok")
        elif kind == "getitem":
            ix = []
            for d in sh[:rng.randint(1, nd)]:
                if rng.random() < 0.5:
                    ix.append(rng.randrange(d))
                else:
                    a = rng.randint(0, d)
                    ix.append([a, rng.randint(a, d), rng.choice([1, 1, 2])])
            op = {"k": "getitem", "index": ix}
            reps.append("dok")
        else:
            p = list(range(nd))
            rng.shuffle(p)
            op = {"k": "transpose", "axes": p}
        cases.append({"spec": spec, "op": op, "reps": reps})
    return cases


# ------------------------------------------------------------------ campaign
IMPORTS = "From Verif Require Import Py Shape COO GCXS SArr Convert C05Judge."


def spec_flat_tokens(spec):
    import numpy as np
    d = np.full(tuple(spec["shape"]), spec["fill"], dtype=np.dtype(spec["dtype"]))
    for c, v in zip(spec["coords"], spec["data"], strict=True):
        d[tuple(c)] = v
    return [tok(v) for v in d.reshape(-1)]


def campaign(build, tier, seed, report, budget=1):
    import numpy as np
    rng = random.Random(seed)
    viol = []
    tags = {}
    W = 6

    def tag(t):
        tags[t] = tags.get(t, 0) + 1
    phases = {}
    t_phase = time.time()

    def phase(name):
        nonlocal t_phase
        phases[name] = round(time.time() - t_phase, 1)
        t_phase = time.time()

    # ---- 1. kernels
    kc = gen_kernel_cases(rng, tier)
    n_make = (500 if tier == "quick" else 4000) * budget
    mc = gen_make_cases(rng, tier, n_make)
    n_chain = (1000 if tier == "quick" else 9000) * budget
    cc = gen_chain_cases(rng, tier, n_chain)
    cc += gen_narrow_cases(rng, tier)
    # a 0-d array holding its element through DOK and back (rejected before fix e0a1c30; Props.C05.conversion_chain_0d)
    cc.insert(0, {"spec": {"shape": [], "coords": [[]], "data": [5], "fill": 0, "format": "coo", "caxes": None, "dtype": "int64"},
                  "hops": [{"fmt": "dok", "via": 0}, {"fmt": "coo", "via": 0}]})
    n_ind = (180 if tier == "quick" else 1800) * budget
    ic = gen_indep_cases(rng, tier, n_ind)
    # one pool for all four phases (the JIT warm-up of the numba kernels is paid once per worker, whenever
    # it first meets a kernel: hence the generous per-case limit; nothing here is expected to hang)
    allc = ([("impl_kernel", c) for c in kc] + [("impl_make", c) for c in mc] + [("impl_chain", c) for c in cc]
            + [("impl_indep", c) for c in ic])
    allr = vlib.run_impl("props.c05", "impl_any", allc, workers=W, per_case_timeout=90.0)
    kres = allr[:len(kc)]
    mres = allr[len(kc):len(kc) + len(mc)]
    cres = allr[len(kc) + len(mc):len(kc) + len(mc) + len(cc)]
    ires = allr[len(kc) + len(mc) + len(cc):]
    phase("implementation")
    klits, kidx = [], []
    for i, (c, r) in enumerate(zip(kc, kres, strict=True)):
        k = c["k"]
        tag("kernel/" + k)
        if isinstance(r, dict) and ("exc" in r or "hang" in r or "crash" in r):
            viol.append(dict(property="C05", op="kernel:" + k, kind="representation", clause=None, case=c, impl=r,
                             replay_py=replay_line("impl_kernel", c)))
            continue
        if k == "unravel":
            lit = f"KUnravel {vZ(c['n'])} {vlist(c['shape'])} {vlist(r)}"
        elif k == "strided":
            lit = f"KStrided {vZ(c['n'])} {vlist(c['shape'])} {vlist(r)}"
        elif k == "ravel":
            lit = f"KRavel {vlist(c['arr'])} {vlist(c['shape'])} {vZ(r)}"
        elif k == "uncompress":
            lit = f"KUncompress {vlist(c['indptr'])} {vlist(r)}"
        elif k == "convert":
            lit = ("KConvert %s %s %s %s %s %s %s %s %s %s" % (
                vZ(c["n"]), vlist(c["old_shape"]), vlist(c["rsh"]), vlist(c["sao"]), vlist(c["shape"]), vlist(c["new_ord"]),
                vlist(c["new_rsh"]), vlist(c["new_cshape"]), vZ(r["linear"]), vlist(r["coords"])))
        elif k == "argsort":
            lit = f"KArgsortStable {vlist(c['keys'])} {vlist(r)}"
        elif k == "bincount":
            lit = f"KBincountCumsum {vlist(c['rows'])} {vZ(c['m'])} {vlist(r)}"
        elif k == "argmin":
            lit = f"KArgmin {vlist(c['l'])} {vZ(r)}"
        elif k == "invperm":
            lit = f"KInvPerm {vlist(c['ord'])} {vlist(r)}"
        elif k == "from_coo":
            lit = f"KFromCoo {vlib.spec_coo_lit(c['spec'])} {vlist(c['ca'])} {vlist(r['data'])} {vlist(r['indices'])} {vlist(r['indptr'])}"
        elif k == "transpose":
            g = r["g"]
            glit = "(mkGCXS %s %s %s %s %s %s)" % (vlist(g["shape"]), vlist(g["caxes"]), vlist(g["data"]), vlist(g["indices"]),
                                                   vlist(g["indptr"]), vZ(g["fill"]))
            lit = f"KTranspose {glit} {vlist(c['new_ca'])} {vlist(r['data'])} {vlist(r['indices'])} {vlist(r['indptr'])}"
        elif k == "linear_loc":
            lit = f"KLinearLoc {vlist(c['shape'])} {vlist(c['coords'], vlist)} {vlist(r)}"
        else:
            raise AssertionError(k)
        klits.append("(" + lit + ")")
        kidx.append(i)
    for j, code in build.judge("c05_kernel", IMPORTS, "k_case", "judge_kernel", klits):
        i = kidx[j]
        viol.append(dict(property="C05", op="kernel:" + kc[i]["k"], kind="representation" if code == 1 else "value", clause=None,
                         case=kc[i], impl=kres[i], code=code, replay_py=replay_line("impl_kernel", kc[i])))

    phase("kernels")
    # ---- 2. construction
    mlits = []
    for c, r in zip(mc, mres, strict=True):
        out = vlib.sarr_lit(r)
        k = c["k"]
        if k == "coords":
            tag("make/coords/" + ("sorted" if c["sorted"] else "unsorted") + ("/dups" if c["hasdup"] else "/nodups") + ("/prune" if c["prune"] else ""))
            lit = "MkCoords %s %s %s %s %s %s %s %s" % (vbool(c["sorted"]), vbool(c["hasdup"]), vbool(c["prune"]), vlist(c["shape"]),
                                                      vlist(c["coords"], vlist), vlist([tok(v) for v in c["data"]]), vZ(tok(c["fill"])), out)
        elif k == "iter":
            tag("make/iter/" + c["form"] + "/" + c["fmt"]["fmt"])
            lit = "MkIter %s %s %s %s %s" % (vlist(c["shape"]), lit_items(c["items"]), vZ(tok(c["fill"])), lit_fmt(c["fmt"]), out)
        elif k == "dense":
            tag("make/dense/" + c["fmt"]["fmt"])
            lit = "MkDense (mkDense %s %s) %s %s %s" % (vlist(c["shape"]), vlist([tok(np.dtype(c["dtype"]).type(v)) for v in c["flat"]]),
                                                      vZ(tok(c["fill"])), lit_fmt(c["fmt"]), out)
        elif k == "scipy_coo":
            tag("make/scipy_coo/" + c["fmt"]["fmt"])
            lit = "MkScipyCoo %s %s %s %s %s" % (vlist(c["shape"]), vlist([[a, b] for a, b in zip(c["row"], c["col"], strict=True)], vlist),
                                                vlist([tok(v) for v in c["data"]]), lit_fmt(scipy_equiv(c["fmt"], 0)), out)
        else:
            tag("make/scipy_cs/" + c["fmt"]["fmt"] + ("" if c.get("canonical") else "/noncanonical"))
            lit = "MkScipyCs %s %s %s %s %s %s %s" % (vZ(c["axis"]), vlist(c["shape"]), vlist([tok(v) for v in c["data"]]), vlist(c["indices"]),
                                                       vlist(c["indptr"]), lit_fmt(scipy_equiv(c["fmt"], c["axis"])), out)
        mlits.append("(" + lit + ")")
    MK = {1: ("representation", None), 2: ("value", None), 3: ("value", None), 4: ("value", None),
          5: ("value", None), 6: ("value", None)}
    for i, code in build.judge("c05_make", IMPORTS, "mk_case", "judge_make", mlits, chunk=250):
        c, r = mc[i], mres[i]
        kind, clause = MK.get(code, ("value", None))
        what = {1: "representation differs from the model", 2: "an element, the shape or the fill differs from the Spec",
                3: "result is not in canonical form", 4: "exception on a valid input", 5: "exception on a valid input (the model raises too)",
                6: "malformed input accepted"}.get(code)
        viol.append(dict(property="C05", op="construct:" + c["k"], kind=kind, clause=clause, code=code, what=what, case=c, impl=r,
                         replay_py=replay_line("impl_make", c)))

    # the scipy operand of a conversion is never modified (snapshot of its arrays before / after)
    for c, r in zip(mc, mres, strict=True):
        if c["k"] in ("scipy_cs", "scipy_coo") and r.get("operand_modified"):
            viol.append(dict(property="C05", op="construct:" + c["k"] + ":operand", kind="value", clause=None, code=10,
                             what="the scipy matrix given to the conversion was modified in place: " + "; ".join(r["operand_modified"])[:300],
                             case=c, impl=r, replay_py=replay_line("impl_make", c)))
    # element-wise read-back x[i, j] of everything built from a csr/csc matrix, against scipy's own meaning
    for c, r in zip(mc, mres, strict=True):
        if c["k"] == "scipy_cs" and r.get("getitem_mismatch"):
            viol.append(dict(property="C05", op="construct:scipy_cs", kind="value", clause=None, code=9,
                             what="x[i, j] differs from the scipy matrix at " + str(r["getitem_mismatch"]), case=c, impl=r,
                             replay_py=replay_line("impl_make", c)))
    phase("construction")
    # ---- 3. conversion chains
    clits, cidx = [], []
    distinct = set()
    for i, (c, r) in enumerate(zip(cc, cres, strict=True)):
        spec = c["spec"]
        if "outs" not in r:
            viol.append(dict(property="C05", op="chain", kind="value", clause=None, case=c, impl=r, what="harness/worker failure",
                             replay_py=replay_line("impl_chain", c)))
            continue
        outs = r["outs"]
        hops = c["hops"][:len(outs)]
        for h in hops:
            tag("hop/" + h["fmt"] + ("/axes" if h.get("axes") is not None else "") + ("/scipy" if h.get("scipy") else ""))
        tag("chain/ndim%d" % len(spec["shape"]))
        tag("chain/len%d" % len(hops))
        if any(d == 0 for d in spec["shape"]):
            tag("chain/empty-axis")
        distinct.add((tuple(spec["shape"]), tuple(map(tuple, spec["coords"])), jcase(hops)))
        # dtype preserved after every hop (differential; not modelled)
        for hno, o in enumerate(outs):
            if o.get("k") in ("coo", "gcxs", "dok", "dense") and o.get("dtype") != r["dtype"]:
                viol.append(dict(property="C05", op="chain:dtype", kind="value", clause=None, case=c, impl=o, hop=hno + 1,
                                 what=f"dtype {r['dtype']} became {o.get('dtype')}", replay_py=replay_line("impl_chain", c)))
                break
        if c.get("idx_dtype"):
            tag("chain/coords-" + c["idx_dtype"])
        if r.get("dense_bad"):
            b = r["dense_bad"][0]
            viol.append(dict(property="C05", op="chain", kind="value", clause=None, code=2, hop=b["hop"], case=c, impl=r,
                             what=f"{b['differing_elements']} elements differ from the original after hop {b['hop']} "
                                  f"(coordinates held as {r.get('coords_dtype')}; NumPy comparison of todense())",
                             replay_py=replay_line("impl_chain", c)))
        lit = "(%s, %s, %s, %s)" % (
            lit_coo(spec["shape"], spec["coords"], [np.dtype(spec["dtype"]).type(v) for v in spec["data"]], np.dtype(spec["dtype"]).type(spec["fill"])),
            vlist(hops, lambda h: vpair(lit_fmt(h), vbool(bool(h.get("scipy"))))),
            vlist(outs, vlib.sarr_lit), "None" if c.get("raw") else "(Some %s)" % vlist(spec_flat_tokens(spec)))
        clits.append(lit)
        cidx.append(i)
    CK = {1: ("representation", None, "raw representation differs from the model's"),
          2: ("value", None, "shape, fill value or an element changed"),
          3: ("value", None, "result is not in canonical form"),
          4: ("value", None, "exception on a valid conversion"),
          5: ("value", None, "exception on a valid conversion (the model raises too)"),
          6: ("value", None, "invalid conversion accepted"),
          7: ("representation", None, "malformed case (harness)")}
    for j, v in build.judge("c05_chain", IMPORTS, "chain_case", "judge_chain", clits, chunk=150):
        i = cidx[j]
        hop, code = divmod(v, 10)
        kind, clause, what = CK.get(code, ("value", None, "?"))
        if code == 1 and cres[i].get("dense_bad"):
            continue        # already reported above as a value violation (the raw arrays differ because elements moved)
        fl = cc[i]["spec"]["fill"]
        if code == 6 and cc[i]["hops"][hop - 1].get("scipy") and isinstance(fl, float) and fl == 0 and math.copysign(1, fl) < 0:
            clause, what = "to_scipy_negative_zero_fill", "to_scipy_sparse accepts the fill value -0.0; unstored elements come back as +0.0"
        viol.append(dict(property="C05", op="chain", kind=kind, clause=clause, code=code, hop=hop, what=what, case=cc[i], impl=cres[i],
                         replay_py=replay_line("impl_chain", cc[i])))

    phase("chains")
    # ---- 4. representation independence
    ilits, iidx = [], []
    for i, (c, r) in enumerate(zip(ic, ires, strict=True)):
        tag("indep/" + c["op"]["k"])
        if "outs" not in r:
            viol.append(dict(property="C05", op="indep:" + c["op"]["k"], kind="value", clause=None, case=c, impl=r,
                             replay_py=replay_line("impl_indep", c)))
            continue
        ilits.append("((mkDense %s %s), %s)" % (vlist(r["exp_shape"]), vlist(r["exp_flat"]), vlist(r["outs"], vlib.sarr_lit)))
        iidx.append(i)
    for j, pos in build.judge("c05_indep", IMPORTS, "indep_case", "judge_indep", ilits, chunk=150):
        i = iidx[j]
        viol.append(dict(property="C05", op="indep:" + ic[i]["op"]["k"], kind="value", clause=None, representation=ic[i]["reps"][pos - 1],
                         what="result depends on the representation the operand is held in (differs from NumPy on the dense operand)",
                         case=ic[i], impl=ires[i]["outs"][pos - 1], replay_py=replay_line("impl_indep", ic[i])))

    phase("independence")
    cov = report["coverage"]
    cov["phase_seconds"] = phases
    cov["evaluations"] = len(kc) + len(mc) + len(cc) + len(ic)
    cov["distinct_nontrivial"] = len(distinct) + len({jcase(c) for c in mc}) + len({jcase(c) for c in kc})
    cov["rule"] = ("kernels: exhaustive over small shapes/axes subsets + seeded random; construction: seeded structured inputs "
                   "(unsorted/duplicated/pruned coords, dict/iterables, dense, scipy coo/csr/csc canonical and not) incl. a malformed "
                   "stream; chains: every compressed-axes subset of 0..5-d shapes followed by every kind of hop, 0-d through every format, "
                   "then seeded random histories (length <= %d); independence: sum/add/getitem/transpose under every representation. "
                   "distinct = distinct (shape, pattern, history) chains + distinct construction and kernel cases" % (6 if tier == "quick" else 12))
    cov["kernel_cases"] = len(kc)
    cov["construction_cases"] = len(mc)
    cov["chain_cases"] = len(cc)
    cov["chain_hops"] = sum(len(r.get("outs", [])) for r in cres)
    cov["independence_cases"] = len(ic)
    cov["differential_only"] = ["dtype preservation after every hop", "representation independence of sum/add/getitem/transpose"]
    cov["samples"] = [dict(case=cc[i], impl=cres[i]) for i in (0, len(cc) // 2, len(cc) - 1)] + [dict(case=mc[0], impl=mres[0])]
    cov["branch_tags"] = dict(sorted(tags.items()))
    cov["unproved_statements"] = UNPROVED
    return viol


UNPROVED = [
    "format changes INSIDE scipy (csr <-> csc <-> coo by scipy's asformat, e.g. CSC.from_scipy_sparse(csr matrix), "
    "sparse.asarray(coo_matrix, format='gcxs')) and scipy's sum_duplicates algorithm itself are not modelled: sum_duplicates is "
    "modelled by its result and compared with real scipy by correspondence; cross-orientation construction is correspondence only",
    "the chain type `fmt` has no scipy constructor: inside chains a scipy hop is compared with the equivalent model hop "
    "(the round-trip theorems gcxs_scipy_roundtrip / coo_scipy_roundtrip justify the identification for same-orientation hops)",
    "gcxs_strictb: for ndim < 2 the surjectivity/uniqueness theorems additionally assume empty compressed_axes and indptr "
    "(gcxs_wfb does not constrain those unused fields)",
]


def replay(path):
    v = json.load(open(path))
    print(json.dumps(v, indent=1)[:3000])
    if "replay_py" in v:
        import subprocess
        p = subprocess.run([vlib.PY, "-c", v["replay_py"]], env=vlib.env_clean(), capture_output=True, text=True)
        print(p.stdout, p.stderr[-500:])
    return 0
