"""C12 — DOK behaves as a mutable NumPy array under any sequence of assignments.

Campaign: (1) exhaustive sweep of single slice assignments (+ the same slice read back) on 1-d DOKs,
(2) seeded random histories of assignments and reads on 1-3-d DOKs.  Every history is run on the
implementation in a worker (recording the dict after every operation) and on a NumPy shadow array;
the comparison runs inside Coq (Corr/C12Judge.v): each step is judged from the implementation's own
previous dict against the model (Model/DOK.v, calling the generated fragments) and against the Spec
(Spec/NpAssign.v), and the Spec itself is cross-checked against what real NumPy did."""
import json
import os
import random
import subprocess
import sys

import vlib
from vlib import vZ, vlist, vopt, vpair

LEVEL = "proof"
TRUSTED_BASE = [
    "Coq 8.16.1 kernel + vm_compute (case evaluation); no native_compute",
    "axioms: none (Print Assumptions: Closed under the global context for every C12 theorem)",
    "tools/py2v.py fragment translator (Python ast -> Gallina over Lib/Py.v): normalize_index pieces "
    "(G_slicing.v) and the two branches of the slice-bounds block of DOK._setitem (G_dok.v); the hand-written "
    "dispatch `step = ind.step if ind.step is not None else 1; if step > 0` in Model/DOK.v dok_bounds",
    "Model/DOK.v as a transcription of _dok.py (__setitem__/_setitem/_fancy_setitem/__getitem__/"
    "_fancy_getitem/todense/asformat), validated by the correspondence on every step of every history",
    "Spec/NpAssign.v + Spec/PySlice.v as a description of NumPy item assignment/reads, cross-checked inside "
    "Coq against a real NumPy shadow array on every step of every history (verdict kind 7)",
    "correspondence harness tools/props/c12.py, Corr/C12Judge.v, tools/vlib.py",
]
ASSUMPTIONS = [
    "element values are opaque tokens with a decidable equality in the core theorems; the cast "
    "np.asarray(value, dtype) is described for int/bool dtypes only (Spec np_cast / Model dok_cast: wrap, truncate, "
    "weak Python ints) and validated by the correspondence, not proved against NumPy; floats whose truncation does "
    "not fit the dtype, NaN and inf are not described",
    "COO.__getitem__ on the key is taken at its meaning (per-axis integer / range of the normalised entry); "
    "its machinery is the subject of C02",
    "keys: tuples of ints, slices, Ellipsis (None for reads only), full-dimension equal-length integer lists, full-shape "
    "boolean masks; an assignment that raises is modelled as leaving the dict unchanged (true for every key and "
    "value NumPy accepts)",
]

EXC = {"ValueError": 1, "IndexError": 2, "TypeError": 3, "NotImplementedError": 4, "ZeroDivisionError": 5,
       "RuntimeError": 6, "OverflowError": 7}
CLAUSES = {0: None, 7: "bool_mask_key", 11: "numpy_int_scalar_out_of_dtype_range",
           12: "newaxis_in_assignment_key", 13: "index_array_in_basic_key",
           14: "fancy_value_ndim_gt_1", 15: "zero_d_view_target_array_value",
           16: "bool_element_from_one_element_array"}
KINDS = {1: "representation", 2: "value", 3: "representation", 4: "value", 5: "value", 6: "representation",
         7: "representation"}
KIND_NOTE = {1: "implementation differs from the model but agrees with the Spec (model no longer faithful)",
             2: "implementation differs from NumPy semantics (Spec)",
             3: "both raise, but another exception class than modelled",
             4: "a read changed the dict",
             5: "implementation differs from the Spec and from the model",
             6: "the dict of a fresh DOK is not empty",
             7: "Spec/NpAssign.v differs from what real NumPy did (Spec or harness wrong; not an implementation failure)"}


# ------------------------------------------------------------------ keys and operations (plain JSON)
def py_key(key, shape):
    import numpy as np
    t = key["t"]
    if t == "index":
        es = []
        for e in key["es"]:
            es.append(e[1] if e[0] == "i" else slice(e[1], e[2], e[3]) if e[0] == "s" else
                      None if e[0] == "n" else Ellipsis)
        if len(es) == 1:
            return es[0]
        return tuple(es)
    if t == "basic":
        es = [e[1] if e[0] == "i" else slice(e[1], e[2], e[3]) for e in key["es"]]
        if len(es) == 1 and key.get("render") != "tuple":
            return es[0]
        return tuple(es)
    if t == "fancy":
        r = key.get("render", "tuple")
        if r == "list":
            return list(key["ls"][0])
        return tuple(list(l) for l in key["ls"])
    if t == "mask":
        if key.get("render") == "list":
            return [bool(b) for b in key["m"]]
        return np.array([bool(b) for b in key["m"]], dtype=bool).reshape(shape)
    raise ValueError(t)


def np_dtype(dt):
    import numpy as np
    return {"int64": np.int64, "int8": np.int8, "uint8": np.uint8, "bool": np.bool_}[dt]


def py_value(op):
    """the RAW value handed to __setitem__: kind pyint (default) / pyfloat / npint for a scalar, int / float
    for an ndarray; floats are given as numerators over 4"""
    import numpy as np
    kind = op.get("vk", "int")
    if not op["vsh"] and kind in ("int", "pyint"):
        return int(op["vflat"][0])
    if kind == "pyfloat":
        return op["vflat"][0] / 4.0
    if kind == "npint":
        return np.int64(op["vflat"][0])
    if kind == "float":
        return (np.array(op["vflat"], dtype=np.float64) / 4.0).reshape(op["vsh"])
    return np.array(op["vflat"], dtype=np.int64).reshape(op["vsh"])


def snapshot(d):
    return sorted(([int(i) for i in k], int(v)) for k, v in d.data.items())


def _read_result(r):
    import numpy as np
    if hasattr(r, "todense"):
        dd = r.todense()
        return {"val": [[int(s) for s in r.shape], [int(x) for x in np.asarray(dd).reshape(-1)]]}
    a = np.asarray(r)
    return {"val": [[int(s) for s in a.shape], [int(x) for x in a.reshape(-1)]]}


def impl_history(case):
    """run one history on a DOK and on a NumPy shadow array"""
    import numpy as np
    import sparse
    shape, fill, ops = tuple(case["shape"]), case["fill"], case["ops"]
    dt = np_dtype(case.get("dtype", "int64"))
    fv = bool(fill) if dt is np.bool_ else fill
    d = sparse.DOK(shape, dtype=dt, fill_value=fv)
    n = np.full(shape, fv, dtype=dt)
    out = {"s0": snapshot(d), "steps": []}
    for op in ops:
        st = {}
        if op["k"] == "round":
            try:
                d = sparse.DOK.from_coo(d.asformat("coo"))
                st["impl"] = {"ok": True}
                if not (d.shape == shape and d.dtype == np.dtype(dt) and int(d.fill_value) == int(fv)):
                    st["impl"] = {"exc": "RoundtripChangedShapeDtypeOrFill"}
            except Exception as ex:  # noqa: BLE001
                st["impl"] = {"exc": type(ex).__name__, "msg": str(ex)[:80]}
            st["np"] = {"ok": True}
            st["after"] = snapshot(d)
            out["steps"].append(st)
            continue
        for which in ("impl", "np"):
            a = d if which == "impl" else n
            try:
                k = py_key(op["key"], shape)
                if op["k"] == "set":
                    a[k] = py_value(op)
                    st[which] = {"ok": True}
                else:
                    st[which] = _read_result(a[k])
            except Exception as ex:  # noqa: BLE001
                st[which] = {"exc": type(ex).__name__, "msg": str(ex)[:80]}
        st["after"] = snapshot(d)
        out["steps"].append(st)
    fin = {}
    try:
        fin["todense"] = [int(x) for x in d.todense().reshape(-1)]
    except Exception as ex:  # noqa: BLE001
        fin["todense"] = None
        fin["todense_exc"] = type(ex).__name__
    try:
        c = d.asformat("coo")
        fin["coo"] = [[[int(x) for x in col] for col in c.coords.T], [int(x) for x in c.data]]
        if not (c.shape == shape and int(c.fill_value) == int(fv) and c.dtype == np.dtype(dt)):
            fin["coo"] = None
            fin["coo_exc"] = "shape/fill"
    except Exception as ex:  # noqa: BLE001
        fin["coo"] = None
        fin["coo_exc"] = type(ex).__name__
    fin["nnz"] = int(d.nnz)
    fin["np"] = [int(x) for x in n.reshape(-1)]
    out["final"] = fin
    return out


# ------------------------------------------------------------------ Coq literals
def key_lit(key):
    t = key["t"]
    if t == "index":
        es = []
        for e in key["es"]:
            es.append(f"IInt {vZ(e[1])}" if e[0] == "i" else
                      f"ISlice {vopt(e[1])} {vopt(e[2])} {vopt(e[3])}" if e[0] == "s" else
                      "INone" if e[0] == "n" else "IEllipsis")
        return "KIndex [" + "; ".join(es) + "]"
    if t == "basic":
        es = []
        for e in key["es"]:
            if e[0] == "i":
                es.append(f"KInt {vZ(e[1])}")
            else:
                es.append(f"KSlice {vopt(e[1])} {vopt(e[2])} {vopt(e[3])}")
        return "KBasic [" + "; ".join(es) + "]"
    if t == "fancy":
        return "KFancy " + vlist(key["ls"], vlist)
    return "KMask " + vlist(key["m"], vlib.vbool)


def state_lit(st):
    return "[" + "; ".join(f"({vlist(k)}, {vZ(v)})" for k, v in st) + "]"


def out_lit(o):
    if o is None:
        return "JExc 9"
    if "exc" in o:
        return f"JExc {EXC.get(o['exc'], 9)}"
    if "val" in o:
        return f"JVal {vlist(o['val'][0])} {vlist(o['val'][1])}"
    return "JOk"


DT_LIT = {"int64": "DInt 64 true", "int8": "DInt 8 true", "uint8": "DInt 8 false", "bool": "DBool"}


def raw_lit(op):
    kind = op.get("vk", "int")
    if not op["vsh"] and kind in ("int", "pyint"):
        return f"RPyInt {vZ(op['vflat'][0])}"
    if kind == "pyfloat":
        return f"RPyFloat {vZ(op['vflat'][0])} 4"
    if kind == "npint":
        return f"RNpInt {vZ(op['vflat'][0])}"
    if kind == "float":
        return f"RFloatArr {vlist(op['vsh'])} {vlist(op['vflat'], lambda x: '(' + vZ(x) + ', 4)')}"
    return f"RIntArr {vlist(op['vsh'])} {vlist(op['vflat'])}"


def hist_lit(case, res):
    steps = []
    for op, st in zip(case["ops"], res["steps"], strict=True):
        if op["k"] == "set":
            ol = f"JSet ({key_lit(op['key'])}) ({raw_lit(op)})"
        elif op["k"] == "round":
            ol = "JRound"
        else:
            ol = f"JGet ({key_lit(op['key'])})"
        steps.append(f"({ol}, {out_lit(st['impl'])}, {state_lit(st['after'])}, {out_lit(st['np'])})")
    f = res["final"]
    coo = "None" if f["coo"] is None else f"(Some ({vlist(f['coo'][0], vlist)}, {vlist(f['coo'][1])}))"
    fin = f"({vopt(f['todense'], vlist)}, {coo}, {vZ(f['nnz'])}, {vlist(f['np'])})"
    return (f"({DT_LIT[case.get('dtype', 'int64')]}, {vlist(case['shape'])}, {vZ(case['fill'])}, {state_lit(res['s0'])}, "
            f"[{'; '.join(steps)}], {fin})")


# ------------------------------------------------------------------ generators
def sl_entry(a, b, c):
    return ["s", a, b, c]


def sweep_cases(tier):
    """every slice (start, stop in {None,-k..k}, step in a fixed set incl. 0) assigned on a filled 1-d DOK and
    read back"""
    if tier == "quick":
        bounds = [None] + list(range(-7, 8))
        steps = [None, 1, 2, 3, 7, -1, -2, -3, -7, 0]
        dims = [0, 1, 2, 3, 5]
    else:
        bounds = [None] + list(range(-9, 10))
        steps = [None, 1, 2, 3, 4, 7, 9, -1, -2, -3, -4, -7, -9, 0]
        dims = [0, 1, 2, 3, 4, 5, 7]
    cases = []
    k = 0
    for dim in dims:
        for a in bounds:
            for b in bounds:
                if abs(a or 0) > dim + 2 or abs(b or 0) > dim + 2:
                    continue
                for c in steps:
                    k += 1
                    key = {"t": "basic", "es": [sl_entry(a, b, c)]}
                    ops = [{"k": "set", "key": {"t": "basic", "es": [sl_entry(None, None, None)]},
                            "vsh": [dim], "vflat": list(range(1, dim + 1))}]
                    sel = len(range(*slice(a, b, c).indices(dim))) if c != 0 else 0
                    mode = k % 4
                    if mode == 0:          # the fill value: deletes
                        ops.append({"k": "set", "key": key, "vsh": [], "vflat": [0]})
                    elif mode == 1 and c != 0:   # an array of exactly the selection's shape
                        ops.append({"k": "set", "key": key, "vsh": [sel], "vflat": [10 + i for i in range(sel)]})
                    elif mode == 2:        # a length-1 array (broadcast)
                        ops.append({"k": "set", "key": key, "vsh": [1], "vflat": [8]})
                    else:
                        ops.append({"k": "set", "key": key, "vsh": [], "vflat": [7]})
                    ops.append({"k": "get", "key": key})
                    cases.append({"shape": [dim], "fill": 0, "ops": ops, "origin": "sweep"})
    return cases


def rnd_bound(rng, dim):
    r = rng.random()
    if r < 0.3:
        return None
    if r < 0.85:
        return rng.randint(-dim - 1, dim + 1)
    return rng.choice([-dim - 2, dim + 2, 0, -1, dim, -dim, dim - 1])


def rnd_step(rng):
    return rng.choice([None, None, 1, 1, 2, 3, -1, -1, -2, -3, 7, -7])


def rnd_slice(rng, dim):
    return sl_entry(rnd_bound(rng, dim), rnd_bound(rng, dim), rnd_step(rng))


def rnd_int(rng, dim, valid=True):
    if dim == 0 or not valid:
        return rng.choice([dim, dim + 1, -dim - 1, -dim - 2])
    return rng.randint(-dim, dim - 1)


def sel_shape(es, shape):
    """extents of the selection of a valid basic key (CPython's slice.indices)"""
    out = []
    for i, d in enumerate(shape):
        e = es[i] if i < len(es) else sl_entry(None, None, None)
        if e[0] == "s":
            if e[3] == 0:
                return None
            out.append(len(range(*slice(e[1], e[2], e[3]).indices(d))))
    return out


def rnd_value(rng, fill, sel, tags):
    """a value broadcastable against a selection of shape sel (mostly), as (vsh, vflat)"""
    def val():
        return fill if rng.random() < 0.25 else rng.choice([0, 1, 2, 3, 5, 7, 9, -1, -4])
    r = rng.random()
    if sel is None:
        sel = []
    if r < 0.45 or not sel and r < 0.93:
        tags.append("val:scalar")
        return [], [val()]
    if r < 0.70:
        vsh = list(sel)
        tags.append("val:exact")
    elif r < 0.90:
        k = rng.randint(0, len(sel))            # drop leading axes, set some extents to 1
        vsh = [1 if rng.random() < 0.4 else s for s in sel[k:]]
        tags.append("val:broadcast")
    elif r < 0.96:
        vsh = [1] * rng.randint(1, 2) + [1 if rng.random() < 0.5 else s for s in sel]
        tags.append("val:extra_leading_axes")
    else:
        vsh = [s + rng.choice([1, 2]) for s in sel] if sel else [2]
        tags.append("val:not_broadcastable")
    size = 1
    for s in vsh:
        size *= s
    return vsh, [val() for _ in range(size)]


def rnd_basic_key(rng, shape, tags, for_read=False):
    nd = len(shape)
    r = rng.random()
    if r < 0.02:
        tags.append("key:empty_tuple")
        return {"t": "basic", "es": []}
    if r < 0.05:
        tags.append("key:too_many")
        return {"t": "basic", "es": [["i", 0]] * (nd + 1) if rng.random() < 0.5 else
                [["i", 0]] * nd + [sl_entry(None, None, None)]}
    n = nd if rng.random() < 0.8 else rng.randint(1, nd)
    es = []
    form = rng.random()
    for i in range(n):
        d = shape[i]
        if form < 0.25:
            es.append(["i", rnd_int(rng, d, valid=rng.random() < 0.96)])
        elif form < 0.55:
            es.append(rnd_slice(rng, d))
        else:
            es.append(rnd_slice(rng, d) if rng.random() < 0.55 else ["i", rnd_int(rng, d, valid=rng.random() < 0.97)])
    if rng.random() < 0.02:
        j = rng.randrange(n)
        es[j] = sl_entry(None, None, 0)
    kinds = {e[0] for e in es}
    tags.append("key:" + ("ints" if kinds == {"i"} else "slices" if kinds == {"s"} else "mixed")
                + ("_short" if n < nd else ""))
    if any(e[0] == "s" and (e[3] or 1) < 0 for e in es):
        tags.append("step:negative")
    if any(e[0] == "s" and e[3] == 0 for e in es):
        tags.append("step:zero")
    return {"t": "basic", "es": es}


def rnd_index_key(rng, shape, tags, for_read=False):
    """a general basic index: ints / slices around one Ellipsis, sometimes None entries"""
    nd = len(shape)
    k = rng.randint(0, nd)                     # axes indexed explicitly
    nb = rng.randint(0, k)                     # ... of which before the Ellipsis
    axes = list(range(nb)) + list(range(nd - (k - nb), nd))
    es = []
    for j, ax in enumerate(axes):
        if j == nb:
            es.append(["e"])
        d = shape[ax]
        es.append(rnd_slice(rng, d) if rng.random() < 0.5 else ["i", rnd_int(rng, d, valid=rng.random() < 0.97)])
    if nb == len(axes):
        es.append(["e"])
    r = rng.random()
    if r < 0.03:
        es.insert(rng.randint(0, len(es)), ["e"])          # two Ellipses: IndexError on both sides
        tags.append("key:two_ellipses")
    if rng.random() < (0.35 if for_read else 0.08):
        for _ in range(rng.randint(1, 2)):
            es.insert(rng.randint(0, len(es)), ["n"])
        tags.append("key:newaxis" + ("_read" if for_read else "_assignment"))
    if rng.random() < 0.1 and len(es) > 1:
        es = [e for e in es if e[0] != "e"] or es       # None / ints / slices without an Ellipsis
    tags.append("key:ellipsis")
    if any(e[0] == "s" and (e[3] or 1) < 0 for e in es):
        tags.append("step:negative")
    return {"t": "index", "es": es}


def np_sel_shape(key, shape):
    import numpy as np
    try:
        return list(np.empty(shape)[py_key(key, shape)].shape)
    except Exception:  # noqa: BLE001
        return None


DT_RANGE = {"int8": (-128, 127), "uint8": (0, 255), "bool": (0, 1)}


def retype_value(rng, dt, fill, vsh, vflat, tags):
    """turn an int64 value into a raw value exercising the cast to a small dtype"""
    lo, hi = DT_RANGE[dt]
    scalar = not vsh
    r = rng.random()
    if r < 0.3:
        vals = [v if lo <= v <= hi else fill for v in vflat]
        tags.append("cast:int_in_range")
        return vals, "int"
    if r < 0.5:
        vals = [rng.choice([300, -129, 256, 255, -1, 128, -200, 511, 127, -128, 2, fill + 256]) for _ in vflat]
        tags.append("cast:pyint_maybe_overflow" if scalar else "cast:int_array_wraps")
        return vals, "int"
    if r < 0.8:
        # floats as numerators over 4; the truncation stays inside the dtype
        vals = []
        for _ in vflat:
            t = rng.randint(-3 if lo == 0 else -30, 30)
            if dt == "bool":
                t = rng.choice([0, 0, 1, 2, -2, 4, 7])
            vals.append(t)
        tags.append("cast:float")
        return vals, ("pyfloat" if scalar else "float")
    if scalar:
        if r < 0.93:
            tags.append("cast:npint_in_range")
            return [rng.randint(lo, hi)], "npint"
        tags.append("cast:npint_out_of_range")
        return [rng.choice([300, -129, 256, -1 if lo == 0 else 128])], "npint"
    tags.append("cast:int_in_range")
    return [v if lo <= v <= hi else fill for v in vflat], "int"


def rnd_fancy_key(rng, shape, tags, wild=False):
    """one integer list per axis; entries in [-d, d) (negatives wrap); wild: also out-of-range entries
    (IndexError on both sides)"""
    nd = len(shape)
    n = rng.choice([0, 1, 1, 2, 2, 3, 4])
    if any(d == 0 for d in shape) and not wild:
        n = 0
    ls = []
    for d in shape:
        if wild:
            ls.append([rng.choice([-1, -d, d, d + 1, 0, -d - 1]) for _ in range(max(n, 1))])
        else:
            ls.append([rng.randrange(-d, d) if rng.random() < 0.3 else rng.randrange(d) for _ in range(n)])
    render = "tuple"
    if nd == 1 and rng.random() < 0.5:
        render = "list"
    tags.append("key:fancy" + ("_empty" if n == 0 and not wild else "_out_of_range" if wild else ""))
    if any(i < 0 for l in ls for i in l):
        tags.append("key:fancy_negative")
    return {"t": "fancy", "ls": ls, "render": render}


def rnd_mask_key(rng, shape, tags):
    size = 1
    for d in shape:
        size *= d
    m = [rng.random() < 0.4 for _ in range(size)]
    tags.append("key:mask_1d" if len(shape) == 1 else "key:mask_nd")
    return {"t": "mask", "m": m, "render": "list" if len(shape) == 1 and rng.random() < 0.5 else "ndarray"}


def gen_history(rng, maxlen):
    tags = []
    nd = rng.choice([1, 1, 2, 2, 2, 3])
    while True:
        shape = [rng.choice([0, 1, 2, 2, 3, 3, 4, 5]) for _ in range(nd)]
        size = 1
        for d in shape:
            size *= d
        if size <= 60:
            break
    dt = rng.choice(["int64"] * 7 + ["int8", "int8", "uint8", "bool"])
    fill = rng.choice([0, 0, 3, -1])
    if dt == "uint8":
        fill = rng.choice([0, 0, 3])
    if dt == "bool":
        fill = rng.choice([0, 0, 1])
    tags.append("dtype:" + dt)
    ops = []
    n = rng.randint(1, maxlen)

    def push_set(key, vsh, vflat):
        op = {"k": "set", "key": key, "vsh": vsh, "vflat": vflat}
        if dt != "int64":
            op["vflat"], op["vk"] = retype_value(rng, dt, fill, vsh, vflat, tags)
        ops.append(op)

    for i in range(n):
        r = rng.random()
        if r < 0.06:
            ops.append({"k": "round"})
            tags.append("roundtrip")
            continue
        if r < 0.72:
            kr = rng.random()
            if kr < 0.16:
                key = rnd_index_key(rng, shape, tags)
                vsh, vflat = rnd_value(rng, fill, np_sel_shape(key, shape), tags)
            elif kr < 0.78:
                key = rnd_basic_key(rng, shape, tags)
                vsh, vflat = rnd_value(rng, fill, sel_shape(key["es"], shape) if len(key["es"]) <= nd else [], tags)
            elif kr < 0.93:
                key = rnd_fancy_key(rng, shape, tags, wild=rng.random() < 0.06)
                m = len(key["ls"][0])
                vr = rng.random()
                if vr < 0.45:
                    vsh, vflat = [], [fill if rng.random() < 0.25 else rng.randint(0, 9)]
                elif vr < 0.85:
                    vsh, vflat = [m], [fill if rng.random() < 0.25 else rng.randint(0, 9) for _ in range(m)]
                elif vr < 0.96:
                    vsh, vflat = [1], [rng.randint(1, 9)]
                    tags.append("val:fancy_len1")
                else:
                    vsh, vflat = [1, m], [rng.randint(0, 9) for _ in range(m)]     # ndim 2: refused by the code
                    tags.append("val:fancy_ndim2")
            elif kr < 0.96 and nd == 1 and shape[0] > 0:
                # (i,) on a 1-d DOK: a basic key (the 1-d shortcut no longer takes tuples)
                key = {"t": "basic", "es": [["i", rng.randint(-shape[0], shape[0] - 1)]], "render": "tuple"}
                tags.append("key:tuple_of_one_int")
                vsh, vflat = [], [rng.randint(0, 9)]
            else:
                key = rnd_mask_key(rng, shape, tags)
                cnt = sum(1 for b in key["m"] if b)
                vr = rng.random()
                if vr < 0.5 or nd > 1:
                    vsh, vflat = [], [fill if rng.random() < 0.25 else rng.randint(1, 9)]
                elif vr < 0.85:
                    vsh, vflat = [cnt], [fill if rng.random() < 0.25 else rng.randint(0, 9) for _ in range(cnt)]
                else:
                    vsh, vflat = [1], [rng.randint(1, 9)]
            push_set(key, vsh, vflat)
            if vflat and all(v == fill for v in vflat):
                tags.append("val:all_fill")
        else:
            kr = rng.random()
            if kr < 0.25:
                key = rnd_index_key(rng, shape, tags, for_read=True)
            elif kr < 0.8:
                key = rnd_basic_key(rng, shape, tags, for_read=True)
            elif kr < 0.93:
                key = rnd_fancy_key(rng, shape, tags, wild=rng.random() < 0.1)
            else:
                key = rnd_mask_key(rng, shape, tags)
            tags.append("read")
            ops.append({"k": "get", "key": key})
    return {"shape": shape, "fill": fill, "dtype": dt, "ops": ops, "origin": "random", "tags": tags}


# ------------------------------------------------------------------ running and judging
def run_and_judge(build, name, cases, workers=6):
    """returns (impl results, {case index: verdict code})"""
    res = vlib.run_impl("props.c12", "impl_history", cases, workers=workers, per_case_timeout=60.0)
    lits, idxmap, harness_bad = [], [], {}
    for i, (c, r) in enumerate(zip(cases, res, strict=True)):
        if not isinstance(r, dict) or "steps" not in r:
            harness_bad[i] = r
            continue
        lits.append(hist_lit(c, r))
        idxmap.append(i)
    verdicts = {}
    if lits:
        for j, code in build.judge(name, "From Verif Require Import Py Shape NpIndex NpAssign DOK DOKExt C12Judge.", "hist_case", "judge_hist", lits,
                                   chunk=250, timeout=600):
            verdicts[idxmap[j]] = code
    return res, verdicts, harness_bad


def decode(code):
    step, rest = divmod(code, 1000)
    clause, kind = divmod(rest, 10)
    return step, clause, kind


def key_src(key, shape):
    t = key["t"]
    if t == "index":
        es = [str(e[1]) if e[0] == "i" else f"slice({e[1]},{e[2]},{e[3]})" if e[0] == "s" else
              "None" if e[0] == "n" else "..." for e in key["es"]]
        return es[0] if len(es) == 1 else "(" + ",".join(es) + ")"
    if t == "basic":
        es = [str(e[1]) if e[0] == "i" else f"slice({e[1]},{e[2]},{e[3]})" for e in key["es"]]
        if len(es) == 1 and key.get("render") != "tuple":
            return es[0]
        return "(" + ",".join(es) + ("," if len(es) == 1 else "") + ")"
    if t == "fancy":
        r = key.get("render", "tuple")
        if r == "list":
            return repr(key["ls"][0])
        return "(" + ",".join(repr(l) for l in key["ls"]) + ("," if len(key["ls"]) == 1 else "") + ")"
    if key.get("render") == "list":
        return repr([bool(b) for b in key["m"]])
    return f"np.array({[bool(b) for b in key['m']]!r}).reshape({tuple(shape)!r})"


def describe(case):
    """the history as Python source lines"""
    lines = [f"d = sparse.DOK({tuple(case['shape'])!r}, dtype=np.{case.get('dtype', 'int64')}, fill_value={case['fill']})"]
    for op in case["ops"]:
        if op["k"] == "round":
            lines.append('d = sparse.DOK.from_coo(d.asformat("coo"))')
            continue
        k = key_src(op["key"], case["shape"])
        if op["k"] == "set":
            vk = op.get("vk", "int")
            if vk == "pyfloat":
                v = repr(op["vflat"][0] / 4.0)
            elif vk == "npint":
                v = f"np.int64({op['vflat'][0]})"
            elif vk == "float":
                v = f"np.array({[x / 4.0 for x in op['vflat']]!r}).reshape({tuple(op['vsh'])!r})"
            elif not op["vsh"]:
                v = str(op["vflat"][0])
            else:
                v = f"np.array({op['vflat']!r}).reshape({tuple(op['vsh'])!r})"
            lines.append(f"d[{k}] = {v}")
        else:
            lines.append(f"d[{k}]")
    return lines


def replay_ops(case):
    """run a history on DOK and NumPy side by side, printing every step"""
    r = impl_history(case)
    for line, st in zip(describe(case)[1:], r["steps"], strict=True):
        print(f"{line:50s} impl={st['impl']}  numpy={st['np']}  dict={st['after']}")
    print("todense", r["final"]["todense"], "numpy", r["final"]["np"], "nnz", r["final"]["nnz"], "coo", r["final"]["coo"])
    return r


def shrink(build, case, target, budget_rounds):
    """drop operations while the same (clause, kind) is still reported"""
    def norm(c):
        return {"shape": c["shape"], "fill": c["fill"], "dtype": c.get("dtype", "int64"), "ops": c["ops"]}
    cur = norm(case)
    for rnd in range(budget_rounds):
        n = len(cur["ops"])
        if n <= 1:
            break
        cands = [dict(cur, ops=[cur["ops"][-1]])] if rnd == 0 else []
        cands += [dict(cur, ops=cur["ops"][:i] + cur["ops"][i + 1:]) for i in range(n)]
        _res, verd, bad = run_and_judge(build, f"c12_shrink{rnd}_{abs(hash(json.dumps(cur, sort_keys=True))) % 10**8}",
                                        cands, workers=min(6, len(cands)))
        pick = None
        for j in range(len(cands)):
            if j in verd:
                st_j, cl_j, k_j = decode(verd[j])
                ops_j = cands[j]["ops"]
                ot_j = "final" if st_j > len(ops_j) else ops_j[st_j - 1]["k"]
                if (cl_j, k_j, ot_j) == target:
                    pick = j
                    break
        if pick is None:
            break
        cur = cands[pick]
    return cur


def campaign(build, tier, seed, report, budget=1):
    rng = random.Random(seed)
    viol = []
    cases = sweep_cases(tier)
    n_sweep = len(cases)
    n_rand, maxlen = (500, 12) if tier == "quick" else (2500, 60)
    n_rand *= budget
    for _ in range(n_rand):
        cases.append(gen_history(rng, maxlen))
    res, verdicts, harness_bad = run_and_judge(build, "c12_hist", cases)

    for i, r in harness_bad.items():
        viol.append({"property": "C12", "op": "history", "kind": "value", "clause": None,
                     "case": {k: cases[i][k] for k in ("shape", "fill", "ops")}, "impl": r,
                     "note": "the history did not complete in the worker (hang / crash / harness exception)",
                     "replay_py": replay_line(cases[i])})

    # group failing histories by (clause, kind); shrink one representative per class, report all
    classes = {}
    for i, code in sorted(verdicts.items()):
        step, clause, kind = decode(code)
        ops_i = cases[i]["ops"]
        optype = "final" if step > len(ops_i) else ops_i[step - 1]["k"]   # set / get / round
        classes.setdefault((clause, kind, optype), []).append((i, step))
    for (clause, kind, optype), members in sorted(classes.items()):
        # representative: prefer a history without zero extents / empty values, failing early
        def score(m):
            c = cases[m[0]]
            op = c["ops"][m[1] - 1] if m[1] <= len(c["ops"]) else {}
            return (any(d == 0 for d in c["shape"]), 0 in op.get("vsh", []), m[1], m[0])
        i, step = min(members, key=score)
        case = cases[i]
        # keep the operations up to the failing step only
        trunc = dict(case, ops=case["ops"][:step]) if step <= len(case["ops"]) else case
        # a class recorded as an open known finding is not minimised beyond one round (time budget)
        known_open = any(f.get("property") == "C12" and f.get("status", "open") == "open"
                         and f.get("match", {}).get("clause") == CLAUSES.get(clause) and kind == 2
                         for f in vlib.load_known_findings())
        small = shrink(build, trunc, (clause, kind, optype), 1 if known_open else 6 if tier == "quick" else 14)
        r2 = impl_history_subprocess(small)
        v = {"property": "C12",
             "op": ("spec_vs_numpy" if kind == 7 else "final_observations" if optype == "final" else
                    "setitem" if optype == "set" else "roundtrip" if optype == "round" else "getitem"),
             "kind": KINDS.get(kind, "value"), "clause": CLAUSES.get(clause, f"clause_{clause}"),
             "verdict_kind": kind, "verdict_note": KIND_NOTE.get(kind),
             "case": {"shape": small["shape"], "fill": small["fill"], "dtype": small.get("dtype", "int64"),
                      "ops": small["ops"]},
             "python": describe(small), "impl": r2,
             "histories_in_class": len(members),
             "first_failing_history": {"index": i, "origin": case.get("origin"), "failing_step": step,
                                       "length": len(case["ops"])},
             "replay_py": replay_line(small)}
        viol.append(v)

    # coverage
    tags = {}
    n_ops = n_set = n_get = n_exc = 0
    distinct = set()
    for c, r in zip(cases, res, strict=True):
        for t in c.get("tags", ["sweep"]):
            tags[t] = tags.get(t, 0) + 1
        if not isinstance(r, dict) or "steps" not in r:
            continue
        prev = r["s0"]
        changed = False
        for op, st in zip(c["ops"], r["steps"], strict=True):
            n_ops += 1
            if op["k"] == "set":
                n_set += 1
            elif op["k"] == "get":
                n_get += 1
            if "exc" in st["impl"]:
                n_exc += 1
                tags["impl:raised:" + st["impl"]["exc"]] = tags.get("impl:raised:" + st["impl"]["exc"], 0) + 1
            if (op["k"] == "set" and op["key"]["t"] == "index" and any(e[0] == "n" for e in op["key"]["es"])
                    and "exc" in st["impl"] and "exc" not in st["np"]):
                tags["newaxis_assignment_rejected_by_impl"] = tags.get("newaxis_assignment_rejected_by_impl", 0) + 1
            if op["k"] == "set" and "exc" in st["np"] and "exc" not in st["impl"]:
                tags["numpy_rejects_but_impl_accepts"] = tags.get("numpy_rejects_but_impl_accepts", 0) + 1
            if st["after"] != prev:
                changed = True
                if len(st["after"]) < len(prev):
                    tags["dict:shrunk"] = tags.get("dict:shrunk", 0) + 1
            prev = st["after"]
        if changed:
            distinct.add(vlib.digest({k: c.get(k) for k in ("shape", "fill", "dtype", "ops")}))
    for (clause, kind, optype), members in classes.items():
        tags[f"verdict:{optype}:clause={CLAUSES.get(clause)}:kind={kind}"] = len(members)
    cov = report["coverage"]
    cov["evaluations"] = len(cases)
    cov["distinct_nontrivial"] = len(distinct)
    cov["operations"] = {"total": n_ops, "assignments": n_set, "reads": n_get, "raised": n_exc}
    cov["rule"] = (f"{n_sweep} exhaustive 1-d slice-assignment histories (fill, assign through every slice with "
                   f"start/stop in None,-k..k and a fixed step set incl. 0, read the same slice back) + {n_rand} seeded "
                   f"random histories (length <= {maxlen}) of assignments (raw values cast to int64/int8/uint8/bool), reads and "
                   "asformat('coo')/from_coo round trips on 1-3-d shapes with extents 0..5, keys with Ellipsis/None "
                   "included; every step judged in Coq "
                   "against model and Spec from the implementation's own previous dict; distinct = distinct histories "
                   "in which the dict changed at least once")
    cov["exhaustive"] = False
    cov["exhaustive_part"] = "the 1-d slice-assignment sweep"
    cov["samples"] = [dict(case={k: cases[i][k] for k in ("shape", "fill", "ops")}, python=describe(cases[i]),
                           impl_final=res[i].get("final") if isinstance(res[i], dict) else res[i])
                      for i in (0, n_sweep // 2, n_sweep, len(cases) - 1) if i < len(cases)]
    cov["branch_tags"] = dict(sorted(tags.items()))
    if tags.get("newaxis_assignment_rejected_by_impl"):
        report["notes"].append(
            f"{tags['newaxis_assignment_rejected_by_impl']} assignments through a key containing None were rejected "
            "by the implementation (IndexError) while NumPy accepts them; the property's keys are newaxis-free, so "
            "these are compared with the model only (Props/C12.v dok_newaxis_refuted)")
    if tags.get("numpy_rejects_but_impl_accepts"):
        report["notes"].append(
            f"{tags['numpy_rejects_but_impl_accepts']} assignments that NumPy rejects (non-broadcastable value, zero "
            "step behind an empty selection, out-of-range integer list) were accepted by the implementation; they "
            "are outside C12's quantifier (compared with the model only)")
    return viol


def impl_history_subprocess(case):
    r = vlib.run_impl("props.c12", "impl_history", [case], workers=1, per_case_timeout=60.0)[0]
    if isinstance(r, dict) and "steps" in r:
        return {"steps": [{"impl": s["impl"], "numpy": s["np"], "dict_after": s["after"]} for s in r["steps"]],
                "final": r["final"]}
    return r


def replay_line(case):
    c = {"shape": case["shape"], "fill": case["fill"], "dtype": case.get("dtype", "int64"), "ops": case["ops"]}
    return ("import sys, json; sys.path.insert(0, '/verif/tools'); import props.c12 as m; "
            f"m.replay_ops(json.loads({json.dumps(json.dumps(c))}))")


def replay(path):
    v = json.load(open(path))
    print(json.dumps({k: v[k] for k in v if k not in ("impl",)}, indent=1)[:4000])
    if "replay_py" in v:
        p = subprocess.run([vlib.PY, "-c", v["replay_py"]], env=vlib.env_clean(), capture_output=True, text=True)
        print("\n".join(l for l in p.stdout.splitlines() if "conda" not in l))
        print("\n".join(l for l in p.stderr.splitlines() if "conda" not in l)[-800:])
    return 0
