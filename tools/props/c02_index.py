"""C02 — indexing.  Campaign part 2: x[index] for index tuples of the whole grammar on COO, GCXS (every
compressed-axes choice) and DOK, on arrays built directly and on arrays that are OUTPUTS of other
operations; and the jitted mask / selection kernels on raw arrays.

impl side (workers): the real x[index] and the real kernels;
Coq side: Spec/NpIndex.v applied to the dense meaning of the input (the oracle), Model/CooIndex.v
(the representation the COO code must produce), Model/GcxsIndex.v (kernels), Corr/C02IndexJudge.v."""
import itertools
import random
import re

import vlib
from vlib import vZ, vbool, vlist, vopt, vpair

CLAUSES = {
    0: None,
    3: "gcxs_getitem_unsigned_indices",
    4: "D21_gcxs_several_index_arrays",
    9: "outside_grammar",
    12: "D26_all_ints_with_ellipsis_not_last_returns_scalar",
    13: "D29_empty_bool_index_on_nonempty_axis",
    14: "D30_multi_array_mask_unchecked_out_of_bounds_access",
    15: "input_not_wellformed",
    16: "dok_array_key_not_for_every_axis",
}

KINDS = {1: "representation", 2: "value", 3: "value", 4: "value", 5: "value", 6: "value", 7: "value", 8: "harness",
         9: "spec"}
KIND_WHAT = {1: "representation differs from the model", 2: "shape or elements differ from NumPy",
             3: "exception class / raised-or-not differs from NumPy", 4: "scalar-vs-0-d differs from NumPy",
             5: "fill value not kept", 6: "result not in canonical form", 7: "hang", 8: "bad case",
             9: "Spec/NpIndex.v disagrees with NumPy itself"}
FMT = {"coo": 0, "gcxs": 1, "dok": 2}

# ------------------------------------------------------------------ index entries (JSON-able)
# ["i", z] | ["s", a, b, c] | ["N"] | ["E"] | ["a", [ints], as_ndarray or a dtype name] | ["b", [bools], as_ndarray]


def entry_lit(e):
    k = e[0]
    if k == "i":
        return f"IInt {vZ(e[1])}"
    if k == "s":
        return f"ISlice {vopt(e[1])} {vopt(e[2])} {vopt(e[3])}"
    if k == "N":
        return "INone"
    if k == "E":
        return "IEllipsis"
    if k == "a":
        return f"IArr {vlist(e[1])}"
    if k == "b":
        return f"IBArr {vlist(e[1], vbool)}"
    raise ValueError(e)


def index_lit(ix):
    return "[" + "; ".join(entry_lit(e) for e in ix) + "]"


def entry_py(e):
    k = e[0]
    if k == "i":
        return repr(e[1])
    if k == "s":
        return f"slice({e[1]!r}, {e[2]!r}, {e[3]!r})"
    if k == "N":
        return "None"
    if k == "E":
        return "Ellipsis"
    if k == "a":
        if isinstance(e[2], str):
            return f"np.array({e[1]!r}, dtype=np.{e[2]})"
        return f"np.array({e[1]!r}, dtype=np.intp)" if e[2] else repr(e[1])
    if k == "b":
        return f"np.array({e[1]!r}, dtype=bool)" if (e[2] or not e[1]) else repr(e[1])
    raise ValueError(e)


def index_py(ix):
    return "(" + "".join(entry_py(e) + ", " for e in ix) + ")"


def entry_obj(e):
    import numpy as np
    k = e[0]
    if k == "i":
        return e[1]
    if k == "s":
        return slice(e[1], e[2], e[3])
    if k == "N":
        return None
    if k == "E":
        return Ellipsis
    if k == "a":
        if isinstance(e[2], str):
            return np.array(e[1], dtype=e[2])
        return np.array(e[1], dtype=np.intp) if e[2] else list(e[1])
    if k == "b":      # an empty Python list is an (empty) integer index for NumPy: keep bool arrays typed
        return np.array(e[1], dtype=bool) if (e[2] or not e[1]) else list(e[1])
    raise ValueError(e)


# ------------------------------------------------------------------ implementation side
def _scipy_matrix(spec):
    """a SciPy CSR/CSC matrix built DIRECTLY from (data, indices, indptr): nothing is sorted or summed"""
    import numpy as np
    import scipy.sparse as sp
    cls = sp.csr_matrix if spec["fmt"] == "csr" else sp.csc_matrix
    return cls((np.array(spec["data"], dtype=np.int64), np.array(spec["indices"], dtype=np.int32),
                np.array(spec["indptr"], dtype=np.int32)), shape=tuple(spec["shape"]))


def _build_input(case):
    """-> (the array to index, reference dense array or None)"""
    import numpy as np  # noqa: F401
    import sparse
    if case.get("scipy"):
        import scipy.sparse as sp
        m = _scipy_matrix(case["scipy"])
        ref = np.asarray(m.toarray())
        m = _scipy_matrix(case["scipy"])      # a fresh one: toarray() may have touched SciPy's cached flags
        return eval(case["op"], {"sparse": sparse, "np": np, "sp": sp, "m": m}), ref  # noqa: S307
    arrs = [vlib.build_array(s, idx_dtype=case.get("idx_dtype")) for s in case["base"]]
    if case.get("op"):
        env = {"sparse": sparse, "np": np}
        for name, a in zip("abcd", arrs, strict=False):
            env[name] = a
        return eval(case["op"], env), None  # noqa: S307  (our own fixed op strings)
    return arrs[0], None


def impl_getitem(case):
    import numpy as np
    import sparse  # noqa: F401
    try:
        x, ref = _build_input(case)
    except Exception as ex:  # noqa: BLE001  (the producing operation failed: not this property's business)
        return {"skip": type(ex).__name__}
    inp = vlib.plain(x)
    if inp["k"] not in ("coo", "gcxs", "dok"):
        return {"skip": "input is " + inp["k"]}
    idx = tuple(entry_obj(e) for e in case["index"])
    key = idx[0] if (len(idx) == 1 and case.get("unwrap")) else idx
    got = None
    try:
        got = x[key]
        out = vlib.plain(got)
    except Exception as ex:  # noqa: BLE001
        out = vlib.plain(ex)
    extra = {}
    try:
        d = x.todense()
        if ref is not None:
            # the Spec is applied to what SciPy says the matrix is (m.toarray()), not to the converted array
            extra["todense_ok"] = bool(d.shape == ref.shape and np.array_equal(d, ref))
            d = ref
            if got is not None:
                want = d[key]
                gd = got.todense() if hasattr(got, "todense") else np.asarray(got)
                extra["agree"] = bool(np.shape(gd) == np.shape(want) and np.array_equal(gd, want))
        npo = vlib.plain(d[key])
    except Exception as ex:  # noqa: BLE001
        npo = vlib.plain(ex)
    return dict({"inp": inp, "out": out, "np": npo}, **extra)


def _tl(xs):
    import numba
    l = numba.typed.List.empty_list(numba.types.intp)
    for v in xs:
        l.append(int(v))
    return l


def impl_kernel(case):
    import numpy as np
    from sparse.numba_backend._compressed import indexing as gi
    from sparse.numba_backend._coo import indexing as ci
    k = case["k"]
    if k == "mask":
        coords = np.array(case["pts"], dtype=np.intp).reshape(len(case["pts"]), case["ndim"]).T.copy()
        ind = np.array(case["inds"], dtype=np.intp).reshape(len(case["inds"]), 3)
        m, is_slice = ci._compute_mask(coords, ind)
        return {"m": [int(v) for v in m], "is_slice": bool(is_slice)}
    if k == "pairs":
        s, e, n = ci._get_mask_pairs(_tl(case["starts"]), _tl(case["stops"]), np.array(case["c"], dtype=np.intp),
                                     np.array(case["t"], dtype=np.intp))
        return {"starts": [int(v) for v in s], "stops": [int(v) for v in e], "n": int(n)}
    if k == "filter":
        coords = np.array(case["pts"], dtype=np.intp).reshape(len(case["pts"]), case["ndim"]).T.copy()
        ind = np.array(case["inds"], dtype=np.intp).reshape(len(case["inds"]), 3)
        m = ci._filter_pairs(_tl(case["starts"]), _tl(case["stops"]), coords, ind)
        return {"m": [int(v) for v in m]}
    if k == "join":
        s, e = ci._join_adjacent_pairs(_tl(case["starts"]), _tl(case["stops"]))
        return {"starts": [int(v) for v in s], "stops": [int(v) for v in e]}
    if k in ("slicing", "array"):
        ai = np.array(case["indices"], dtype=np.intp)
        data = np.arange(len(ai), dtype=np.intp)
        starts = np.array(case["starts"], dtype=np.intp)
        ends = np.array(case["ends"], dtype=np.intp)
        col = np.array(case["col"], dtype=np.intp)
        indptr = np.empty(len(starts) + 1, dtype=np.intp)
        indptr[0] = 0
        fn = gi.get_slicing_selection if k == "slicing" else gi.get_array_selection
        d, i, p = fn(data, ai, indptr, starts, ends, col)
        return {"pos": [int(v) for v in d], "cols": [int(v) for v in i], "indptr": [int(v) for v in p]}
    if k == "flat":
        from numba.typed import List
        from sparse.numba_backend._compressed.convert import convert_to_flat
        inds = List([np.array(l, dtype=np.intp) for l in case["inds"]])
        out = convert_to_flat(inds, tuple(case["shape"]), np.intp)
        return {"out": [int(v) for v in out]}
    raise ValueError(k)


# ------------------------------------------------------------------ generators
def _int_ok(rng, d):
    return rng.choice([0, d - 1, -1, -d, rng.randrange(-d, d)])


def _slice(rng, d, sign):
    bounds = [None, None] + list(range(-d - 2, d + 3))
    steps = [None, 1, 1, 2, 3] if sign > 0 else [-1, -1, -2, -3]
    return ["s", rng.choice(bounds), rng.choice(bounds), rng.choice(steps)]


def _arr(rng, d, ok=True, n=None):
    if n is None:
        n = rng.choice([0, 1, 1, 2, 3, 4])
    if d == 0:
        vals = [] if ok else [rng.choice([0, -1, 1])] * max(1, n)
    else:
        vals = [rng.randrange(-d, d) for _ in range(n)]
        if not ok:
            if not vals:
                vals = [0]
            vals[rng.randrange(len(vals))] = rng.choice([d, -d - 1, d + 3])
    return ["a", vals, rng.random() < 0.5]


def _barr(rng, d, ok=True):
    n = d if ok else rng.choice([d + 1, max(0, d - 1) if d > 0 else 1])
    return ["b", [rng.random() < 0.5 for _ in range(n)], rng.random() < 0.5]


def make_entry(rng, kind, d, alen=None):
    if kind == "i":
        return ["i", _int_ok(rng, d)] if d > 0 else None
    if kind == "I":
        return ["i", rng.choice([d, -d - 1, d + 2])]
    if kind == "s":
        return _slice(rng, d, +1)
    if kind == "n":
        return _slice(rng, d, -1)
    if kind == "f":
        return rng.choice([["s", None, None, None], ["s", 0, d, 1], ["s", None, None, -1], ["s", None, None, 1]])
    if kind == "a":
        return _arr(rng, d, True, alen)
    if kind == "A":
        return _arr(rng, d, False, alen)
    if kind == "b":
        return _barr(rng, d, True)
    if kind == "B":
        return _barr(rng, d, False)
    raise ValueError(kind)


def in_grammar_kinds(kinds):
    """kinds: sequence over consumed axes plus 'N'/'E' decorations, as a list of kind letters"""
    arr = [i for i, k in enumerate(kinds) if k in "aAbB"]
    if not arr:
        return True
    adv = [i for i, k in enumerate(kinds) if k in "aAbBiI"]
    if adv != list(range(adv[0], adv[-1] + 1)):
        return False
    return len(arr) == 1 or not any(kinds[i] in "bB" for i in arr)


def patterns(ndim, rng, tier):
    """index patterns (lists of kind letters) for an array of ndim axes: every combination class"""
    out = []
    basic = "isnf"
    for m in range(0, ndim + 1):
        for ks in itertools.product(basic, repeat=m):
            out.append(list(ks))
    # one array at every position among basic kinds; bool arrays; out-of-range variants
    for m in range(1, ndim + 1):
        for p in range(m):
            for ak in "aabAB":
                for ks in itertools.product("isf" if tier == "quick" else "isnf", repeat=m - 1):
                    pat = list(ks[:p]) + [ak] + list(ks[p:])
                    if in_grammar_kinds(pat):
                        out.append(pat)
    # several adjacent arrays (2..3), ints in between / next to them, slices elsewhere
    for m in range(2, ndim + 1):
        for ks in itertools.product("aisf", repeat=m):
            if sum(k == "a" for k in ks) >= 2 and in_grammar_kinds(list(ks)):
                out.append(list(ks))
    # errors: out-of-range int at every position
    for m in range(1, ndim + 1):
        for p in range(m):
            for ks in itertools.product("is", repeat=m - 1):
                out.append(list(ks[:p]) + ["I"] + list(ks[p:]))
    # too many indices
    for extra in (1, 2):
        out.append([rng.choice("is") for _ in range(ndim + extra)])
    return out


def decorate(rng, pat, ndim, mode):
    """insert None / Ellipsis: mode = (n_none, ellipsis position or None, second ellipsis?)"""
    n_none, ell, ell2 = mode
    p = list(pat)
    if ell is not None:
        p.insert(min(ell, len(p)), "E")
    if ell2:
        p.insert(rng.randrange(len(p) + 1), "E")
    for _ in range(n_none):
        p.insert(rng.randrange(len(p) + 1), "N")
    return p


def instantiate(rng, pat, shape):
    """kind letters -> concrete entries facing the axes of `shape` (Ellipsis swallows the axes left over)"""
    ndim = len(shape)
    consumed = [k for k in pat if k not in "NE"]
    n_e = pat.count("E")
    # the axis each consuming entry faces
    axes = []
    if n_e == 0:
        axes = list(range(len(consumed)))
    else:
        before = 0
        for k in pat:
            if k == "E":
                break
            if k != "N":
                before += 1
        after = len(consumed) - before
        axes = list(range(before)) + list(range(max(before, ndim - after), max(before, ndim - after) + after))
    alen = rng.choice([0, 1, 2, 2, 3]) if sum(k in "aA" for k in pat) >= 2 else None
    out = []
    ci = 0
    for k in pat:
        if k == "N":
            out.append(["N"])
        elif k == "E":
            out.append(["E"])
        else:
            ax = axes[ci]
            ci += 1
            d = shape[ax] if ax < ndim else rng.choice([1, 2, 3])
            e = make_entry(rng, k, d, alen)
            if e is None:     # an in-range int on an empty axis does not exist
                if any(c in "aAbB" for c in pat):
                    return None      # (a slice in its place could separate the index arrays: outside the grammar)
                e = _slice(rng, d, +1)
            out.append(e)
    lens = {len(e[1]) for e in out if e[0] == "a"}
    if len(lens) > 1:
        return None                  # several index arrays must have one length (grammar of the property)
    return out


def all_caxes(ndim):
    out = []
    for k in range(1, ndim):
        out.extend([list(c) for c in itertools.combinations(range(ndim), k)])
    return out or [None]


OPS = [
    # (op string, number of base arrays, shape constraints maker)
    ("a @ b", "matmul"),
    ("a.sum(axis=AX)", "reduce"),
    ("a.max(axis=AX)", "reduce"),
    ("a.reshape(SHAPE)", "reshape"),
    ("a.transpose(PERM)", "transpose"),
    ("sparse.concatenate([a, b], axis=AX)", "concat"),
    ("a.asformat(FMT)", "convert"),
    ("a.T", "T"),
]


def derived_inputs(rng, n, extents):
    """inputs that are outputs of other operations: (base specs, op string, result ndim guess, result shape)"""
    out = []
    for _ in range(n):
        op, kind = rng.choice(OPS)
        fmt = rng.choice(["coo", "gcxs", "gcxs", "dok"])
        if kind == "matmul":
            m, k, p = (rng.choice([1, 2, 3, 5]) for _ in range(3))
            a = vlib.gen_array_spec(rng, shape=[m, k], fills=(0,), formats=("gcxs",), density=rng.choice([0.4, 0.7, 1.0]))
            b = vlib.gen_array_spec(rng, shape=[k, p], fills=(0,), formats=("gcxs",), density=rng.choice([0.4, 0.7, 1.0]))
            a["caxes"], b["caxes"] = [rng.choice([0, 1])], [rng.choice([0, 1])]
            out.append(([a, b], "a @ b", [m, p]))
            continue
        nd = rng.randint(1, 3)
        shape = [rng.choice(extents) for _ in range(nd)]
        a = vlib.gen_array_spec(rng, shape=shape, fills=(0, 3), formats=(fmt,))
        if kind == "reduce":
            if fmt == "dok":
                a["format"] = "coo"
            ax = rng.randrange(nd)
            if "max" in op and shape[ax] == 0:
                continue
            rs = shape[:ax] + shape[ax + 1:]
            out.append(([a], op.replace("AX", str(ax)), rs))
        elif kind == "reshape":
            size = 1
            for d in shape:
                size *= d
            cands = [[size]] + [[p, size // p] for p in (1, 2, 3) if size % p == 0] + \
                    [[p, q, size // (p * q)] for p in (1, 2) for q in (1, 2, 3) if size % (p * q) == 0]
            if fmt == "dok":
                a["format"] = "coo"
            rs = rng.choice(cands)
            out.append(([a], op.replace("SHAPE", repr(tuple(rs))), rs))
        elif kind == "transpose":
            perm = list(range(nd))
            rng.shuffle(perm)
            if fmt == "dok":
                a["format"] = "coo"
            out.append(([a], op.replace("PERM", repr(tuple(perm))), [shape[p] for p in perm]))
        elif kind == "T":
            if fmt == "dok":
                a["format"] = "coo"
            out.append(([a], op, shape[::-1]))
        elif kind == "concat":
            ax = rng.randrange(nd)
            shape2 = list(shape)
            shape2[ax] = rng.choice(extents)
            if fmt == "dok":
                a["format"] = "coo"
            b = vlib.gen_array_spec(rng, shape=shape2, fills=(a["fill"],), formats=(a["format"],))
            b["caxes"] = a["caxes"]
            rs = list(shape)
            rs[ax] = shape[ax] + shape2[ax]
            out.append(([a, b], op.replace("AX", str(ax)), rs))
        elif kind == "convert":
            to = rng.choice(["coo", "gcxs", "dok"])
            out.append(([a], op.replace("FMT", repr(to)), shape))
    return out


SCIPY_OPS = ["sparse.GCXS.from_scipy_sparse(m)", "sparse.GCXS(m)", "sparse.asarray(m, format='gcxs')",
             "sparse.asarray(m, format='csr')", "sparse.asarray(m, format='csc')",
             "sparse.GCXS(m, compressed_axes=[1])"]


def scipy_spec(rng, kind, fmt=None, shape=None):
    """(data, indices, indptr) of a CSR/CSC matrix, written down directly.
       kind: canonical (strictly increasing minor indices in every row), unsorted (some row out of order, no repeats),
             dups (non-decreasing with a repeated entry: SciPy's has_sorted_indices but not has_canonical_format),
             unsorted_dups (both)"""
    fmt = fmt or rng.choice(["csr", "csc"])
    shape = shape or [rng.choice([1, 2, 3, 4]), rng.choice([2, 3, 4, 5])]
    if kind != "canonical":
        shape = [max(shape[0], 2), max(shape[1], 2)]      # room for two entries in a row / column
    major, minor = (shape[0], shape[1]) if fmt == "csr" else (shape[1], shape[0])
    for _attempt in range(10000):
        data, indices, indptr = [], [], [0]
        marked = False
        for _ in range(major):
            k = rng.randint(0, min(minor, 3))
            cols = sorted(rng.sample(range(minor), k))
            if kind in ("dups", "unsorted_dups") and cols and rng.random() < 0.7:
                for _ in range(rng.randint(1, 2)):
                    cols.append(rng.choice(cols))
                cols.sort()
                marked = True
            if kind in ("unsorted", "unsorted_dups") and len(set(cols)) >= 2 and rng.random() < 0.8:
                c2 = list(cols)
                while c2 == sorted(c2):
                    rng.shuffle(c2)
                cols = c2
                marked = marked or kind == "unsorted"
            indices.extend(cols)
            data.extend(rng.choice([-3, -1, 1, 2, 4, 5]) for _ in cols)
            indptr.append(len(indices))
        if kind == "canonical" or marked:
            if kind == "unsorted_dups" and len(indices) == len(set(zip(_rows_of(indptr), indices, strict=True))):
                continue
            return {"fmt": fmt, "shape": shape, "data": data, "indices": indices, "indptr": indptr, "kind": kind}
    raise RuntimeError("scipy_spec: no matrix of kind " + kind)


def _rows_of(indptr):
    return [r for r in range(len(indptr) - 1) for _ in range(indptr[r + 1] - indptr[r])]


def scipy_cases(rng, tier):
    """indexing arrays that were produced from SciPy matrices: ints, slices (both signs), one index array"""
    cases = []
    n = 36 if tier == "quick" else 200
    kinds = ["dups", "dups", "canonical", "unsorted", "unsorted_dups", "dups"]
    for t in range(n):
        spec = scipy_spec(rng, kinds[t % len(kinds)])
        shape = spec["shape"]
        # positions SciPy holds more than once
        if spec["fmt"] == "csr":
            pos = list(zip(_rows_of(spec["indptr"]), spec["indices"], strict=True))
        else:
            pos = [(i, j) for j, i in zip(_rows_of(spec["indptr"]), spec["indices"], strict=True)]
        rep = [p for p in set(pos) if pos.count(p) > 1] or pos or [(0, 0)]
        i0, j0 = rng.choice(rep)
        directed = [
            [["i", i0], ["i", j0]],
            [["i", i0 - shape[0]], ["i", j0 - shape[1]]],
            [["i", i0]],
            [["s", None, None, None], ["i", j0]],
            [["i", i0], ["s", None, None, -1]],
            [["s", None, None, -1], ["s", None, None, rng.choice([1, 2, -2])]],
            [["E"], ["i", j0]],
            [["s", None, None, None], ["a", [j0, 0, j0], rng.random() < 0.5]],
            [["a", [i0, 0, i0], rng.random() < 0.5], ["s", None, None, None]],
            [["s", None, None, None], ["b", [c == j0 or rng.random() < 0.3 for c in range(shape[1])], True]],
        ]
        pats = [p for p in patterns(2, rng, "quick") if in_grammar_kinds(p)]
        rnd = []
        for _ in range(4):
            inst = instantiate(rng, rng.choice(pats), shape)
            if inst is not None:
                rnd.append(inst)
        ops = rng.sample(SCIPY_OPS, 2 if tier == "quick" else 4)
        for op in ops:
            for inst in rng.sample(directed, 5 if tier == "quick" else len(directed)) + rnd[:2 if tier == "quick" else 4]:
                cases.append({"scipy": spec, "base": [], "op": op, "index": inst, "cls": "scipy:" + spec["kind"]})
    return cases


def api_cases(tier, seed):
    rng = random.Random(seed * 7919 + 17)
    cases = []
    extents = [0, 1, 2, 3, 5]
    max_nd = 3 if tier == "quick" else 4
    reps = 1 if tier == "quick" else 2
    modes = [(0, None, False)] * 3 + [(1, None, False), (2, None, False)]
    fmts_cycle = itertools.cycle(["coo", "coo", "gcxs", "dok", "gcxs", "coo"])
    for nd in range(0, max_nd + 1):
        pats = patterns(nd, rng, tier)
        if nd == 4:
            pats = rng.sample(pats, min(len(pats), 700))
        ca_cycle = itertools.cycle(all_caxes(nd))
        for pat in pats:
            m = len(pat)
            mode_list = list(modes)
            # Ellipsis at every position (also when nothing is left for it to swallow); two ellipses sometimes
            for pos in range(m + 1):
                mode_list.append((rng.choice([0, 0, 1]), pos, False))
            mode_list.append((0, rng.randrange(m + 1), True))
            if tier == "quick" and nd >= 2:
                mode_list = rng.sample(mode_list, 4 if nd == 2 else 3)
            for mode in mode_list * reps:
                if mode[1] is None and not in_grammar_kinds(pat):
                    continue
                dpat = decorate(rng, pat, nd, mode)
                if not in_grammar_kinds(dpat):
                    continue
                shape = [rng.choice(extents) for _ in range(nd)]
                if rng.random() < 0.6:
                    shape = [max(d, rng.choice([1, 2, 3])) for d in shape]
                fmt = next(fmts_cycle)
                spec = vlib.gen_array_spec(rng, shape=shape, fills=(0, 0, 3, -1), formats=(fmt,))
                if fmt == "gcxs" and nd >= 2:
                    spec["caxes"] = next(ca_cycle)
                inst = instantiate(rng, dpat, shape)
                if inst is None:
                    continue
                cases.append({"base": [spec], "op": None, "index": inst,
                              "unwrap": rng.random() < 0.3, "cls": "".join(dpat)})
    # unsigned coordinates (D6): slices of both signs, ints, arrays
    for _ in range(60 if tier == "quick" else 300):
        nd = rng.randint(1, 3)
        shape = [rng.choice([1, 2, 3, 5]) for _ in range(nd)]
        spec = vlib.gen_array_spec(rng, shape=shape, fills=(0, 3), formats=("coo",), density=rng.choice([0.4, 0.7, 1.0]))
        pat = [rng.choice("isnfa") for _ in range(rng.randint(1, nd))]
        if not in_grammar_kinds(pat):
            continue
        inst = instantiate(rng, pat, shape)
        if inst is None:
            continue
        cases.append({"base": [spec], "op": None, "idx_dtype": "uint8", "index": inst,
                      "cls": "u8:" + "".join(pat)})
    # GCXS with unsigned index arrays (numba typing of convert_to_flat)
    for _ in range(20 if tier == "quick" else 100):
        nd = rng.randint(2, 3)
        shape = [rng.choice([1, 2, 3, 5]) for _ in range(nd)]
        spec = vlib.gen_array_spec(rng, shape=shape, fills=(0, 3), formats=("gcxs",), density=rng.choice([0.4, 0.7, 1.0]))
        pat = [rng.choice("isnf") for _ in range(rng.randint(1, nd))]
        cases.append({"base": [spec], "op": None, "idx_dtype": "uint8", "index": instantiate(rng, pat, shape),
                      "cls": "u8g:" + "".join(pat)})
    # inputs that are outputs of other operations
    for base, op, rshape in derived_inputs(rng, 500 if tier == "quick" else 3000, [1, 2, 3, 5]):
        nd = len(rshape)
        pats = patterns(nd, rng, "quick")
        for _ in range(2):
            pat = rng.choice(pats)
            mode = rng.choice([(0, None, False)] * 3 + [(1, None, False), (0, rng.randrange(len(pat) + 1), False)])
            dpat = decorate(rng, pat, nd, mode)
            if not in_grammar_kinds(dpat):
                continue
            inst = instantiate(rng, dpat, rshape)
            if inst is None:
                continue
            cases.append({"base": base, "op": op, "index": inst, "cls": "op:" + "".join(dpat)})
    # inputs produced from SciPy matrices written down as (data, indices, indptr)
    cases.extend(scipy_cases(rng, tier))
    # index arrays of a narrow dtype on an axis whose extent does not fit that dtype (posify_index casts to intp
    # since fix 5e6e40f: ordinary cases now)
    long1 = {"shape": [200], "coords": [[0], [5], [100], [199]], "data": [1, 2, 3, 4], "fill": 0, "caxes": None}
    long2 = {"shape": [2, 200], "coords": [[0, 5], [1, 100], [1, 199]], "data": [2, 3, 4], "fill": 0, "caxes": [0]}
    for fmt in ("coo", "gcxs", "dok"):
        for dt, vals in (("int8", [-1, 5]), ("int8", [100]), ("int16", [-1, 5, 100]), ("uint8", [199, 0])):
            cases.append({"base": [dict(long1, format=fmt)], "op": None, "index": [["a", vals, dt]], "cls": "narrow:" + dt})
            cases.append({"base": [dict(long2, format=fmt)], "op": None, "index": [["s", None, None, None], ["a", vals, dt]],
                          "cls": "narrow:" + dt})
    # directed: the documented defect witnesses
    a5 = {"shape": [5], "coords": [[0], [1], [2], [3], [4]], "data": [1, 2, 3, 4, 5], "fill": 0, "caxes": None}
    y = vlib.gen_array_spec(random.Random(1), shape=[2, 3, 4], fills=(0,), density=1.0)
    z0 = {"shape": [], "coords": [[]], "data": [5], "fill": 0, "caxes": None}
    w = vlib.gen_array_spec(random.Random(2), shape=[2, 3, 3, 2], fills=(0,), density=0.7, formats=("coo",))
    cases.append({"base": [w], "op": None, "index": [["s", 0, 1, None], ["a", [0, 1], False], ["a", [1, 0], False]],
                  "cls": "directed"})
    for fmt in ("coo", "gcxs", "dok"):
        cases.append({"base": [dict(a5, format=fmt)], "op": None, "index": [["s", -7, -6, -2]], "cls": "directed"})
        cases.append({"base": [dict(a5, format=fmt)], "op": None, "index": [["s", 5, -1, -1]], "cls": "directed"})
        cases.append({"base": [dict(a5, format=fmt)], "op": None, "index": [], "cls": "directed"})
        cases.append({"base": [dict(a5, format=fmt)], "op": None, "index": [["a", [-1, 0, 0], False]], "cls": "directed"})
        cases.append({"base": [dict(y, format=fmt, caxes=[0] if fmt == "gcxs" else None)], "op": None,
                      "index": [["a", [0, 1], False], ["a", [1, 2], False]], "cls": "directed"})
        cases.append({"base": [dict(y, format=fmt, caxes=[0] if fmt == "gcxs" else None)], "op": None,
                      "index": [["i", 0], ["N"], ["i", -3], ["i", 1]], "cls": "directed"})
        cases.append({"base": [dict(y, format=fmt, caxes=[0] if fmt == "gcxs" else None)], "op": None,
                      "index": [["E"], ["i", 1], ["i", 2], ["i", 3]], "cls": "directed"})
        cases.append({"base": [dict(z0, format=fmt)], "op": None, "index": [], "cls": "directed"})
        cases.append({"base": [dict(z0, format=fmt)], "op": None, "index": [["E"]], "cls": "directed"})
    return cases


def replay_of(case):
    if case.get("scipy"):
        key = index_py(case["index"])
        return ("import sys; sys.path.insert(0,'/verif/tools'); sys.path.insert(0,'/verif/tools/props'); import sparse, numpy as np, scipy.sparse as sp; "
                "from props.c02_index import _scipy_matrix; " + f"m=_scipy_matrix({case['scipy']!r}); ref=m.toarray(); m=_scipy_matrix({case['scipy']!r}); "
                f"x={case['op']}; k={key}; print('scipy/numpy:', repr(ref[k])); r=x[k]; "
                "print('sparse:', repr(r), repr(r.todense()) if hasattr(r,'todense') else ''); "
                "print('stored:', x.data, x.indices, x.indptr, 'todense ok:', np.array_equal(x.todense(), ref))")
    specs = []
    for i, s in enumerate(case["base"]):
        specs.append(f"{'abcd'[i]}=vlib.build_array({s!r}" + (f", idx_dtype={case['idx_dtype']!r}" if case.get("idx_dtype") else "") + ")")
    x = case["op"] or "a"
    key = index_py(case["index"])
    if len(case["index"]) == 1 and case.get("unwrap"):
        key = entry_py(case["index"][0])
    return ("import sys; sys.path.insert(0,'/verif/tools'); import vlib, sparse, numpy as np; " + "; ".join(specs) +
            f"; x={x}; k={key}; d=x.todense(); print('numpy:', repr(d[k]) if True else 0); r=x[k]; "
            "print('sparse:', repr(r), repr(r.todense()) if hasattr(r,'todense') else '')")


# ------------------------------------------------------------------ kernel-level cases
def norm_row(rng, d, kind=None):
    """a row [start, stop, step] as normalize_index would hand it to the kernels, for an axis of extent d"""
    kind = kind or rng.choice("iss-")
    if kind == "i" and d > 0:
        i = rng.randrange(d)
        return [i, i + 1, 1]
    st = rng.choice([1, 1, 2, 3]) if kind != "-" else rng.choice([-1, -2, -3])
    a = rng.choice([None] + list(range(-d - 1, d + 2)))
    b = rng.choice([None] + list(range(-d - 1, d + 2)))
    s, e, t = slice(a, b, st).indices(d)
    return [s, e, t]


def kernel_cases(tier, seed):
    rng = random.Random(seed * 104729 + 5)
    cases = []
    n = 700 if tier == "quick" else 5000
    for _ in range(n):
        nd = rng.randint(1, 3)
        shape = [rng.choice([1, 2, 3, 5]) for _ in range(nd)]
        spec = vlib.gen_array_spec(rng, shape=shape, density=rng.choice([0.0, 0.2, 0.5, 0.8, 1.0]))
        pts = spec["coords"]
        nrows = rng.randint(0, nd)
        inds = [norm_row(rng, shape[i]) for i in range(nrows)]
        cases.append({"k": "mask", "pts": pts, "ndim": nd, "inds": inds})
        if nrows >= 1 and rng.random() < 0.6:
            # _get_mask_pairs on the whole range, then on its own output one axis deeper
            cases.append({"k": "pairs", "starts": [0], "stops": [len(pts)], "c": [p[0] for p in pts], "t": inds[0],
                          "chain": [[p[1] for p in pts], inds[1]] if nrows >= 2 else None})
        # _filter_pairs on arbitrary ranges
        k = rng.randint(0, 3)
        cuts = sorted(rng.randrange(len(pts) + 1) for _ in range(2 * k))
        cases.append({"k": "filter", "starts": cuts[0::2], "stops": cuts[1::2], "pts": pts, "ndim": nd, "inds": inds})
        k = rng.randint(0, 5)
        cuts = sorted(rng.randrange(12) for _ in range(2 * k))
        if rng.random() < 0.5:      # force adjacency
            for j in range(1, k):
                if rng.random() < 0.5:
                    cuts[2 * j] = cuts[2 * j - 1]
        cases.append({"k": "join", "starts": cuts[0::2], "stops": cuts[1::2]})
    for _ in range(n):
        nrows, ncols = rng.randint(0, 4), rng.choice([1, 2, 3, 5, 8])
        indptr, indices = [0], []
        for _r in range(nrows):
            row = sorted(rng.sample(range(ncols), rng.randint(0, ncols)))
            indices += row
            indptr.append(len(indices))
        rows = [rng.randrange(nrows) for _ in range(rng.randint(0, 4))] if nrows else []
        starts = [indptr[r] for r in rows]
        ends = [indptr[r + 1] for r in rows]
        col_sorted = sorted(rng.sample(range(ncols), rng.randint(0, ncols)))
        cases.append({"k": "slicing", "indices": indices, "starts": starts, "ends": ends, "col": col_sorted})
        col_any = [rng.randrange(ncols) for _ in range(rng.randint(0, 5))]
        cases.append({"k": "array", "indices": indices, "starts": starts, "ends": ends, "col": rng.choice([col_any, col_sorted])})
    for _ in range(n // 2):
        nd = rng.randint(1, 3)
        shape = [rng.choice([1, 2, 3, 5]) for _ in range(nd)]
        inds = [[rng.randrange(d) for _ in range(rng.choice([0, 1, 1, 2, 3]))] for d in shape]
        cases.append({"k": "flat", "inds": inds, "shape": shape})
    return cases


def triple_lit(t):
    return vpair(vZ(t[0]), vZ(t[1]), vZ(t[2]))


def kernel_lit(c, r):
    k = c["k"]
    pl = lambda pts: vlist(pts, vlist)  # noqa: E731
    if k == "mask":
        return f"KMask {pl(c['pts'])} {vlist(c['inds'], triple_lit)} {vbool(r['is_slice'])} {vlist(r['m'])}"
    if k == "pairs":
        return (f"KPairs {vlist(c['starts'])} {vlist(c['stops'])} {vlist(c['c'])} {triple_lit(c['t'])} "
                f"{vlist(r['starts'])} {vlist(r['stops'])} {vZ(r['n'])}")
    if k == "filter":
        return f"KFilter {vlist(c['starts'])} {vlist(c['stops'])} {pl(c['pts'])} {vlist(c['inds'], triple_lit)} {vlist(r['m'])}"
    if k == "join":
        return f"KJoin {vlist(c['starts'])} {vlist(c['stops'])} {vlist(r['starts'])} {vlist(r['stops'])}"
    if k == "flat":
        return f"KFlat {vlist(c['inds'], vlist)} {vlist(c['shape'])} {vlist(r['out'])}"
    tag = "KSlicing" if k == "slicing" else "KArray"
    return (f"{tag} {vlist(c['indices'])} {vlist(c['starts'])} {vlist(c['ends'])} {vlist(c['col'])} "
            f"{vlist(r['pos'])} {vlist(r['cols'])} {vlist(r['indptr'])}")


# ------------------------------------------------------------------ evaluation inside Coq
IMPORTS = "From Verif Require Import Py PySlice Slicing Shape COO GCXS NpIndex CooIndex GcxsIndex GcxsGetitem DokGetitem SArr C02IndexJudge."


def judge_and_tags(build, name, case_type, judge_fn, tag_fn, lits, chunk=400):
    header = ("From Coq Require Import ZArith List Bool.\n" + IMPORTS + "\nFrom Verif Require Import Judge.\n"
              "Import ListNotations.\nOpen Scope Z_scope.\nSet Printing Width 1000000.\nSet Printing Depth 1000000.\n")
    chunks = []
    for k in range(0, len(lits), chunk):
        body = f"Definition cases : list ({case_type}) := [\n" + ";\n".join(lits[k:k + chunk]) + "].\n"
        body += f"Eval vm_compute in (run_judge ({judge_fn}) cases).\n"
        if tag_fn:
            body += f"Eval vm_compute in (run_tags ({tag_fn}) cases).\n"
        chunks.append(body)
    outs = build.eval_cases(name, header, chunks, timeout=600)
    verdicts, tags = [], []
    for k, out in enumerate(outs):
        ev = vlib.parse_eval_lists(out)
        if len(ev) != (2 if tag_fn else 1):
            raise vlib.CoqEvalError(f"unexpected Coq output for {name}_{k}: {out[-800:]}")
        for m in re.finditer(r"\(\s*(-?\d+)\s*,\s*(-?\d+)\s*\)", ev[0]):
            verdicts.append((k * chunk + int(m.group(1)), int(m.group(2))))
        if tag_fn:
            tags.extend(int(t) for t in re.findall(r"-?\d+", ev[1]))
    return verdicts, tags


TAG_FMT = {0: "coo", 1: "gcxs", 2: "dok"}
TAG_OUT = {0: "IndexError", 1: "other-error", 2: "scalar", 3: "array"}
TAG_MASK = {0: "-", 1: "mask=slice", 2: "mask=list", 3: "one-index-array", 4: "several-index-arrays", 5: "returns-x"}


def tag_name(t):
    if t < 0:
        return "bad"
    return f"{TAG_FMT.get(t // 1000, '?')}/{TAG_OUT.get(t // 100 % 10, '?')}/{TAG_MASK.get(t // 10 % 10, '?')}/sorted={t % 10}"


def campaign_index(build, tier, seed, report, budget=1):
    viol = []
    cov = {}
    # ---------------- API level
    cases = api_cases(tier, seed)
    if budget > 1:
        cases = cases + api_cases(tier, seed + 1) + api_cases(tier, seed + 2)
    res = vlib.run_impl("props.c02_index", "impl_getitem", cases, workers=6)
    kept, lits, skipped = [], [], {}
    for c, r in zip(cases, res, strict=True):
        if r is None or "skip" in r or "inp" not in r:
            why = (r or {}).get("skip") or (r or {}).get("exc") or ("hang" if (r or {}).get("hang") else "?")
            if (r or {}).get("hang") or (r or {}).get("crash") is not None:
                viol.append({"property": "C02", "op": "getitem", "kind": "value", "clause": None,
                             "what": "hang/crash while building or indexing", "case": c, "impl": r,
                             "replay_py": replay_of(c)})
            skipped[why] = skipped.get(why, 0) + 1
            continue
        fmt = FMT[r["inp"]["k"]]
        unsigned = str(r["inp"].get("idx_dtype", "")).startswith("uint")
        if r.get("todense_ok") is False:
            viol.append({"property": "C02", "op": "getitem", "kind": "value", "clause": None,
                         "what": "the array produced from the SciPy matrix does not densify to m.toarray() (producer: " + str(c.get("op")) + ")",
                         "producer": c.get("op"), "case": {"scipy": c.get("scipy"), "input": r["inp"]}, "replay_py": replay_of(c)})
        kept.append((c, r))
        lits.append(vpair(vZ(fmt), vbool(unsigned), vlib.sarr_lit(r["inp"]), index_lit(c["index"]),
                          vlib.sarr_lit(r["out"]), vlib.sarr_lit(r["np"])))
    verdicts, tags = judge_and_tags(build, "c02_getitem", "gcase", "judge_getitem", "tag_getitem", lits)
    hist = {}
    n_outside = 0
    for t in tags:
        hist[tag_name(t)] = hist.get(tag_name(t), 0) + 1
    for i, code in verdicts:
        c, r = kept[i]
        mdiff, code = code // 1000, code % 1000
        kind, cl = code % 10, code // 10
        if mdiff and cl not in (9,):
            viol.append({"property": "C02", "op": "getitem", "kind": "representation",
                         "clause": CLAUSES.get(cl, f"clause{cl}"),
                         "what": "the model does not reproduce the implementation's answer on an out-of-domain case",
                         "format": r["inp"]["k"], "producer": c.get("op"),
                         "case": {"index": index_py(c["index"]), "input": r["inp"], "class": c.get("cls")},
                         "impl": r["out"], "expected_numpy": r["np"], "replay_py": replay_of(c)})
        if cl == 9 and kind != 9:
            n_outside += 1       # the index left the property's grammar (judge's in_grammar): not a violation
            continue
        what = KIND_WHAT.get(kind)
        vkind = KINDS.get(kind, "value")
        clause_name = CLAUSES.get(cl, f"clause{cl}")
        if cl == 15:
            vkind = "value" if r.get("agree") is False else "representation"
            what = (("x[index] differs from NumPy on m.toarray(); reason: " if r.get("agree") is False else "") + "the array being indexed is not in canonical form (unsorted or REPEATED entries inside a row, or inconsistent "
                    "indptr): a well-formedness failure of the producer " + str(c.get("op") or "constructor") +
                    "; indexing such an array reads only the first of the repeated entries")
        if cl == 14:
            # the output happens to agree with NumPy, but the jitted _compute_multi_axis_multi_mask read indices[ixx]
            # and wrote full_idx[ix] past the end of both arrays (its py_func raises IndexError on the same input)
            vkind, what = "value", "unchecked out-of-bounds read and write in a nopython kernel (memory safety)"
        viol.append({"property": "C02", "op": "getitem", "kind": vkind,
                     "clause": clause_name, "what": what,
                     "format": r["inp"]["k"], "producer": c.get("op"),
                     "case": {"index": index_py(c["index"]), "input": r["inp"], "class": c.get("cls"), "scipy": c.get("scipy")},
                     "impl": r["out"], "expected_numpy": r["np"], "replay_py": replay_of(c)})
    # ---------------- kernel level
    kcases = kernel_cases(tier, seed)
    kres = vlib.run_impl("props.c02_index", "impl_kernel", kcases, workers=6)
    # second stage of the pairs chain: feed the kernel its own output one axis deeper
    chain = []
    for c, r in zip(kcases, kres, strict=True):
        if c["k"] == "pairs" and c.get("chain") and "starts" in r and r["starts"]:
            chain.append({"k": "pairs", "starts": r["starts"], "stops": r["stops"], "c": c["chain"][0], "t": c["chain"][1]})
    cres = vlib.run_impl("props.c02_index", "impl_kernel", chain, workers=6) if chain else []
    kall = list(zip(kcases, kres, strict=True)) + list(zip(chain, cres, strict=True))
    klits, kkept = [], []
    for c, r in kall:
        if r is None or "exc" in r or r.get("hang") or "crash" in r:
            viol.append({"property": "C02", "op": "kernel:" + c["k"], "kind": "representation", "clause": None,
                         "what": "kernel raised / hung", "case": c, "impl": r, "replay_py": "see case"})
            continue
        kkept.append((c, r))
        klits.append(kernel_lit(c, r))
    kverd, _ = judge_and_tags(build, "c02_kernels", "kcase", "judge_kernel", None, klits)
    for i, code in kverd:
        c, r = kkept[i]
        viol.append({"property": "C02", "op": "kernel:" + c["k"], "kind": "representation" if code == 1 else "value",
                     "clause": None, "what": "kernel output differs from the model" + (" and from the filter spec" if code == 2 else ""),
                     "case": c, "impl": r, "replay_py": "see case (tools/props/c02_index.py:impl_kernel)"})
    khist = {}
    for c, _r in kkept:
        khist["kernel:" + c["k"]] = khist.get("kernel:" + c["k"], 0) + 1
    cov["evaluations"] = len(kept) + len(kkept)
    cov["distinct_nontrivial"] = len({(index_py(c["index"]), vlib.digest(r["inp"])) for c, r in kept if c["index"]}) + \
        len({vlib.digest(c) for c, _r in kkept})
    cov["rule"] = ("index tuples: every pattern of entry kinds (int / in-range and out-of-range, slice of either sign with "
                   "in- and out-of-range bounds, full slice, 1-D int array with repeats/negatives/out-of-range, bool array "
                   "of right/wrong length, several adjacent int arrays) over shapes of 0..3 axes (4 thorough) with extents "
                   "{0,1,2,3,5}, None inserted at random positions, Ellipsis at every position, two ellipses, too many "
                   "indices; formats COO / GCXS (compressed axes cycled through every choice) / DOK, fills {0,3,-1}; "
                   "uint8 coordinates; inputs that are outputs of matmul/reduce/reshape/transpose/concatenate/asformat; "
                   "kernels on raw arrays. distinct = distinct (index, input representation) pairs + distinct kernel inputs")
    cov["skipped_inputs"] = skipped
    cov["outside_grammar_dropped"] = n_outside
    cov["branch_tags"] = dict(sorted(hist.items()))
    cov["branch_tags"].update(khist)
    cov["classes"] = len({c.get("cls") for c, _ in kept})
    cov["samples"] = [dict(index=index_py(c["index"]), input=r["inp"], out=r["out"]) for c, r in kept[:: max(1, len(kept) // 3)][:3]]
    report.setdefault("index_coverage", {}).update(cov)
    return viol
