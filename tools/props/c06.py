"""C06 — every returned array is in canonical, self-consistent form.

Campaign: a runtime canonicity judge.  The Coq booleans `sarr_wfb` / `sarr_prunedb` of Corr/SArr.v
(= the canonical-form predicates of Model/COO.v, Model/GCXS.v) and `nnz = #non-fill` computed from
`sarr_flat` judge the RAW arrays (coords/data/shape, data/indices/indptr/compressed axes, DOK items)
of every result of

 (a) a broad single-operation sweep (element-wise incl. broadcasting and non-zero fills, getitem,
     reductions incl. nan-reductions, dot/matmul/tensordot over operand kinds and return types,
     shape manipulation, joins over axes and format mixes, sort/unique/argmax/take, conversions
     between all formats and compressed axes, creation functions, triu/tril/diagonal/diagonalize/
     kron/where/clip/round/astype) on COO, GCXS (every compressed-axes choice) and DOK operands,
 (b) random COMPOSED programs (depth <= 4 quick / <= 8 thorough) built type-directed from the same
     operations: every intermediate result is judged, and the dense meaning of every step is
     compared with NumPy applied to the same program,
 (c) COO.__init__ itself on raw (also promise-violating) inputs against the model `coo_ctor`,
 (d) GCXS @ GCXS against the kernel model `dot_csr_csr` (the producer of former finding D8) and
     tensordot(csc, ndarray, return_type=GCXS) against `dot_csc_ndarray` (repaired by fix 03cd171),

The suite's `is_canonical` / `assert_nnz` are not used."""
import json
import os
import random
import re

import vlib
from vlib import vZ, vbool, vlist, vpair

LEVEL = "proof"
TRUSTED_BASE = [
    "Coq 8.16.1 kernel + vm_compute (case evaluation, table obligations all_promises_justified / "
    "no_stale_justifications); no native_compute",
    "axioms: none (Print Assumptions: Closed under the global context for every C06 theorem)",
    "tools/sitegen/ctor_sites.py (AST walk of sparse/numba_backend: constructor calls, their sorted=/has_duplicates=/"
    "prune=/fill_value= arguments bound against the __init__ signatures, and the signatures' defaults)",
    "Model/Ctor.v:site_justification — the hand-written claim that a call site is an instance of the cited schema "
    "(the schemas are proved; that producer P instantiates schema S is reviewed, not proved, except reshape, "
    "triu/tril-style selection, concatenate(axis=0), full, from_numpy and csr@csr whose models are in the development); "
    "sites marked Unjustified are covered by the run-time judge only",
    "Corr/SArr.v sarr_wfb / sarr_prunedb / sarr_flat as the reading of the property's canonical form; "
    "tools/vlib.py plain()/sarr_lit (raw arrays -> Coq literals)",
    "NumPy as the reference for the dense value of composed programs (differential part only)",
    "correspondence harness tools/props/c06.py, tools/vlib.py",
]
ASSUMPTIONS = [
    "element values are integers (or NaN tokens for the nan-reductions); dtype promotion and float rounding are not modelled",
    "operations are applied to operands the campaign builds; third-party inputs (scipy matrices, npz files) carry "
    "external promises (listed as Unjustified sites)",
]

FILLS = (0, 0, 0, 3, -1)


# =============================================================================== operation catalogue
def _sp():
    import sparse
    return sparse


def _np():
    import numpy
    return numpy


OPS = {}


def op(name, arity, np_fn, sp_fn, gen=None, **kw):
    d = dict(name=name, arity=arity, np=np_fn, sp=sp_fn, gen=gen or (lambda rng, xs, ctx: {}),
             elem=False, zero=False, ret="sparse", fill="same", second=None, minnd=0)
    d.update(kw)
    OPS[name] = d


def dec_index(idx):
    np = _np()
    out = []
    for it in idx:
        if it[0] == "i":
            out.append(it[1])
        elif it[0] == "s":
            out.append(slice(it[1], it[2], it[3]))
        elif it[0] == "n":
            out.append(None)
        elif it[0] == "e":
            out.append(Ellipsis)
        elif it[0] == "a":
            out.append(np.array(it[1], dtype=np.intp))
    return tuple(out)


def gen_index(rng, xs, ctx):
    x = xs[0]
    if x.ndim == 0:
        return None
    items = []
    used_arr = False
    naxes = rng.randint(0, x.ndim)
    for ax in range(naxes):
        d = x.shape[ax]
        r = rng.random()
        if d == 0:
            items.append(["s", None, None, rng.choice([None, 1, -1, 2])])
        elif r < 0.25 and (ctx["wild"] or not used_arr):
            # (NumPy moves the index-array dimension to the front when an integer and an index array are separated by a
            # slice; the library keeps it in place — an indexing-semantics matter of C02, kept out of the value reference)
            items.append(["i", rng.randint(-d, d - 1)])
        elif r < 0.8:
            a = rng.choice([None, None] + list(range(-d - 1, d + 2)))
            b = rng.choice([None, None] + list(range(-d - 1, d + 2)))
            c = rng.choice([None, 1, 1, 2, 3, -1, -1, -2])
            items.append(["s", a, b, c])
        elif not used_arr and (ctx["wild"] or not any(it[0] == "i" for it in items)):
            used_arr = True
            items.append(["a", [rng.randint(-d, d - 1) for _ in range(rng.randint(1, 3))]])
        else:
            items.append(["s", None, None, None])
    if rng.random() < 0.3:
        items.insert(rng.randint(0, len(items)), ["n"])
    if rng.random() < 0.2 and len([i for i in items if i[0] != "n"]) < x.ndim:
        items.insert(rng.randint(0, len(items)), ["e"])
    return {"idx": items}


def gen_axis(rng, xs, ctx, allow_none=True, allow_tuple=True):
    x = xs[0]
    choices = []
    if allow_none:
        choices.append(None)
    if x.ndim:
        choices += [rng.randint(-x.ndim, x.ndim - 1) for _ in range(2)]
        if allow_tuple and x.ndim >= 2:
            k = rng.randint(1, x.ndim)
            choices.append(sorted(rng.sample(range(x.ndim), k)))
    if not choices:
        return None
    return rng.choice(choices)


def _ax(a):
    return tuple(a) if isinstance(a, list) else a


def gen_reduce(rng, xs, ctx):
    x = xs[0]
    ax = gen_axis(rng, xs, ctx)
    if not ctx["wild"]:
        red = range(x.ndim) if ax is None else ([a % x.ndim for a in ax] if isinstance(ax, list) else [ax % x.ndim])
        if any(x.shape[a] == 0 for a in red) or x.size == 0:
            return None
    return {"axis": ax, "keepdims": rng.random() < 0.3}


def reduce_op(name):
    op(name, 1,
       lambda p, x, name=name: getattr(_np(), name)(x, axis=_ax(p["axis"]), keepdims=p["keepdims"]),
       lambda p, x, name=name: getattr(_sp(), name)(x, axis=_ax(p["axis"]), keepdims=p["keepdims"]),
       gen_reduce, ret="any", fill="reduce")


for _n in ("sum", "prod", "max", "min", "any", "all", "nansum", "nanmax", "nanmin", "nanprod"):
    reduce_op(_n)
op("mean", 1, lambda p, x: None, lambda p, x: _sp().mean(x, axis=_ax(p["axis"]), keepdims=p["keepdims"]), gen_reduce,
   ret="noref", fill="unknown")


def elem1(name, np_fn, sp_fn, gen=None):
    op(name, 1, np_fn, sp_fn, gen, elem=True, fill="elem")


elem1("negative", lambda p, x: _np().negative(x), lambda p, x: -x)
elem1("abs", lambda p, x: _np().abs(x), lambda p, x: abs(x))
elem1("sign", lambda p, x: _np().sign(x), lambda p, x: _sp().sign(x))
elem1("square", lambda p, x: _np().square(x), lambda p, x: _sp().square(x))
elem1("add_scalar", lambda p, x: x + p["c"], lambda p, x: x + p["c"], lambda rng, xs, ctx: {"c": rng.choice([1, -2, 3])})
elem1("mul_scalar", lambda p, x: x * p["c"], lambda p, x: x * p["c"], lambda rng, xs, ctx: {"c": rng.choice([0, 2, -1])})
elem1("gt_scalar", lambda p, x: x > p["c"], lambda p, x: x > p["c"], lambda rng, xs, ctx: {"c": rng.choice([0, 1, -1])})
elem1("eq_scalar", lambda p, x: x == p["c"], lambda p, x: x == p["c"], lambda rng, xs, ctx: {"c": rng.choice([0, 1, 3])})
elem1("astype", lambda p, x: x.astype(p["dt"]), lambda p, x: x.astype(p["dt"]),
      lambda rng, xs, ctx: {"dt": rng.choice(["int32", "float64", "int64", "bool"])})
elem1("round", lambda p, x: _np().round(x), lambda p, x: _sp().round(x))
elem1("clip", lambda p, x: _np().clip(x, p["lo"], p["hi"]), lambda p, x: _sp().clip(x, p["lo"], p["hi"]),
      lambda rng, xs, ctx: {"lo": rng.choice([-1, 0, 1]), "hi": rng.choice([1, 2, 4])})
elem1("where_scalar", lambda p, x: _np().where(x > 0, x, p["c"]), lambda p, x: _sp().where(x > 0, x, p["c"]),
      lambda rng, xs, ctx: {"c": rng.choice([0, 0, 7])})
elem1("isnan", lambda p, x: _np().isnan(x), lambda p, x: _sp().isnan(x))
elem1("logical_not", lambda p, x: _np().logical_not(x), lambda p, x: _sp().logical_not(x))


def elem2(name, fn):
    op(name, 2, lambda p, x, y, fn=fn: getattr(_np(), fn)(x, y), lambda p, x, y, fn=fn: getattr(_np(), fn)(x, y),
       elem=True, fill="elem", second="broadcast")


for _n, _f in (("add", "add"), ("subtract", "subtract"), ("multiply", "multiply"), ("maximum", "maximum"),
               ("minimum", "minimum"), ("equal", "equal"), ("not_equal", "not_equal"), ("less", "less"),
               ("logical_and", "logical_and"), ("logical_or", "logical_or")):
    elem2(_n, _f)
op("where3", 2, lambda p, x, y: _np().where(x > 0, x, y), lambda p, x, y: _sp().where(x > 0, x, y),
   elem=True, fill="elem", second="broadcast")

op("getitem", 1, lambda p, x: x[dec_index(p["idx"])], lambda p, x: x[dec_index(p["idx"])], gen_index, ret="any")


# ---- products
def gen_tensordot(rng, xs, ctx):
    rt = rng.choice([None, None, "coo", "gcxs", "dense"])
    return {"axes": ctx.get("axes", 1), "rt": rt}


def _rt(s):
    sp = _sp()
    return {None: None, "coo": sp.COO, "gcxs": sp.GCXS, "dense": _np().ndarray}[s]


op("matmul", 2, lambda p, x, y: x @ y, lambda p, x, y: x @ y, zero=True, second="matmul", ret="any", fill="zero", minnd=1)
op("dot", 2, lambda p, x, y: _np().dot(x, y), lambda p, x, y: _sp().dot(x, y), zero=True, second="matmul", ret="any",
   fill="zero", minnd=1)
op("tensordot", 2, lambda p, x, y: _np().tensordot(x, y, axes=p["axes"]),
   lambda p, x, y: _sp().tensordot(x, y, axes=p["axes"], return_type=_rt(p["rt"])),
   gen_tensordot, zero=True, second="tensordot", ret="any", fill="zero", minnd=1)
op("matmul_dense", 1, lambda p, x: x @ _np().array(p["b"], dtype=x.dtype), lambda p, x: x @ _np().array(p["b"], dtype=x.dtype),
   lambda rng, xs, ctx: None if xs[0].ndim < 1 or xs[0].ndim > 2 else
   {"b": [[rng.choice([0, 0, 1, 2, -1]) for _ in range(rng.choice([1, 2, 3]))] for _ in range(xs[0].shape[-1])]},
   zero=True, ret="any", fill="zero", minnd=1)
op("rmatmul_dense", 1, lambda p, x: _np().array(p["a"], dtype=x.dtype) @ x, lambda p, x: _np().array(p["a"], dtype=x.dtype) @ x,
   lambda rng, xs, ctx: None if xs[0].ndim != 2 else
   {"a": [[rng.choice([0, 0, 1, 2, -1]) for _ in range(xs[0].shape[0])] for _ in range(rng.choice([1, 2, 3]))]},
   zero=True, ret="any", fill="zero", minnd=2)
op("tensordot_dense", 1,
   lambda p, x: _np().tensordot(x, _np().array(p["b"], dtype=x.dtype), axes=1),
   lambda p, x: _sp().tensordot(x, _np().array(p["b"], dtype=x.dtype), axes=1, return_type=_rt(p["rt"])),
   lambda rng, xs, ctx: None if xs[0].ndim < 1 else
   {"b": [[rng.choice([0, 0, 1, 2, -1]) for _ in range(rng.choice([1, 2]))] for _ in range(xs[0].shape[-1])],
    "rt": rng.choice([None, "coo", "gcxs", "dense"])},
   zero=True, ret="any", fill="zero", minnd=1)
op("rtensordot_dense", 1,
   lambda p, x: _np().tensordot(_np().array(p["a"], dtype=x.dtype), x, axes=1),
   lambda p, x: _sp().tensordot(_np().array(p["a"], dtype=x.dtype), x, axes=1, return_type=_rt(p["rt"])),
   lambda rng, xs, ctx: None if xs[0].ndim < 1 else
   {"a": [[rng.choice([0, 0, 1, 2, -1]) for _ in range(xs[0].shape[0])] for _ in range(rng.choice([1, 2]))],
    "rt": rng.choice([None, "coo", "gcxs", "dense"])},
   zero=True, ret="any", fill="zero", minnd=1)
op("kron", 2, lambda p, x, y: _np().kron(x, y), lambda p, x, y: _sp().kron(x, y), zero=True, second="any", fill="zero")
op("outer", 2, lambda p, x, y: _np().outer(x, y), lambda p, x, y: _sp().outer(x, y),
   lambda rng, xs, ctx: {} if xs[0].ndim == 1 and xs[1].ndim == 1 else None, zero=True, second="vector", fill="zero", minnd=1)
op("einsum_mm", 2, lambda p, x, y: _np().einsum("ij,jk->ik", x, y), lambda p, x, y: _sp().einsum("ij,jk->ik", x, y),
   lambda rng, xs, ctx: {} if xs[0].ndim == 2 and xs[1].ndim == 2 else None, zero=True, second="matmul", fill="zero", minnd=2)
op("einsum_tr", 1, lambda p, x: _np().einsum(p["s"], x), lambda p, x: _sp().einsum(p["s"], x),
   lambda rng, xs, ctx: {"s": rng.choice(["ij->ji", "ij->i", "ji->i", "ij->"])} if xs[0].ndim == 2 else None,
   zero=True, ret="any", fill="zero", minnd=2)


# ---- shape manipulation
def gen_perm(rng, xs, ctx):
    nd = xs[0].ndim
    p = list(range(nd))
    rng.shuffle(p)
    if rng.random() < 0.3:
        p = [a - nd for a in p]
    return {"axes": p}


def gen_reshape(rng, xs, ctx):
    x = xs[0]
    n = x.size
    if n == 0:
        return {"shape": rng.choice([[0], [0, 2], [3, 0], [1, 0, 2], [-1, 2]])}
    fac = []
    m = n
    for q in (2, 3, 5, 7):
        while m % q == 0:
            fac.append(q)
            m //= q
    if m > 1:
        fac.append(m)
    rng.shuffle(fac)
    parts = [1] * rng.randint(1, 3)
    for f in fac:
        parts[rng.randrange(len(parts))] *= f
    if rng.random() < 0.2:
        parts.insert(rng.randint(0, len(parts)), 1)
    if rng.random() < 0.25:
        parts[rng.randrange(len(parts))] = -1
    return {"shape": parts}


def gen_squeeze(rng, xs, ctx):
    ones = [i for i, d in enumerate(xs[0].shape) if d == 1]
    if not ones:
        return {"axis": None}
    r = rng.random()
    if r < 0.4:
        return {"axis": None}
    if r < 0.7:
        return {"axis": rng.choice(ones)}
    return {"axis": sorted(rng.sample(ones, rng.randint(1, len(ones))))}


def gen_roll(rng, xs, ctx):
    x = xs[0]
    if x.ndim == 0:
        return None
    r = rng.random()
    if r < 0.25:
        return {"shift": rng.randint(-4, 4), "axis": None}
    if r < 0.7 or x.ndim < 2:
        return {"shift": rng.randint(-4, 4), "axis": rng.randint(-x.ndim, x.ndim - 1)}
    axes = rng.sample(range(x.ndim), 2)
    if rng.random() < 0.5:
        return {"shift": rng.randint(-3, 3), "axis": axes}
    return {"shift": [rng.randint(-3, 3) for _ in axes], "axis": axes}


def gen_pad(rng, xs, ctx):
    x = xs[0]
    f = ctx["fills"][0]
    if f is None or x.ndim == 0:
        return None
    if rng.random() < 0.4:
        pw = rng.randint(0, 2)
    else:
        pw = [[rng.randint(0, 2), rng.randint(0, 2)] for _ in range(x.ndim)]
    return {"pw": pw, "c": f}


def gen_broadcast_to(rng, xs, ctx):
    x = xs[0]
    sh = [d if d != 1 or rng.random() < 0.4 else rng.choice([2, 3]) for d in x.shape]
    lead = [rng.choice([1, 2, 3]) for _ in range(rng.randint(0, 2))]
    if len(lead) + len(sh) > 4:
        lead = lead[:max(0, 4 - len(sh))]
    return {"shape": lead + sh}


def _pw(pw):
    return pw if isinstance(pw, int) else tuple(tuple(a) for a in pw)


op("transpose", 1, lambda p, x: _np().transpose(x, p["axes"]), lambda p, x: x.transpose(p["axes"]), gen_perm)
op("permute_dims", 1, lambda p, x: _np().transpose(x, p["axes"]), lambda p, x: _sp().permute_dims(x, tuple(p["axes"])), gen_perm)
op("T", 1, lambda p, x: x.T, lambda p, x: x.T)
op("reshape", 1, lambda p, x: x.reshape(p["shape"]), lambda p, x: x.reshape(tuple(p["shape"])), gen_reshape)
op("flatten", 1, lambda p, x: x.flatten(), lambda p, x: x.flatten())
op("squeeze", 1, lambda p, x: _np().squeeze(x, axis=_ax(p["axis"])), lambda p, x: _sp().squeeze(x, axis=_ax(p["axis"])), gen_squeeze)
op("expand_dims", 1, lambda p, x: _np().expand_dims(x, p["axis"]), lambda p, x: _sp().expand_dims(x, axis=p["axis"]),
   lambda rng, xs, ctx: {"axis": rng.randint(-xs[0].ndim - 1, xs[0].ndim)} if xs[0].ndim < 4 else None)
op("moveaxis", 1, lambda p, x: _np().moveaxis(x, p["s"], p["d"]), lambda p, x: _sp().moveaxis(x, p["s"], p["d"]),
   lambda rng, xs, ctx: {"s": rng.randint(-xs[0].ndim, xs[0].ndim - 1), "d": rng.randint(-xs[0].ndim, xs[0].ndim - 1)}
   if xs[0].ndim else None, minnd=1)
op("swapaxes", 1, lambda p, x: _np().swapaxes(x, p["a"], p["b"]), lambda p, x: x.swapaxes(p["a"], p["b"]),
   lambda rng, xs, ctx: {"a": rng.randint(-xs[0].ndim, xs[0].ndim - 1), "b": rng.randint(-xs[0].ndim, xs[0].ndim - 1)}
   if xs[0].ndim else None, minnd=1)
op("flip", 1, lambda p, x: _np().flip(x, axis=_ax(p["axis"])), lambda p, x: _sp().flip(x, axis=_ax(p["axis"])),
   lambda rng, xs, ctx: {"axis": gen_axis(rng, xs, ctx)})
op("roll", 1, lambda p, x: _np().roll(x, _ax(p["shift"]), axis=_ax(p["axis"])),
   lambda p, x: _sp().roll(x, _ax(p["shift"]), axis=_ax(p["axis"])), gen_roll, minnd=1)
op("pad", 1, lambda p, x: _np().pad(x, _pw(p["pw"]), mode="constant", constant_values=p["c"]),
   lambda p, x: _sp().pad(x, _pw(p["pw"]), mode="constant", constant_values=p["c"]), gen_pad, minnd=1)
op("broadcast_to", 1, lambda p, x: _np().broadcast_to(x, p["shape"]), lambda p, x: _sp().broadcast_to(x, tuple(p["shape"])),
   gen_broadcast_to)


# ---- joins (n-ary)
op("concatenate", 3, lambda p, *xs: _np().concatenate(xs, axis=p["axis"]), lambda p, *xs: _sp().concatenate(xs, axis=p["axis"]),
   lambda rng, xs, ctx: {"axis": ctx["axis"]}, second="concat", minnd=1)
op("concatenate_ca", 3, lambda p, *xs: _np().concatenate(xs, axis=p["axis"]),
   lambda p, *xs: _sp().concatenate(xs, axis=p["axis"], compressed_axes=tuple(p["ca"])),
   lambda rng, xs, ctx: None if xs[0].ndim < 2 else
   {"axis": ctx["axis"], "ca": sorted(rng.sample(range(xs[0].ndim), rng.randint(1, xs[0].ndim - 1)))}, second="concat", minnd=2)
op("stack", 3, lambda p, *xs: _np().stack(xs, axis=p["axis"]), lambda p, *xs: _sp().stack(xs, axis=p["axis"]),
   lambda rng, xs, ctx: {"axis": ctx["axis"]}, second="stack")


# ---- sorting / searching
def gen_sort(rng, xs, ctx):
    x = xs[0]
    if x.ndim == 0:
        return None
    ax = rng.randint(-x.ndim, x.ndim - 1)
    if not ctx["wild"] and (x.shape[ax] < 2 or x.size == 0):
        return None
    return {"axis": ax, "desc": rng.random() < 0.4}


def _npsort(p, x):
    np = _np()
    r = np.sort(x, axis=p["axis"])
    return np.flip(r, axis=p["axis"]) if p["desc"] else r


op("sort", 1, _npsort, lambda p, x: _sp().sort(x, axis=p["axis"], descending=p["desc"]), gen_sort, minnd=1)
op("take", 1, lambda p, x: _np().take(x, p["ind"], axis=p["axis"]),
   lambda p, x: _sp().take(x, _np().array(p["ind"]), axis=p["axis"]),
   lambda rng, xs, ctx: None if xs[0].ndim == 0 or 0 in xs[0].shape else (lambda ax: {
       "axis": ax, "ind": [rng.randint(0, xs[0].shape[ax] - 1) for _ in range(rng.randint(1, 3))]})(rng.randint(0, xs[0].ndim - 1)),
   minnd=1)
op("argmax", 1, lambda p, x: _np().argmax(x, axis=p["axis"], keepdims=p["keepdims"]),
   lambda p, x: _sp().argmax(x, axis=p["axis"], keepdims=p["keepdims"]),
   lambda rng, xs, ctx: {"axis": gen_axis(rng, xs, ctx, allow_tuple=False), "keepdims": rng.random() < 0.3}, ret="any", fill="unknown")
op("argmin", 1, lambda p, x: _np().argmin(x, axis=p["axis"], keepdims=p["keepdims"]),
   lambda p, x: _sp().argmin(x, axis=p["axis"], keepdims=p["keepdims"]),
   lambda rng, xs, ctx: {"axis": gen_axis(rng, xs, ctx, allow_tuple=False), "keepdims": rng.random() < 0.3}, ret="any", fill="unknown")
op("unique_values", 1, lambda p, x: _np().unique(x), lambda p, x: _sp().unique_values(x), ret="other")
op("unique_counts", 1, lambda p, x: None, lambda p, x: _sp().unique_counts(x), ret="other")
op("nonzero", 1, lambda p, x: None, lambda p, x: _sp().nonzero(x), ret="other")


# ---- conversions
def _asformat(p, x):
    kw = {}
    if p["fmt"] == "gcxs" and p.get("ca") is not None:
        kw["compressed_axes"] = tuple(p["ca"])
    if p.get("idt") and p["fmt"] in ("coo", "gcxs") and type(x).__name__ == "COO":
        kw["idx_dtype"] = _np().dtype(p["idt"])
    return x.asformat(p["fmt"], **kw)


def gen_asformat(rng, xs, ctx):
    fmt = rng.choice(["coo", "gcxs", "gcxs", "dok"])
    ca = None
    nd = xs[0].ndim
    if fmt == "gcxs" and nd >= 2 and rng.random() < 0.8:
        ca = sorted(rng.sample(range(nd), rng.randint(1, nd - 1)))
    return {"fmt": fmt, "ca": ca, "idt": rng.choice([None, None, "int8", "uint8", "int16"]) if fmt == "gcxs" else None}


def _cca(p, x):
    sp = _sp()
    if not isinstance(x, sp.GCXS):
        x = sp.GCXS(x) if not isinstance(x, sp.DOK) else x.asformat("gcxs")
    return x.change_compressed_axes(tuple(p["ca"]))


op("asformat", 1, lambda p, x: x, _asformat, gen_asformat)
op("change_compressed_axes", 1, lambda p, x: x, _cca,
   lambda rng, xs, ctx: {"ca": sorted(rng.sample(range(xs[0].ndim), rng.randint(1, xs[0].ndim - 1)))} if xs[0].ndim >= 2 else None,
   minnd=2)
def _dok_assign_np(p, x):
    np = _np()
    y = np.array(x, copy=True)
    y[tuple(np.array(k, dtype=np.intp) for k in p["key"])] = np.array(p["vals"]).astype(y.dtype)
    return y


def _dok_assign_sp(p, x):
    np, sp = _np(), _sp()
    d = sp.DOK.from_coo(sp.asarray(x, format="coo"))
    d[tuple(p["key"])] = np.array(p["vals"]).astype(d.dtype)
    return d


def _gen_dok_assign(rng, xs, ctx):
    x = xs[0]
    if x.ndim == 0 or any(d == 0 for d in x.shape):
        return None
    pos = {tuple(rng.randrange(d) for d in x.shape) for _ in range(rng.randint(1, 3))}
    pos = sorted(pos)
    # every coordinate spelled non-negative or negative (seeded C06-m6: negative entries stored as dictionary keys)
    key = [[(c[a] - x.shape[a]) if rng.random() < 0.5 else c[a] for c in pos] for a in range(x.ndim)]
    return {"key": key, "vals": [rng.choice([1, 2, -1, 5]) for _ in pos]}


# DOK assignment through an integer-list key: the result's dictionary keys must be in-range index tuples
op("dok_fancy_assign", 1, _dok_assign_np, _dok_assign_sp, _gen_dok_assign, minnd=1)
op("tocoo", 1, lambda p, x: x, lambda p, x: x.asformat("coo") if not hasattr(x, "tocoo") else x.tocoo())
op("todense", 1, lambda p, x: x, lambda p, x: x.todense(), ret="dense")
op("copy", 1, lambda p, x: x, lambda p, x: x.copy())
op("asarray", 1, lambda p, x: x, lambda p, x: _sp().asarray(x, format=p["fmt"]),
   lambda rng, xs, ctx: {"fmt": rng.choice(["coo", "gcxs", "dok"])})
op("zeros_like", 1, lambda p, x: _np().zeros_like(x), lambda p, x: _sp().zeros_like(x), fill="zero")
op("ones_like", 1, lambda p, x: _np().ones_like(x), lambda p, x: _sp().ones_like(x), fill="unknown")
op("full_like", 1, lambda p, x: _np().full_like(x, p["v"]), lambda p, x: _sp().full_like(x, p["v"]),
   lambda rng, xs, ctx: {"v": rng.choice([0, 2, -1])}, fill="unknown")


# ---- structural extraction
op("triu", 1, lambda p, x: _np().triu(x, p["k"]), lambda p, x: _sp().triu(x, p["k"]),
   lambda rng, xs, ctx: {"k": rng.randint(-2, 2)} if xs[0].ndim >= 2 else None, zero=True, minnd=2)
op("tril", 1, lambda p, x: _np().tril(x, p["k"]), lambda p, x: _sp().tril(x, p["k"]),
   lambda rng, xs, ctx: {"k": rng.randint(-2, 2)} if xs[0].ndim >= 2 else None, zero=True, minnd=2)


def gen_diagonal(rng, xs, ctx):
    x = xs[0]
    if x.ndim < 2:
        return None
    a1, a2 = rng.sample(range(x.ndim), 2)
    off = rng.randint(-2, 2) if ctx["wild"] else rng.randint(0, 2)
    return {"off": off, "a1": a1, "a2": a2}


op("diagonal", 1, lambda p, x: _np().diagonal(x, p["off"], p["a1"], p["a2"]),
   lambda p, x: _sp().diagonal(x, p["off"], p["a1"], p["a2"]), gen_diagonal, zero=True, minnd=2)


def _npdiagonalize(p, x):
    np = _np()
    ax = p["axis"] % x.ndim
    xm = np.moveaxis(x, ax, -1)
    out = np.zeros(xm.shape + (xm.shape[-1],), dtype=x.dtype)
    idx = np.arange(xm.shape[-1])
    out[..., idx, idx] = xm
    # sparse.diagonalize(a, axis): result has a new LAST axis equal to `axis`
    return np.moveaxis(out, -2, ax)


op("diagonalize", 1, _npdiagonalize, lambda p, x: _sp().diagonalize(x, axis=p["axis"]),
   lambda rng, xs, ctx: {"axis": rng.randint(0, xs[0].ndim - 1)} if 1 <= xs[0].ndim <= 3 else None, zero=True, minnd=1)


# ---- creation (arity 0)
def gen_eye(rng, xs, ctx):
    n = rng.choice([0, 1, 2, 3, 4]) if ctx["wild"] else rng.choice([1, 2, 3, 4])
    m = rng.choice([None, 0, 1, 2, 3, 5]) if ctx["wild"] else rng.choice([None, 1, 2, 3, 5])
    return {"N": n, "M": m, "k": rng.randint(-3, 3), "fmt": rng.choice(["coo", "gcxs", "dok"])}


def gen_cshape(rng, xs, ctx):
    nd = rng.randint(0, 3)
    ext = (0, 1, 2, 3) if ctx["wild"] else (1, 2, 3)
    return {"shape": [rng.choice(ext) for _ in range(nd)], "fmt": rng.choice(["coo", "gcxs", "dok"])}


op("eye", 0, lambda p: _np().eye(p["N"], p["M"], p["k"], dtype="int64"),
   lambda p: _sp().eye(p["N"], p["M"], p["k"], dtype="int64", format=p["fmt"]), gen_eye, fill="zero")
op("zeros", 0, lambda p: _np().zeros(tuple(p["shape"]), dtype="int64"),
   lambda p: _sp().zeros(tuple(p["shape"]), dtype="int64", format=p["fmt"]), gen_cshape, fill="zero")
op("ones", 0, lambda p: _np().ones(tuple(p["shape"]), dtype="int64"),
   lambda p: _sp().ones(tuple(p["shape"]), dtype="int64", format=p["fmt"]), gen_cshape, fill="unknown")
op("full", 0, lambda p: _np().full(tuple(p["shape"]), p["v"], dtype="int64"),
   lambda p: _sp().full(tuple(p["shape"]), p["v"], dtype="int64", format=p["fmt"]),
   lambda rng, xs, ctx: dict(gen_cshape(rng, xs, ctx), v=rng.choice([0, 2, -3])), fill="unknown")
op("random", 0, lambda p: None,
   lambda p: _sp().random(tuple(p["shape"]), density=p["density"], random_state=p["seed"], format=p["fmt"],
                          fill_value=p["fv"], data_rvs=(lambda n: _np().arange(3, n + 3)) if p["ints"] else None),
   lambda rng, xs, ctx: dict(gen_cshape(rng, xs, ctx), density=rng.choice([0.0, 0.1, 0.5, 0.9, 1.0]), seed=rng.randint(0, 10 ** 6),
                             fv=rng.choice([None, None, 2]), ints=rng.random() < 0.7), ret="noref", fill="unknown")

SWEEP_ONLY = {"random", "mean", "unique_values", "unique_counts", "nonzero", "argmax", "argmin", "nansum", "nanmax", "nanmin",
              "nanprod", "isnan", "todense"}


# =============================================================================== program generator
def broadcastable(a, b):
    for x, y in zip(a[::-1], b[::-1], strict=False):
        if x != y and x != 1 and y != 1:
            return False
    return True


class Gen:
    """type-directed generation: the NumPy reference is computed while the program is built, so every
    step has valid parameters for the shapes at hand"""

    def __init__(self, rng, wild, formats=("coo", "gcxs", "gcxs", "dok"), nan=False):
        self.rng = rng
        self.wild = wild
        self.formats = formats
        self.nan = nan
        self.special = None  # a NaN / inf / -0.0 fill value: float64 operands with that fill
        self.narrow = 0.25   # share of operands built with int8 / uint8 / int16 coordinates
        self.maxsize = 400
        self.inputs = []
        self.pool = []       # dict(ref=("in"|"st", i), val=ndarray|None, fill=known fill or None, ok=selectable)
        self.steps = []

    def new_input(self, shape=None, fill=None, fmt=None, ndim=None):
        rng = self.rng
        ext = (0, 1, 2, 3) if self.wild and rng.random() < 0.3 else (1, 2, 3)
        if self.special is not None and fill is None:
            fill = self.special
        spec = vlib.gen_array_spec(rng, shape=shape, ndim=ndim, extents=ext, fills=(fill,) if fill is not None else FILLS,
                                   formats=(fmt,) if fmt else self.formats, max_ndim=4 if self.wild else 3)
        if rng.random() < self.narrow and spec["format"] != "dok":
            spec["idx_dtype"] = rng.choice(["int8", "uint8", "int16"])
        if self.special is not None:
            spec["dtype"] = "float64"
            spec["data"] = [float(v) for v in spec["data"]]
        if self.nan:
            spec["dtype"] = "float64"
            spec["data"] = [float("nan") if rng.random() < 0.3 else v for v in spec["data"]]
        self.inputs.append(spec)
        val = vlib.spec_dense(spec, dtype=spec.get("dtype", "int64"))
        self.pool.append(dict(ref=["in", len(self.inputs) - 1], val=val, fill=spec["fill"], ok=True))
        return len(self.pool) - 1

    def add_spec(self, spec):
        self.inputs.append(spec)
        val = vlib.spec_dense(spec, dtype=spec.get("dtype", "int64"))
        self.pool.append(dict(ref=["in", len(self.inputs) - 1], val=val, fill=spec["fill"], ok=True))
        return len(self.pool) - 1

    def pick(self, pred=lambda e: True):
        c = [i for i, e in enumerate(self.pool) if e["ok"] and pred(e)]
        return self.rng.choice(c) if c else None

    def second_operand(self, o, first):
        rng = self.rng
        a = self.pool[first]["val"]
        kind = o["second"]
        need_fill = 0 if o["zero"] else None
        ctx = {}
        if kind == "broadcast":
            j = self.pick(lambda e: broadcastable(e["val"].shape, a.shape) and e is not self.pool[first]) if rng.random() < 0.5 else None
            if j is None:
                sh = list(a.shape)
                r = rng.random()
                if r < 0.3 and sh:
                    sh = sh[rng.randint(1, len(sh)):]
                sh = [1 if rng.random() < 0.25 else d for d in sh]
                j = self.new_input(shape=sh)
            return [j], ctx
        if kind == "matmul":
            if a.ndim == 0:
                return None, ctx
            m = a.shape[-1]
            pred = (lambda e: e["val"].ndim in (1, 2) and e["val"].shape[0 if e["val"].ndim == 1 else -2] == m and e["fill"] == 0)
            j = self.pick(pred) if rng.random() < 0.4 else None
            if j is None:
                sh = [m] if rng.random() < 0.2 else [m, rng.choice([1, 2, 3])]
                j = self.new_input(shape=sh, fill=0)
            return [j], ctx
        if kind == "tensordot":
            if a.ndim == 0:
                return None, ctx
            k = rng.choice([0, 1, 1, 1, 2]) if a.ndim >= 2 else rng.choice([0, 1, 1])
            if a.ndim + 2 - k > 4 and k == 0:
                k = 1
            lead = list(a.shape[a.ndim - k:]) if k else []
            sh = lead + [rng.choice([1, 2, 3]) for _ in range(rng.randint(0, 1 if a.ndim >= 3 else 2))]
            j = self.new_input(shape=sh, fill=0)
            ctx["axes"] = k
            return [j], ctx
        if kind == "vector":
            j = self.new_input(shape=[rng.choice([1, 2, 3])], fill=0)
            return [j], ctx
        if kind == "any":
            if a.ndim > 2:
                return None, ctx
            j = self.new_input(ndim=rng.randint(1, 2), fill=0)
            return [j], ctx
        if kind in ("concat", "stack"):
            n = rng.randint(1, 2)
            f = self.pool[first]["fill"]
            if f is None:
                return None, ctx
            if kind == "concat":
                if a.ndim == 0:
                    return None, ctx
                ax = rng.randint(-a.ndim, a.ndim - 1)
                js = []
                for _ in range(n):
                    sh = list(a.shape)
                    sh[ax] = rng.choice([0, 1, 2, 3]) if self.wild else rng.choice([1, 2, 3])
                    js.append(self.new_input(shape=sh, fill=f))
            else:
                ax = rng.randint(-a.ndim - 1, a.ndim)
                js = [self.new_input(shape=list(a.shape), fill=f) for _ in range(n)]
            ctx["axis"] = ax
            return js, ctx
        return None, ctx

    def try_step(self, name, force_p=None, force_args=None):
        rng = self.rng
        o = OPS[name]
        np = _np()
        if force_args is not None:
            args = list(force_args)
        elif o["arity"] == 0:
            args = []
        else:
            first = self.pick(lambda e: e["val"].ndim >= o["minnd"] and (not o["zero"] or e["fill"] == 0))
            if first is None:
                if not self.pool or o["zero"] or o["minnd"]:
                    first = self.new_input(fill=0 if o["zero"] else None, ndim=max(o["minnd"], rng.randint(1, 3)) if o["minnd"] else None)
                else:
                    return False
            args = [first]
        ctx = {"wild": self.wild}
        if o["second"] and force_args is None:
            more, c2 = self.second_operand(o, args[0])
            if more is None:
                return False
            args += more
            ctx.update(c2)
        xs = [self.pool[i]["val"] for i in args]
        ctx["fills"] = [self.pool[i]["fill"] for i in args]
        p = force_p if force_p is not None else o["gen"](rng, xs, ctx)
        if p is None:
            return False
        val = None
        if o["ret"] not in ("noref",):
            try:
                import warnings
                with warnings.catch_warnings():
                    warnings.simplefilter("ignore")
                    val = o["np"](p, *xs)
            except Exception:  # noqa: BLE001  (parameters NumPy rejects are not generated)
                return False
            if val is not None:
                val = np.asarray(val)
                if val.size > self.maxsize or val.ndim > 5:
                    return False
        # fill of the result, when it can be told
        fill = None
        fills = ctx["fills"]
        if o["fill"] == "same":
            fill = fills[0] if fills else None
            if o["second"] in ("concat", "stack") and any(f != fills[0] for f in fills):
                fill = None
        elif o["fill"] == "zero":
            fill = 0
        elif o["fill"] == "elem" and all(f is not None for f in fills):
            try:
                import warnings
                warnings.simplefilter("ignore")
                fv = np.asarray(o["np"](p, *[np.asarray(f, dtype=x.dtype) for f, x in zip(fills, xs, strict=True)]))
                fill = vlib.val_token(fv.reshape(-1)[0]) if fv.size == 1 else None
            except Exception:  # noqa: BLE001
                fill = None
        elif o["fill"] == "reduce":
            fill = 0 if fills[0] == 0 and name in ("sum", "max", "min", "any", "all", "nansum", "nanmax", "nanmin") else None
        ok = o["ret"] in ("sparse", "any") and val is not None and val.ndim >= 1 and not (o["ret"] == "any" and name in (
            "matmul_dense", "rmatmul_dense", "argmax", "argmin"))
        if name in ("matmul", "dot", "tensordot", "tensordot_dense", "rtensordot_dense", "einsum_tr"):
            # a dense operand or return type gives an ndarray: only sparse x sparse results are reused
            ok = ok and p.get("rt") in (None, "coo", "gcxs") and name not in ("tensordot_dense", "rtensordot_dense")
        self.steps.append({"op": name, "args": [self.pool[i]["ref"] for i in args], "p": p})
        self.pool.append(dict(ref=["st", len(self.steps) - 1], val=val, fill=fill, ok=ok))
        return True

    def program(self):
        refs = []
        for st_i in range(len(self.steps)):
            e = next(e for e in self.pool if e["ref"] == ["st", st_i])
            v = e["val"]
            refs.append(None if v is None or OPS[self.steps[st_i]["op"]]["ret"] == "other"
                        else {"shape": [int(d) for d in v.shape], "flat": [vlib.val_token(t) for t in v.reshape(-1)]})
        return {"kind": "prog", "inputs": self.inputs, "steps": self.steps, "refs": refs}


def gen_sweep(rng, tier):
    """(a): one-step programs, every operation of the catalogue, operands in every format"""
    reps = 5 if tier == "quick" else 60
    cases = []
    for name in OPS:
        for k in range(reps):
            for _try in range(12):
                fmt = ("coo", "gcxs", "dok")[k % 3] if rng.random() < 0.8 else rng.choice(["coo", "gcxs", "dok"])
                g = Gen(rng, wild=(k % 2 == 1), formats=(fmt,) if rng.random() < 0.6 else ("coo", "gcxs", "gcxs", "dok"),
                        nan=name in ("nansum", "nanmax", "nanmin", "nanprod", "isnan") and k % 2 == 0)
                if OPS[name]["arity"] and not OPS[name]["zero"] and not OPS[name]["minnd"]:
                    g.new_input()
                if g.try_step(name):
                    c = g.program()
                    c["sweep"] = True
                    cases.append(c)
                    break
    return cases


def dense_spec(arr, fill, fmt, caxes=None):
    import itertools
    shape = [len(arr)] if not isinstance(arr[0], list) else None
    np = _np()
    a = np.array(arr)
    pos = [ix for ix in itertools.product(*[range(d) for d in a.shape]) if a[ix] != fill]
    return {"shape": list(a.shape), "coords": [list(p) for p in pos], "data": [int(a[p]) for p in pos], "fill": fill,
            "format": fmt, "caxes": caxes}


def gen_directed(rng, tier):
    """boundary-directed one-step cases: (i) index tuples mixing integers, None, full/empty/reversed slices and an
    index array on 2-d and 3-d operands of every format; (ii) operands whose stored values cancel (v, -v in a row)
    under reductions, contractions and element-wise differences — the result must not store the fill value"""
    import itertools
    cases = []
    items = [["i", 0], ["i", -1], ["n"], ["s", None, None, None], ["s", 0, 0, None], ["s", None, None, -1], ["a", [1, 0]]]
    fmts = [("coo", None), ("gcxs", [0]), ("gcxs", [1]), ("dok", None)]
    arrs = {2: [[1, 2, 0], [0, 3, 4]], 3: [[[1, 0], [2, 3], [0, 0]], [[0, 4], [0, 0], [5, 6]]]}
    idxs = []
    for nd in (2, 3):
        for ln in range(1, nd + 2):
            for tup in itertools.product(items, repeat=ln):
                if sum(1 for t in tup if t[0] != "n") > nd or sum(1 for t in tup if t[0] == "a") > 1 \
                        or sum(1 for t in tup if t[0] == "n") > 1:
                    continue
                idxs.append((nd, [list(t) for t in tup]))
    want = 140 if tier == "quick" else len(idxs) * 2
    picks = idxs if want >= len(idxs) else rng.sample(idxs, want)
    for k, (nd, idx) in enumerate(picks):
        fmt, ca = fmts[k % 4] if tier == "quick" else rng.choice(fmts)
        if fmt == "gcxs" and nd == 3:
            ca = rng.choice([[0], [1], [2], [0, 1], [0, 2], [1, 2]])
        g = Gen(rng, wild=True)
        g.add_spec(dense_spec(arrs[nd], 0, fmt, ca))
        if g.try_step("getitem", force_p={"idx": idx}, force_args=[0]):
            c = g.program()
            c["sweep"] = True
            cases.append(c)
    # DOK assignment through integer-list keys with negative entries, on operands of every format and fill
    for k in range(12 if tier == "quick" else 60):
        fmt, ca = fmts[k % 4]
        nd = 2 + k % 2
        if fmt == "gcxs" and nd == 3:
            ca = rng.choice([[0], [1], [2], [0, 1]])
        g = Gen(rng, wild=True)
        g.add_spec(dense_spec(arrs[nd], rng.choice([0, 0, 3]), fmt, ca))
        if g.try_step("dok_fancy_assign", force_args=[0]):
            cases.append(g.program())
    # products over every operand-kind pair and return type
    mats = [([[2, 2, 1], [-1, 1, -1]], [[0, 0, -2], [2, 0, -2], [2, -2, 0]]),
            ([[0, -1, -1], [0, 0, 1], [0, -2, 0]], [[-2, -2, -1, 0], [0, 1, -1, -1], [1, 2, -2, 0]]),
            ([[1, 0], [0, 0], [3, -1]], [[0, 2, 0], [1, -2, 4]])]
    pk = 0
    for A, B in (mats if tier != "quick" else mats[:1]):
        for rt in (None, "coo", "gcxs", "dense"):
            for fmt, ca in fmts:
                for side in ("sd", "ds"):
                    g = Gen(rng, wild=True)
                    if side == "sd":
                        g.add_spec(dense_spec(A, 0, fmt, ca))
                        ok = g.try_step("tensordot_dense", force_p={"b": B, "rt": rt}, force_args=[0])
                    else:
                        g.add_spec(dense_spec(B, 0, fmt, ca))
                        ok = g.try_step("rtensordot_dense", force_p={"a": A, "rt": rt}, force_args=[0])
                    if ok:
                        c = g.program()
                        c["sweep"] = True
                        c["with_ref"] = True
                        cases.append(c)
                for fmt2, ca2 in (fmts if tier != "quick" else [fmts[pk % 4], fmts[(pk + 1) % 4]]):
                    pk += 1
                    g = Gen(rng, wild=True)
                    g.add_spec(dense_spec(A, 0, fmt, ca))
                    g.add_spec(dense_spec(B, 0, fmt2, ca2))
                    if g.try_step("tensordot", force_p={"axes": 1, "rt": rt}, force_args=[0, 1]):
                        c = g.program()
                        c["sweep"] = True
                        c["with_ref"] = True
                        cases.append(c)
    np_ = _np()
    for shape, axis in (((2, 20, 12), 0), ((3, 16, 10), 0), ((14, 3, 18), 1), ((20, 12), None)):
        x = np_.array([rng.choice([1, 2, 3, -1]) if rng.random() < 0.7 else 0 for _ in range(int(np_.prod(shape)))]).reshape(shape)
        for ca in ([[0], [1]] if len(shape) == 3 else [[0]]):
            g = Gen(rng, wild=True)
            g.narrow = 0.0
            g.maxsize = 2000
            g.add_spec(dense_spec(x.tolist(), 0, "gcxs", ca))
            if axis is None:
                ok = g.try_step("flatten", force_p={}, force_args=[0])
                g.pool[-1]["ok"] = True
                ok = ok and g.try_step("reshape", force_p={"shape": list(shape)}, force_args=[len(g.pool) - 1])
            else:
                ok = g.try_step(rng.choice(["sum", "max"]), force_p={"axis": axis, "keepdims": False}, force_args=[0])
            if ok:
                c = g.program()
                c["sweep"] = True
                c["with_ref"] = True
                cases.append(c)
    for idt in ("uint8", "uint16", "uint32", "uint64", "int8"):
        one = dense_spec([0, 4, 0, 2, 7, 0, 1, 0, 3], 0, "coo", None)
        one["idx_dtype"] = idt
        two = dense_spec([[1, 0, 2, 0], [0, 3, 0, 4], [5, 0, 0, 6]], 0, "coo", None)
        two["idx_dtype"] = idt
        for spec, name, p in ((one, "flip", {"axis": 0}), (one, "flip", {"axis": None}), (one, "roll", {"shift": 4, "axis": 0}),
                              (one, "getitem", {"idx": [["s", None, None, -1]]}), (one, "getitem", {"idx": [["a", [8, 4, 1, 4]]]}),
                              (two, "einsum_tr", {"s": "ji->i"}), (two, "einsum_tr", {"s": "ij->ji"}), (two, "T", {}),
                              (two, "flip", {"axis": [0, 1]}), (two, "flatten", {})):
            g = Gen(rng, wild=True)
            g.narrow = 0.0
            g.add_spec(dict(spec))
            if g.try_step(name, force_p=p, force_args=[0]):
                c = g.program()
                c["sweep"] = True
                c["with_ref"] = True
                cases.append(c)
    # broadcast_to (explicit, and implicit through element-wise operands) with broadcast axes strictly BETWEEN non-broadcast
    # axes, >= 2 stored elements per prefix: the sorted= flag of the site must be False there
    for shape, target in (((2, 3, 1, 4), (2, 3, 5, 4)), ((2, 1, 3, 4), (2, 5, 3, 4)), ((2, 1, 3, 1, 2), (2, 4, 3, 2, 2)),
                          ((3, 1, 2), (3, 4, 2)), ((2, 3, 1, 4), (3, 2, 3, 5, 4)), ((1, 3, 1, 2), (2, 3, 3, 2)), ((2, 2, 1), (2, 2, 3))):
        for fmt, ca in (("coo", None), ("gcxs", [0]), ("dok", None)) if tier != "quick" else (("coo", None), ("gcxs", [0])):
            for rep_ in range(1 if tier == "quick" else 3):
                x = np_.array([rng.choice([1, 2, 3, -1]) if rng.random() < 0.85 else 0 for _ in range(int(np_.prod(shape)))]).reshape(shape)
                g = Gen(rng, wild=True)
                g.narrow = 0.0
                g.maxsize = 2000
                g.add_spec(dense_spec(x.tolist(), 0, fmt, ca))
                if g.try_step("broadcast_to", force_p={"shape": list(target)}, force_args=[0]):
                    g.pool[-1]["ok"] = True
                    last = len(g.pool) - 1
                    v = g.pool[last]["val"]
                    # what a consumer of the order would see
                    g.try_step("getitem", force_p={"idx": [["e"], ["i", 1], ["s", None, None, None]]}, force_args=[last])
                    g.try_step("reshape", force_p={"shape": [int(v.shape[0]), -1]}, force_args=[last])
                    c = g.program()
                    c["with_ref"] = True
                    cases.append(c)
                y = np_.array([rng.choice([1, 2, -2]) if rng.random() < 0.8 else 0 for _ in range(int(np_.prod(target)))]).reshape(target)
                g = Gen(rng, wild=True)
                g.narrow = 0.0
                g.maxsize = 2000
                g.add_spec(dense_spec(x.tolist(), 0, fmt, ca))
                g.add_spec(dense_spec(y.tolist(), 0, "coo", None))
                if g.try_step(rng.choice(["add", "multiply", "maximum"]), force_p={}, force_args=[0, 1]):
                    c = g.program()
                    c["sweep"] = True
                    c["with_ref"] = True
                    cases.append(c)
    canc = [[-3, 3, 0], [0, -1, -2], [2, -2, 0]]
    steps = [("sum", {"axis": 1, "keepdims": False}), ("sum", {"axis": None, "keepdims": False}), ("sum", {"axis": [0, 1], "keepdims": True}),
             ("nansum", {"axis": 1, "keepdims": False}), ("einsum_tr", {"s": "ij->i"}), ("einsum_tr", {"s": "ij->j"}),
             ("einsum_tr", {"s": "ij->"}), ("mul_scalar", {"c": 0}), ("matmul_dense", {"b": [[1], [1], [1]]}),
             ("tensordot_dense", {"b": [[1], [1], [1]], "rt": "coo"}), ("tensordot_dense", {"b": [[1], [1], [1]], "rt": "gcxs"}),
             ("rmatmul_dense", {"a": [[1, 1, 1]]}), ("clip", {"lo": 0, "hi": 0}), ("where_scalar", {"c": 0}),
             ("round", {}), ("astype", {"dt": "bool"}), ("gt_scalar", {"c": 5}), ("triu", {"k": 3}), ("diagonal", {"off": 0, "a1": 0, "a2": 1})]
    for fmt, ca in fmts:
        for name, p in steps:
            g = Gen(rng, wild=True)
            g.add_spec(dense_spec(canc, 0, fmt, ca))
            if g.try_step(name, force_p=p, force_args=[0]):
                c = g.program()
                c["sweep"] = True
                cases.append(c)
        for name, second in (("subtract", canc), ("add", [[3, -3, 0], [0, 1, 2], [-2, 2, 0]]), ("matmul", [[1, 0], [1, 0], [1, 1]]),
                             ("dot", [[1, 0], [1, 0], [1, 1]]), ("einsum_mm", [[1, 0], [1, 0], [1, 1]]), ("multiply", [[0, 0, 1], [1, 0, 0], [0, 0, 1]]),
                             ("kron", [[1, -1]])):
            for fmt2, ca2 in (fmts if tier != "quick" else [fmts[(len(cases)) % 4]]):
                g = Gen(rng, wild=True)
                g.add_spec(dense_spec(canc, 0, fmt, ca))
                g.add_spec(dense_spec(second, 0, fmt2, ca2))
                if g.try_step(name, force_p={}, force_args=[0, 1]):
                    c = g.program()
                    c["sweep"] = True
                    cases.append(c)
    return cases


def gen_narrow(rng, tier):
    """index-width directed programs: GCXS/COO operands with int8 / uint8 coordinates whose nnz is just below the
    dtype's maximum are joined (nnz crosses 127 / 255 while every extent still fits the narrow dtype) and the result
    is re-compressed / transposed / reshaped / reduced / converted: indptr must still run from 0 to nnz"""
    np = _np()
    n = 36 if tier == "quick" else 300
    bases = [("uint8", (8, 7, 6), 0.62, 129, 255), ("uint8", (9, 30), 0.7, 129, 255), ("int8", (6, 5, 4), 0.75, 65, 127),
             ("int8", (5, 22), 0.8, 65, 127), ("uint8", (4, 4, 4, 3), 0.8, 129, 192)]
    cases = []

    def spec_for(idt, shape, dens, lo, hi, fmt, ca):
        for _ in range(50):
            x = np.array([[rng.choice([1, 2, 3, -1, -2]) if rng.random() < dens else 0 for _ in range(int(np.prod(shape)))]]).reshape(shape)
            if lo <= np.count_nonzero(x) <= hi:
                sp_ = dense_spec(x.tolist(), 0, fmt, ca)
                sp_["idx_dtype"] = idt
                return sp_
        return None

    for k in range(n):
        idt, shape, dens, lo, hi = bases[k % len(bases)]
        nd = len(shape)
        fmt = "gcxs" if k % 5 else "coo"
        ca = sorted(rng.sample(range(nd), rng.randint(1, nd - 1))) if fmt == "gcxs" else None
        if fmt == "gcxs" and k % 3 == 0:
            ca = [0]
        g = Gen(rng, wild=False)
        g.narrow = 0.0
        g.maxsize = 2000
        a = spec_for(idt, shape, dens, lo, hi, fmt, ca)
        if a is None:
            continue
        g.add_spec(a)
        second = 0
        if rng.random() < 0.4:
            b = spec_for(idt, shape, dens, lo, hi, fmt, ca)
            if b is not None:
                g.add_spec(b)
                second = 1
        join = rng.choice(["concatenate", "concatenate", "stack", "concatenate_ca"])
        ax = 0 if rng.random() < 0.7 else rng.randint(0, nd - 1)
        if join == "stack":
            p = {"axis": 0}
        elif join == "concatenate_ca":
            p = {"axis": ax, "ca": sorted(rng.sample(range(nd), rng.randint(1, nd - 1)))}
        else:
            p = {"axis": ax}
        if not g.try_step(join, force_p=p, force_args=[0, second]):
            continue
        j = len(g.pool) - 1
        g.pool[j]["ok"] = True
        v = g.pool[j]["val"]
        for _ in range(rng.randint(1, 2)):
            cur = len(g.pool) - 1
            v = g.pool[cur]["val"]
            if v is None or v.ndim < 2:
                break
            vd = v.ndim
            choice = rng.choice(["cca", "transpose", "reshape", "sum", "max", "asformat", "T", "getitem", "tocoo", "flatten", "mul"])
            if choice == "cca":
                ok = g.try_step("change_compressed_axes", force_p={"ca": sorted(rng.sample(range(vd), rng.randint(1, vd - 1)))}, force_args=[cur])
            elif choice == "transpose":
                perm = list(range(vd))
                rng.shuffle(perm)
                ok = g.try_step("transpose", force_p={"axes": perm}, force_args=[cur])
            elif choice == "reshape":
                sh = list(v.shape)
                i = rng.randint(0, vd - 2)
                new = sh[:i] + [sh[i] * sh[i + 1]] + sh[i + 2:]
                if len(new) == 1:
                    new = [sh[0], -1]
                ok = g.try_step("reshape", force_p={"shape": new}, force_args=[cur])
            elif choice in ("sum", "max"):
                ok = g.try_step(choice, force_p={"axis": rng.randint(0, vd - 1), "keepdims": False}, force_args=[cur])
            elif choice == "asformat":
                ok = g.try_step("asformat", force_p={"fmt": "gcxs", "ca": sorted(rng.sample(range(vd), rng.randint(1, vd - 1))), "idt": None}, force_args=[cur])
            elif choice == "T":
                ok = g.try_step("T", force_p={}, force_args=[cur])
            elif choice == "getitem":
                ok = g.try_step("getitem", force_p={"idx": [["s", None, None, None], ["s", 1, None, None]]}, force_args=[cur])
            elif choice == "tocoo":
                ok = g.try_step("tocoo", force_p={}, force_args=[cur])
            elif choice == "flatten":
                ok = g.try_step("flatten", force_p={}, force_args=[cur])
            else:
                ok = g.try_step("mul_scalar", force_p={"c": 2}, force_args=[cur])
            if not ok:
                break
        c = g.program()
        c["narrow"] = True
        cases.append(c)
    return cases


def gen_special(rng, tier):
    """float operands whose fill value is NaN, +inf or -0.0 (tokens, compared as `_utils.equivalent` does: all NaNs equal,
    0.0 != -0.0): (i) arrays with complete / partial / empty groups reduced (sum, prod, max, min, mean) over every proper
    axis subset, in COO and every GCXS compression; (ii) element-wise operations that produce the fill, getitem, conversions;
    (iii) composed programs.  Judged: canonical form, no stored fill value, nnz = #non-fill (no value reference: float
    arithmetic on inf / signed zeros is not part of the property)"""
    nan, inf = float("nan"), float("inf")
    cases = []
    fills = [nan, inf, -0.0]

    def fspec(arr, fill, fmt, ca):
        import itertools
        np = _np()
        a = np.array(arr, dtype="float64")
        def isfill(v):
            return (v != v) if fill != fill else (v == fill and np.signbit(v) == np.signbit(fill))
        pos = [ix for ix in itertools.product(*[range(d) for d in a.shape]) if not isfill(a[ix])]
        return {"shape": list(a.shape), "coords": [list(p_) for p_ in pos], "data": [float(a[p_]) for p_ in pos], "fill": fill,
                "format": fmt, "caxes": ca, "dtype": "float64"}

    def add(g):
        c = g.program()
        c["special"] = True
        cases.append(c)

    for fill in fills:
        F = fill
        a2 = [[1.0, 2.0, 3.0, 4.0], [F, 5.0, F, 6.0], [F, F, F, F], [7.0, 8.0, 9.0, 1.5]]
        a3 = [[[1.0, F], [2.0, 3.0], [F, F]], [[F, 4.0], [F, F], [5.0, 6.0]]]
        shapes = [(a2, [("coo", None), ("gcxs", [0]), ("gcxs", [1])]),
                  (a3, [("coo", None), ("gcxs", [0]), ("gcxs", [1]), ("gcxs", [0, 2]), ("gcxs", [1, 2])])]
        for arr, fmts in shapes:
            nd = 2 if arr is a2 else 3
            axes = [[a_] for a_ in range(nd)] + ([[0, 1], [0, 2], [1, 2]] if nd == 3 else []) + [None]
            for fmt, ca in fmts:
                for name in ("sum", "prod", "max", "min", "mean"):
                    for ax in (axes if tier != "quick" else rng.sample(axes, 2)):
                        g = Gen(rng, wild=False)
                        g.narrow = 0.0
                        g.add_spec(fspec(arr, fill, fmt, ca))
                        p = {"axis": ax if ax is None or len(ax) > 1 else ax[0], "keepdims": rng.random() < 0.25}
                        if g.try_step(name, force_p=p, force_args=[0]):
                            add(g)
                # element-wise results equal to the fill, indexing, conversions
                el = [("add_scalar", {"c": fill}), ("mul_scalar", {"c": -0.0 if fill == 0 else 1.0}), ("mul_scalar", {"c": 0.0}),
                      ("negative", {}), ("abs", {}), ("getitem", {"idx": [["s", 1, None, None]]}), ("getitem", {"idx": [["i", 1]]}),
                      ("asformat", {"fmt": "gcxs", "ca": [nd - 1], "idt": None}), ("asformat", {"fmt": "coo", "ca": None, "idt": None}),
                      ("tocoo", {}), ("T", {}), ("flatten", {}), ("eq_scalar", {"c": 5.0}), ("gt_scalar", {"c": 2.0})]
                for name, p in (el if tier != "quick" else rng.sample(el, 5)):
                    g = Gen(rng, wild=False)
                    g.narrow = 0.0
                    g.add_spec(fspec(arr, fill, fmt, ca))
                    if g.try_step(name, force_p=p, force_args=[0]):
                        add(g)
    # composed programs over special-fill operands
    n = 30 if tier == "quick" else 500
    names = [n_ for n_ in OPS if n_ not in SWEEP_ONLY and not OPS[n_]["zero"] and n_ not in ("astype", "round", "clip", "pad", "sort", "take",
                                                                                             "full", "eye", "ones", "zeros", "full_like", "ones_like")]
    for k in range(n):
        g = Gen(rng, wild=False, formats=("coo", "gcxs", "gcxs"))
        g.narrow = 0.0
        g.special = fills[k % 3]
        g.new_input()
        depth = rng.randint(2, 4 if tier == "quick" else 6)
        tries = 0
        while len(g.steps) < depth and tries < depth * 8:
            tries += 1
            g.try_step(rng.choice(names + ["sum", "sum", "max", "prod", "min"]))
        if g.steps:
            add(g)
    return cases


def gen_programs(rng, tier):
    """(b): composed programs"""
    n = 200 if tier == "quick" else 3000
    maxd = 4 if tier == "quick" else 8
    names = [n_ for n_ in OPS if n_ not in SWEEP_ONLY]
    weights = [3 if OPS[n_]["second"] in ("matmul", "tensordot", "concat", "stack") or n_ in (
        "getitem", "reshape", "transpose", "asformat", "change_compressed_axes", "roll", "flip", "sort", "broadcast_to") else 1
        for n_ in names]
    cases = []
    for _ in range(n):
        g = Gen(rng, wild=False)
        g.new_input()
        depth = rng.randint(2, maxd)
        tries = 0
        while len(g.steps) < depth and tries < depth * 8:
            tries += 1
            g.try_step(rng.choices(names, weights)[0])
        if g.steps:
            cases.append(g.program())
    return cases


def gen_ctor(rng, tier):
    """(c): COO(coords, data, shape, fill_value, sorted=, has_duplicates=, prune=) on raw inputs"""
    n = 400 if tier == "quick" else 6000
    cases = []
    for i in range(n):
        nd = rng.choice([1, 1, 2, 2, 3]) if i % 40 else 0
        shape = [rng.choice([1, 2, 3]) for _ in range(nd)]
        m = rng.choice([0, 1, 2, 3, 4, 6])
        fill = rng.choice([0, 0, 3])
        mode = rng.random()
        coords = [[rng.randint(0, d - 1) for d in shape] for _ in range(m)]
        if mode < 0.35:
            coords = sorted(coords)
        if mode < 0.2:
            coords = sorted({tuple(c) for c in coords})
            coords = [list(c) for c in coords]
        if nd == 0:
            coords = [[] for _ in range(rng.choice([0, 1]))]
        data = [rng.choice([fill, 1, 2, -1, -2, 5]) for _ in coords]
        if i % 53 == 7 and coords and nd:
            data = data[:-1]                      # length mismatch -> ValueError
        idt = rng.choice([None, None, "uint8", "uint16", "uint32", "uint64", "int8", "int16", "int32"])
        cases.append({"kind": "ctor", "idt": idt, "shape": shape, "coords": coords, "data": data, "fill": fill,
                      "sorted": rng.random() < 0.5, "hd": rng.random() < 0.5, "prune": rng.random() < 0.5})
    # 1-d arrays, every coordinate dtype, coordinates given out of order and / or repeated, nothing promised
    for idt in ("uint8", "uint16", "uint32", "uint64", "int8", "int16", "int32", "int64"):
        for k in range(6 if tier == "quick" else 40):
            n = rng.choice([3, 5, 9, 40])
            m = rng.randint(2, min(n + 2, 12))
            coords = [[rng.randint(0, n - 1)] for _ in range(m)]
            if k % 3 == 0:
                coords = [[c_] for c_ in sorted({c_[0] for c_ in coords}, reverse=True)]     # strictly decreasing
            fill = rng.choice([0, 0, 3])
            data = [rng.choice([1, 2, -1, 5]) for _ in coords]
            cases.append({"kind": "ctor", "idt": idt, "shape": [n], "coords": coords, "data": data, "fill": fill,
                          "sorted": False, "hd": True, "prune": k % 2 == 0})
    return cases


def gen_csr(rng, tier):
    n = 120 if tier == "quick" else 1500
    cases = []
    for _ in range(n):
        r, m, k = rng.choice([1, 2, 3, 4]), rng.choice([1, 2, 3, 5]), rng.choice([1, 2, 3, 5])
        dens = rng.choice([0.2, 0.5, 0.8, 1.0])
        A = [[rng.choice([1, 2, -1, -2, 3]) if rng.random() < dens else 0 for _ in range(m)] for _ in range(r)]
        B = [[rng.choice([1, 2, -1, -2, 3]) if rng.random() < dens else 0 for _ in range(k)] for _ in range(m)]
        cases.append({"kind": "csr", "A": A, "B": B})
    return cases


def gen_cscnd(rng, tier):
    """(d'): tensordot(GCXS csc, ndarray, return_type=GCXS) against the kernel model dot_csc_ndarray"""
    n = 100 if tier == "quick" else 1200
    cases = []
    for _ in range(n):
        r, m, k = rng.choice([1, 2, 3, 4]), rng.choice([1, 2, 3, 5]), rng.choice([1, 2, 3])
        dens = rng.choice([0.3, 0.6, 1.0])
        A = [[rng.choice([1, 2, -1, -2]) if rng.random() < dens else 0 for _ in range(m)] for _ in range(r)]
        B = [[rng.choice([1, -1, 2, 0, 0]) for _ in range(k)] for _ in range(m)]
        cases.append({"kind": "cscnd", "A": A, "B": B})
    return cases


def gen_scipy(rng, tier):
    """(e): conversion of SciPy csr/csc matrices (valid for SciPy: monotone indptr, in-range indices; rows sorted or not)"""
    n = 60 if tier == "quick" else 600
    cases = []
    for i in range(n):
        r, c = rng.choice([1, 2, 3]), rng.choice([1, 2, 3, 5])
        fmt = rng.choice(["csr", "csc"])
        nrows, ncols = (r, c) if fmt == "csr" else (c, r)
        indices, indptr, data = [], [0], []
        for _ in range(nrows):
            cols = [j for j in range(ncols) if rng.random() < 0.6]
            if rng.random() < 0.7:
                rng.shuffle(cols)
            indices += cols
            data += [rng.choice([1, 2, -1, 3]) for _ in cols]
            indptr.append(len(indices))
        cases.append({"kind": "scipy", "fmt": fmt, "shape": [r, c], "data": data, "indices": indices, "indptr": indptr,
                      "conv": ["GCXS.from_scipy_sparse", "GCXS", "asarray_gcxs", "COO.from_scipy_sparse", "asarray_coo", "COO"][i % 6]})
    return cases


# =============================================================================== implementation side (worker)
def impl_run(case):
    import warnings

    import numpy as np
    import sparse
    warnings.filterwarnings("ignore")
    kind = case["kind"]
    if kind == "ctor":
        nd = len(case["shape"])
        m = len(case["coords"])
        coords = np.array(case["coords"], dtype=np.intp).reshape(m, nd).T if m else np.zeros((nd, 0), dtype=np.intp)
        if case.get("idt"):
            coords = coords.astype(case["idt"])
        data = np.array(case["data"], dtype=np.int64)
        try:
            r = sparse.COO(coords, data, shape=tuple(case["shape"]), fill_value=np.int64(case["fill"]),
                           sorted=case["sorted"], has_duplicates=case["hd"], prune=case["prune"])
        except Exception as ex:  # noqa: BLE001
            r = ex
        return {"r": vlib.plain(r)}
    if kind == "scipy":
        import scipy.sparse as sps
        cls = sps.csr_matrix if case["fmt"] == "csr" else sps.csc_matrix
        m = cls((np.array(case["data"], dtype=np.int64), np.array(case["indices"], dtype=np.int32),
                 np.array(case["indptr"], dtype=np.int32)), shape=tuple(case["shape"]))
        conv = {"GCXS.from_scipy_sparse": sparse.GCXS.from_scipy_sparse, "GCXS": sparse.GCXS,
                "asarray_gcxs": lambda x: sparse.asarray(x, format="gcxs"), "COO.from_scipy_sparse": sparse.COO.from_scipy_sparse,
                "asarray_coo": lambda x: sparse.asarray(x, format="coo"), "COO": sparse.COO}[case["conv"]]
        try:
            r = conv(m)
        except Exception as ex:  # noqa: BLE001
            r = ex
        return {"r": vlib.plain(r), "ref": vlib.plain(np.asarray(m.toarray()))}
    if kind == "cscnd":
        a = sparse.GCXS.from_numpy(np.array(case["A"], dtype=np.int64), compressed_axes=(1,))
        try:
            r = sparse.tensordot(a, np.array(case["B"], dtype=np.int64), axes=1, return_type=sparse.GCXS)
        except Exception as ex:  # noqa: BLE001
            r = ex
        return {"a": vlib.plain(a), "r": vlib.plain(r)}
    if kind == "csr":
        a = sparse.GCXS.from_numpy(np.array(case["A"], dtype=np.int64), compressed_axes=(0,))
        b = sparse.GCXS.from_numpy(np.array(case["B"], dtype=np.int64), compressed_axes=(0,))
        try:
            r = a @ b
        except Exception as ex:  # noqa: BLE001
            r = ex
        return {"a": vlib.plain(a), "b": vlib.plain(b), "r": vlib.plain(r)}
    ins = [vlib.build_array(s, dtype=s.get("dtype", "int64"), idx_dtype=s.get("idx_dtype")) for s in case["inputs"]]
    outs = []
    res = []
    for st in case["steps"]:
        args = [ins[i] if k == "in" else outs[i] for k, i in st["args"]]
        try:
            r = OPS[st["op"]]["sp"](st["p"], *args)
        except Exception as ex:  # noqa: BLE001
            res.append(vlib.plain(ex))
            break
        outs.append(r)
        res.append(vlib.plain(r))
    return {"results": res, "inputs": [vlib.plain(x) for x in ins]}


# =============================================================================== campaign
NAN_TOKEN = (1 << 70) + 0x7FF8000000000000


def norm_tok(v):
    """every NaN (any sign / payload) is ONE token, as for `_utils.equivalent`; other tokens (+-inf, -0.0, non-integral
    floats) keep their bit pattern, so 0.0 and -0.0 stay different"""
    if isinstance(v, int) and v >= (1 << 70):
        bits = v - (1 << 70)
        if bits < (1 << 64) and (bits & 0x7FF0000000000000) == 0x7FF0000000000000 and (bits & 0x000FFFFFFFFFFFFF):
            return NAN_TOKEN
    return v


def norm_plain(p):
    if not isinstance(p, dict):
        return p
    q = dict(p)
    for k in ("data", "flat"):
        if k in q and isinstance(q[k], list):
            q[k] = [norm_tok(v) for v in q[k]]
    for k in ("fill", "v"):
        if k in q:
            q[k] = norm_tok(q[k])
    if "items" in q:
        q["items"] = [[kk, norm_tok(v)] for kk, v in q["items"]]
    return q


def is_pruned(p):
    k = p.get("k")
    if k in ("coo", "gcxs"):
        return all(v != p["fill"] for v in p["data"])
    if k == "dok":
        return all(v != p["fill"] for _k, v in p["items"])
    return True


def render(case, upto):
    """a self-contained Python program reproducing steps 0..upto of a case"""
    lines = ["import numpy as np, sparse, sys; sys.path.insert(0, '/verif/tools'); import vlib; from props.c06 import OPS",
             "nan = float('nan'); inf = float('inf')",
             f"ins = [vlib.build_array(s, dtype=s.get('dtype', 'int64'), idx_dtype=s.get('idx_dtype')) for s in {case['inputs']!r}]", "outs = []"]
    for st in case["steps"][:upto + 1]:
        lines.append(f"outs.append(OPS[{st['op']!r}]['sp']({st['p']!r}, *[ins[i] if k == 'in' else outs[i] for k, i in {st['args']!r}]))")
    lines.append("r = outs[-1]; print(type(r).__name__, {a: getattr(r, a, None) for a in "
                 "('shape', 'fill_value', 'coords', 'data', 'indices', 'indptr', 'compressed_axes')})")
    return "\n".join(lines)


CODE_TEXT = {1: "raw result not in canonical/self-consistent form", 5: "GCXS rows hold unsorted column indices",
             2: "operands stored no fill value but the result does", 3: "nnz differs from the number of non-fill elements",
             4: "dense value differs from NumPy applied to the same program"}


def campaign(build, tier, seed, report, budget=1):
    rng = random.Random(seed)
    cases = (gen_directed(rng, tier) + gen_narrow(rng, tier) + gen_special(rng, tier) + gen_sweep(rng, tier) + gen_programs(rng, tier) + gen_ctor(rng, tier) + gen_csr(rng, tier)
             + gen_cscnd(rng, tier) + gen_scipy(rng, tier))
    if budget > 1:
        cases += gen_programs(random.Random(seed + 1), tier) + gen_sweep(random.Random(seed + 2), tier)
    import time
    t_gen = time.time()
    res = vlib.run_impl("props.c06", "impl_run", cases, workers=6, per_case_timeout=40.0)
    t_impl = time.time()
    viol = []
    tags = {}

    def tag(t):
        tags[t] = tags.get(t, 0) + 1

    # ---------------- (a)+(b): every result of every step
    lits, where = [], []
    distinct = set()
    for ci, (c, r) in enumerate(zip(cases, res, strict=True)):
        if c["kind"] != "prog":
            continue
        if r is None or "results" not in r:
            tag("prog/" + ("hang" if r and r.get("hang") else "harness-exc:" + str((r or {}).get("exc"))))
            if r and r.get("hang"):
                viol.append({"property": "C06", "op": c["steps"][0]["op"], "kind": "value", "clause": None,
                             "what": "operation did not return (watchdog)", "case": c, "impl": r,
                             "replay_py": render(c, len(c["steps"]) - 1)})
            continue
        r["inputs"] = [norm_plain(p) for p in r["inputs"]]
        r["results"] = [norm_plain(p) for p in r["results"]]
        plains = {("in", i): p for i, p in enumerate(r["inputs"])}
        for si, p in enumerate(r["results"]):
            st = c["steps"][si]
            plains[("st", si)] = p
            pruned_in = all(is_pruned(plains[tuple(a)]) for a in st["args"])
            ref = c["refs"][si] if (not c.get("sweep") or c.get("with_ref")) and not c.get("special") else None
            kindtag = p.get("k")
            tag(f"{'sweep' if c.get('sweep') else 'narrow' if c.get('narrow') else 'special' if c.get('special') else 'prog'}/{st['op']}/{kindtag}")
            if c.get("special") and kindtag in ("coo", "gcxs"):
                tag("special-fill/" + {NAN_TOKEN: "nan"}.get(p.get("fill"), "inf" if p.get("fill") == (1 << 70) + 0x7FF0000000000000 else
                                                              "-0.0" if p.get("fill") == (1 << 70) + 0x8000000000000000 else "other"))
            if kindtag in ("coo", "gcxs"):
                tag("idx_dtype/" + str(p.get("idx_dtype")))
                if c.get("narrow") and kindtag == "gcxs":
                    tag("narrow-nnz/" + ("over-dtype-max" if len(p["data"]) > (127 if "int8" == c["inputs"][0].get("idx_dtype") else 255) else "within"))
            if kindtag in ("coo", "gcxs", "dok"):
                distinct.add(vlib.digest([st["op"], st["p"], [plains[tuple(a)] for a in st["args"]]]))
            if kindtag == "exc":
                tag("exc/" + p.get("cls", "?"))
                continue
            reflit = "None" if ref is None or kindtag == "other" else f"(Some ({vlist(ref['shape'])}, {vlist(ref['flat'])}))"
            lits.append(vpair(vlib.sarr_lit(p), vbool(pruned_in), reflit))
            where.append((ci, si))
    for ci, (c, r) in enumerate(zip(cases, res, strict=True)):
        if c["kind"] != "scipy":
            continue
        if not r or "r" not in r:
            tag("scipy/harness")
            continue
        rows_sorted = all(c["indices"][a:b] == sorted(c["indices"][a:b]) for a, b in zip(c["indptr"], c["indptr"][1:], strict=False))
        tag(f"scipy/{c['conv']}/{'rows-sorted' if rows_sorted else 'rows-unsorted'}")
        ref = r["ref"]
        lits.append(vpair(vlib.sarr_lit(r["r"]), vbool(True), f"(Some ({vlist(ref['shape'])}, {vlist(ref['flat'])}))"))
        where.append((ci, -1))
    # results of COO(...) itself, whenever the caller's promises are true (or nothing is promised): must be canonical
    for ci, (c, r) in enumerate(zip(cases, res, strict=True)):
        if c["kind"] != "ctor" or not r or "r" not in r or r["r"].get("k") != "coo":
            continue
        srt = c["coords"] == sorted(c["coords"])
        nod = len({tuple(x) for x in c["coords"]}) == len(c["coords"])
        if (c["sorted"] and not srt) or ((not c["hd"]) and not nod) or len(c["data"]) != len(c["coords"]):
            continue
        lits.append(vpair(vlib.sarr_lit(norm_plain(r["r"])), vbool(bool(c["prune"])), "None"))
        where.append((ci, -2))
    bad = build.judge("c06_results", "From Verif Require Import Py Shape COO GCXS SArr Ctor C06Judge.", "c06_case", "judge_result", lits, chunk=400)
    seen_first = {}
    diffs = []
    for idx, code in bad:
        ci, si = where[idx]
        c, r = cases[ci], res[ci]
        if c["kind"] == "ctor":
            tag(f"verdict/{code}")
            viol.append({"property": "C06", "op": "COO.__init__", "kind": "value", "clause": None, "code": code,
                         "what": CODE_TEXT.get(code, str(code)) + " (constructor called with true promises / none)", "case": c, "impl": r["r"],
                         "replay_py": f"import numpy as np, sparse; c=np.array({c['coords']!r}).reshape({len(c['coords'])}, {len(c['shape'])}).T.astype({(c.get('idt') or 'intp')!r}); "
                                      f"x=sparse.COO(c, np.array({c['data']!r}), shape={tuple(c['shape'])!r}, fill_value={c['fill']}, sorted={c['sorted']}, "
                                      f"has_duplicates={c['hd']}, prune={c['prune']}); print(x.coords, x.data)"})
            continue
        if c["kind"] == "scipy":
            tag(f"verdict/{code}")
            viol.append({"property": "C06", "op": "from_scipy:" + c["conv"], "kind": "value", "code": code,
                         "clause": None,
                         "what": CODE_TEXT.get(code, str(code)), "case": c, "impl": r["r"], "numpy": r["ref"],
                         "replay_py": f"import numpy as np, scipy.sparse as sps, sparse; m = sps.{c['fmt']}_matrix((np.array({c['data']!r}), "
                                      f"np.array({c['indices']!r}), np.array({c['indptr']!r})), shape={tuple(c['shape'])!r}); "
                                      f"g = sparse.GCXS.from_scipy_sparse(m); print(g.indices, g.indptr, g[:, 1:3].todense(), m.toarray()[:, 1:3])"})
            continue
        if ci in seen_first and seen_first[ci] < si:
            continue                  # later steps of a program that already failed are consequences
        seen_first[ci] = si
        st = c["steps"][si]
        tag(f"verdict/{code}")
        if code == 4:
            # every raw result up to here is canonical and pruned; the dense VALUE differs from NumPy.  That is a
            # matter of the operation's own property (C01-C10), not of the canonical form: recorded, not a C06 violation
            diffs.append({"op": st["op"], "step": si, "case": {"inputs": c["inputs"], "steps": c["steps"][:si + 1]},
                          "impl": r["results"][si], "numpy": c["refs"][si], "replay_py": render(c, si)})
            continue
        clause = None
        viol.append({"property": "C06", "op": st["op"], "kind": "value", "clause": clause, "code": code,
                     "what": CODE_TEXT.get(code, str(code)), "step": si, "program_depth": len(c["steps"]),
                     "case": {"inputs": c["inputs"], "steps": c["steps"][:si + 1]},
                     "operands_raw": [r["inputs"][a[1]] if a[0] == "in" else r["results"][a[1]] for a in st["args"]],
                     "impl": r["results"][si], "numpy": c["refs"][si] if (not c.get("sweep") or c.get("with_ref")) else None,
                     "replay_py": render(c, si)})
    # ---------------- (c): the constructor model
    clits, cwhere = [], []
    for ci, (c, r) in enumerate(zip(cases, res, strict=True)):
        if c["kind"] != "ctor":
            continue
        fl = vpair(vbool(c["sorted"]), vbool(c["hd"]), vbool(c["prune"]))
        clits.append(vpair(fl, vlist(c["coords"], vlist), vlist(c["data"]), vlist(c["shape"]), vZ(c["fill"]),
                           vlib.sarr_lit(r.get("r") if r and "r" in r else r)))
        cwhere.append(ci)
        srt = c["coords"] == sorted(c["coords"])
        nod = len({tuple(x) for x in c["coords"]}) == len(c["coords"])
        tag("ctor/" + ("sorted-promise-false" if c["sorted"] and not srt else
                       "dup-promise-false" if (not c["hd"]) and not nod else "promises-kept"))
        tag("ctor-idx/" + str(c.get("idt")))
    for idx, code in build.judge("c06_ctor", "From Verif Require Import Py Shape COO GCXS SArr Ctor C06Judge.", "ctor_case", "judge_ctor", clits, chunk=400):
        c = cases[cwhere[idx]]
        viol.append({"property": "C06", "op": "COO.__init__", "kind": "representation", "clause": None, "code": code,
                     "what": "COO.__init__ and the model coo_ctor disagree", "case": c, "impl": res[cwhere[idx]],
                     "replay_py": f"import numpy as np, sparse; c=np.array({c['coords']!r}, dtype=np.intp).reshape({len(c['coords'])}, {len(c['shape'])}).T; "
                                  f"x=sparse.COO(c, np.array({c['data']!r}), shape={tuple(c['shape'])!r}, fill_value={c['fill']}, sorted={c['sorted']}, "
                                  f"has_duplicates={c['hd']}, prune={c['prune']}); print(x.coords, x.data)"})
    # ---------------- (d): csr @ csr
    klits, kwhere = [], []
    for ci, (c, r) in enumerate(zip(cases, res, strict=True)):
        if c["kind"] != "csr":
            continue
        if not r or "a" not in r:
            tag("csr/harness")
            continue
        ga, gb = vlib.sarr_lit(r["a"]), vlib.sarr_lit(r["b"])
        klits.append(vpair(ga[len("(SGcxs "):-1], gb[len("(SGcxs "):-1], vlib.sarr_lit(r["r"])))
        kwhere.append(ci)
        tag("csr/" + ("dense-result" if r["r"].get("k") == "gcxs" and len(r["r"]["data"]) == len(c["A"]) * len(c["B"][0]) else "partial"))
    for idx, code in build.judge("c06_csr", "From Verif Require Import Py Shape COO GCXS SArr Ctor C06Judge.", "csr_case", "judge_csr", klits, chunk=300):
        c = cases[kwhere[idx]]
        viol.append({"property": "C06", "op": "matmul_gcxs_gcxs", "kind": "representation", "clause": None, "code": code,
                     "what": "GCXS @ GCXS raw arrays differ from the kernel model dot_csr_csr + _prune", "case": c,
                     "impl": res[kwhere[idx]],
                     "replay_py": f"import numpy as np, sparse; a=sparse.GCXS.from_numpy(np.array({c['A']!r}), compressed_axes=(0,)); "
                                  f"b=sparse.GCXS.from_numpy(np.array({c['B']!r}), compressed_axes=(0,)); r=a@b; print(r.data, r.indices, r.indptr)"})
    qlits, qwhere = [], []
    for ci, (c, r) in enumerate(zip(cases, res, strict=True)):
        if c["kind"] != "cscnd":
            continue
        if not r or "a" not in r:
            tag("cscnd/harness")
            continue
        ga = vlib.sarr_lit(r["a"])
        bcols = [[row[j] for row in c["B"]] for j in range(len(c["B"][0]))]
        qlits.append(vpair(ga[len("(SGcxs "):-1], vlist(bcols, vlist), vlib.sarr_lit(r["r"])))
        qwhere.append(ci)
        tag("cscnd/" + str(r["r"].get("k")))
    for idx, code in build.judge("c06_cscnd", "From Verif Require Import Py Shape COO GCXS SArr Ctor C06Judge.", "cscnd_case", "judge_cscnd", qlits, chunk=300):
        c = cases[qwhere[idx]]
        viol.append({"property": "C06", "op": "tensordot_csc_ndarray_gcxs", "kind": "representation", "clause": None, "code": code,
                     "what": "tensordot(csc, ndarray, return_type=GCXS) raw arrays differ from the kernel model dot_csc_ndarray + _prune",
                     "case": c, "impl": res[qwhere[idx]],
                     "replay_py": f"import numpy as np, sparse; a=sparse.GCXS.from_numpy(np.array({c['A']!r}), compressed_axes=(1,)); "
                                  f"r=sparse.tensordot(a, np.array({c['B']!r}), axes=1, return_type=sparse.GCXS); print(r.data, r.indices, r.indptr)"})
    # ---------------- the site table, counted inside Coq
    header = ("From Coq Require Import String ZArith List.\nFrom Verif Require Import Ctor S_ctor_sites.\nImport ListNotations.\n"
              "Set Printing Width 100000.\nSet Printing Depth 100000.\n")
    body = ("Eval vm_compute in (site_counts coo_init_defaults site_justification ctor_sites).\n"
            "Eval vm_compute in (map (fun e => (j_file e, j_func e, j_ord e)) (filter (fun e => match j_just e with "
            "Unjustified _ => true | _ => false end) site_justification)).\n"
            "Eval vm_compute in (flat_map (fun e => match j_just e with JustifiedBy t _ => [(j_file e, j_func e, j_ord e, t)] "
            "| _ => [] end) site_justification).")
    site_info = {}
    try:
        out = build.eval_cases("c06_sites", header, [body])[0]
        ev = vlib.parse_eval_lists(out)
        nums = [int(x) for x in re.findall(r"-?\d+", ev[0])]
        site_info = {"constructor_call_sites": nums[0], "promising_sites": nums[1], "justified_by_proved_schema": nums[2],
                     "justified_by_cited_theorem": nums[3], "unjustified_correspondence_only": nums[4], "refuted": nums[5],
                     "cited": re.findall(r'\("([^"]*)"%?s?t?r?i?n?g?, "([^"]*)"%?s?t?r?i?n?g?, (\d+), "([^"]*)"%?s?t?r?i?n?g?\)', ev[2]),
                     "unjustified_sites": re.findall(r'\("([^"]*)"%?s?t?r?i?n?g?, "([^"]*)"%?s?t?r?i?n?g?, (\d+)\)', ev[1])}
    except Exception as ex:  # noqa: BLE001
        site_info = {"error": str(ex)[-300:]}
    cov = report["coverage"]
    cov["differential_mismatches_outside_c06"] = diffs[:10]
    if diffs:
        report["notes"].append(f"{len(diffs)} composed-program step(s) whose raw result is canonical but whose dense value differs from NumPy "
                               f"(first: {diffs[0]['op']} {diffs[0]['case']['steps'][-1]['p']}): not a C06 matter, see coverage.differential_mismatches_outside_c06")
    cov["timing_s"] = {"implementation": round(t_impl - t_gen, 1), "coq_judges": round(time.time() - t_impl, 1)}
    cov["evaluations"] = len(lits) + len(clits) + len(klits) + len(qlits)
    cov["distinct_nontrivial"] = len(distinct) + len({vlib.digest(cases[i]) for i in cwhere}) + len({vlib.digest(cases[i]) for i in kwhere})
    cov["rule"] = ("every step result of (a) one-step programs for each of the %d catalogue operations x operand formats "
                   "(COO / GCXS with random compressed axes / DOK, fills 0/3/-1, zero-length axes in the wild half) and (b) composed "
                   "programs of 2..%d steps is judged by sarr_wfb, sarr_prunedb, nnz = #non-fill (and, for (b), equality of the dense "
                   "meaning with NumPy) inside Coq; (c) COO.__init__ vs coo_ctor on raw inputs incl. false promises; (d) GCXS@GCXS vs "
                   "dot_csr_csr; distinct = distinct (operation, parameters, raw operands) with a sparse result + distinct (c),(d) cases"
                   % (len(OPS), 4 if tier == "quick" else 8))
    cov["programs"] = len([c for c in cases if c["kind"] == "prog" and not c.get("sweep")])
    cov["program_steps_judged"] = len([1 for (ci, si) in where if not cases[ci].get("sweep")])
    cov["sweep_cases"] = len([c for c in cases if c["kind"] == "prog" and c.get("sweep")])
    cov["sites"] = site_info
    cov["level_note"] = ("proof level for the constructor, the schemas, the programs theorem, the %s sites justified by a "
                         "proved schema and the %s sites justified by a cited theorem of another development; the %s Unjustified "
                         "sites are covered by the run-time judge only (correspondence level)"
                         % (site_info.get("justified_by_proved_schema"), site_info.get("justified_by_cited_theorem"),
                            site_info.get("unjustified_correspondence_only")))
    cov["samples"] = [dict(case={"inputs": cases[i]["inputs"], "steps": cases[i]["steps"]}, impl=(res[i] or {}).get("results"))
                      for i in (0, len(cases) // 5, len(cases) // 3) if cases[i]["kind"] == "prog"][:3]
    agg = {}
    for k, v in tags.items():
        parts = k.split("/")
        kk = k if parts[0] in ("ctor", "ctor-idx", "csr", "verdict", "exc", "idx_dtype", "narrow-nnz", "cscnd", "special-fill") else parts[0] + "/*/" + parts[-1]
        agg[kk] = agg.get(kk, 0) + v
    cov["branch_tags"] = dict(sorted(agg.items()))
    cov["per_operation"] = dict(sorted(tags.items()))
    return viol


def replay(path):
    v = json.load(open(path))
    print(json.dumps({k: v[k] for k in v if k not in ("replay_py",)}, indent=1, default=str)[:4000])
    if "replay_py" in v:
        import subprocess
        p = subprocess.run([vlib.PY, "-c", v["replay_py"]], env=vlib.env_clean(), capture_output=True, text=True, timeout=300)
        print(p.stdout[-3000:], p.stderr[-800:])
    return 0
