"""C02 — indexing.  Campaign part 1: exhaustive small-scope slice sweep.
   impl side: normalize_index (kernel level) and COO/GCXS/DOK x[sl] (API level);
   Coq side: generated normalisation (Gen/G_slicing.v) and Spec/PySlice.v."""
import itertools
import json
import os
import random

import vlib
from vlib import vZ, vlist, vopt, vpair

LEVEL = "proof"
TRUSTED_BASE = [
    "Coq 8.16.1 kernel + vm_compute (case evaluation); no native_compute",
    "axioms: none (Print Assumptions: Closed under the global context for every C02 theorem)",
    "tools/py2v.py fragment translator (Python ast -> Gallina over Lib/Py.v), self-checked by evaluating the "
    "generated normalisation against the implementation's normalize_index on the whole sweep",
    "Spec/PySlice.v as a description of CPython's slice.indices()/range(), cross-checked against the "
    "interpreter on the whole sweep",
    "tools/sitegen/indexing.py (picks scalar expressions out of loop bodies by structural address, fail-closed) "
    "feeding the unmodified py2v; coq/Lib/PyIndex.v (hand-written meaning of four list expressions)",
    "Spec/NpIndex.v as a description of NumPy basic + (adjacent) advanced indexing, cross-checked against "
    "NumPy's own x.todense()[index] on every generated in-grammar case (verdict kind 9)",
    "searchsorted modelled as plain bisection (Model/CooIndex.v bisect), validated through the kernel-level "
    "correspondence of _get_mask_pairs / get_array_selection only",
    "Model/DokGetitem.v models _fancy_key (check_index, sanitize_index, posify_index on every sequence) by normalize_index "
    "applied to the all-sequence key of full length — the same three helpers in the same order (generated fragments), "
    "replace_ellipsis / padding / replace_none / clip_slice being the identity on such a key; tied by exact correspondence",
    "Model/GcxsGetitem.v (the GCXS getitem wrapper) and Model/DokGetitem.v (DOK.__getitem__): hand transcriptions, tied by "
    "EXACT API-level correspondence (data/indices/indptr/compressed axes; dict items) on every generated case, also on "
    "the out-of-domain cases for DOK/COO; convert_to_flat's odometer loop is abstracted to its row-major list meaning "
    "(flat_sums) and tied at kernel level",
    "agent c05's Model/Convert.v + Proofs/Convert{L,M,G,P,U}.v (COO constructor, COO.from_iter, DOK.from_coo, gcxs_from_coo, "
    "gcxs_tocoo, gcxs_from_coo_wf/den, gcxs_image: every well-formed GCXS is from_coo of its COO form) imported read-only by "
    "the GCXS and DOK wrapper models/theorems",
    "correspondence harness tools/props/c02.py, tools/props/c02_index.py, tools/vlib.py",
]
UNPROVED = [
    "GCXS getitem with SEVERAL index arrays: false of the code (finding D21, outer-product shape) — no theorem, clause only",
    "DOK: a non-empty key of index sequences that does not name every axis raises NotImplementedError (clause "
    "dok_array_key_not_for_every_axis, refuted in Props: dok_partial_array_key_refuted); dok_fancy_getitem_den_partial covers "
    "integer sequences only (a key of per-axis boolean masks goes the same way through _fancy_key, tested, not stated)",
    "index arrays are modelled as lists of integers, their dtype is not modelled (narrow-dtype arrays on long axes are "
    "campaign cases only; the former finding narrow_dtype_index_array_overflow is repaired by 5e6e40f)",
    "the GCXS theorems assume strictly increasing compressed axes (GCXS.__init__ -> check_compressed_axes enforces it; "
    "c05's gcxs_wfb does not record it, so it is a separate hypothesis) and, for ndim = 1, empty compressed_axes/indptr fields",
    "normalize_index idempotence: proved per slice entry when the normalised stop is >= 0 (slice_norm_idempotent_partial), "
    "refuted in general (normalize_index_not_idempotent); the lift of the positive part to whole index tuples (integers, None, "
    "wrapped arrays are fixed points entry by entry) is not stated as a theorem",
    "hand-transcribed glue of normalize_index that is NOT a generated fragment: the loops themselves (map over the entries, "
    "zip with none_shape, the none_shape construction, tuple concatenation `idx += (slice(None),) * k`); every scalar decision "
    "inside them (replace_ellipsis, n_sliced_dims count, pad count, too-many test, check_index, sanitize, replace_none, "
    "posify_index, clip_slice) is regenerated from /repo",
]
ASSUMPTIONS = ["element values are opaque; dtype handling is not modelled"]


def impl_slice(case):
    import numpy as np
    import sparse
    from sparse.numba_backend._slicing import normalize_index
    a, b, c, dim, fmt = case
    sl = slice(a, b, c)
    try:
        n = normalize_index(sl, (dim,))[0]
        norm = (int(n.start), int(n.stop), int(n.step))
    except Exception as ex:  # noqa: BLE001
        norm = None
    x = np.arange(dim)
    if fmt == "coo":
        s = sparse.COO.from_numpy(x + 1)
    elif fmt == "gcxs":
        s = sparse.GCXS.from_numpy(x + 1)
    else:
        s = sparse.DOK.from_numpy(x + 1)
    try:
        r = s[sl]
        d = r.todense()
        assert d.ndim == 1
        sel = [int(v) - 1 for v in d]
        exc = None
    except Exception as ex:  # noqa: BLE001
        sel, exc = None, type(ex).__name__
    # the oracle of the Spec itself: CPython
    try:
        py = [int(v) for v in x[sl]]
    except Exception:  # noqa: BLE001
        py = None
    return {"norm": norm, "sel": sel, "exc": exc, "py": py}


def slice_cases(tier, seed):
    rng = random.Random(seed)
    if tier == "quick":
        bounds = [None] + list(range(-7, 8))
        steps = [None, 1, 2, 3, 7, -1, -2, -3, -7, 0]
        dims = [0, 1, 2, 3, 5]
    else:
        bounds = [None] + list(range(-9, 10))
        steps = [None, 1, 2, 3, 4, 7, 9, -1, -2, -3, -4, -7, -9, 0]
        dims = [0, 1, 2, 3, 4, 5, 7]
    cases = []
    for dim in dims:
        for a, b, c in itertools.product(bounds, bounds, steps):
            if abs(a or 0) > dim + 2 or abs(b or 0) > dim + 2:
                continue
            cases.append((a, b, c, dim, "coo"))
    # other formats on a sample
    extra = rng.sample(cases, min(len(cases), 600 if tier == "quick" else 4000))
    for (a, b, c, dim, _f) in extra:
        cases.append((a, b, c, dim, rng.choice(["gcxs", "dok"])))
    return cases


def campaign(build, tier, seed, report, budget=1):
    viol = []
    cases = slice_cases(tier, seed)
    res = vlib.run_impl("props.c02", "impl_slice", cases, workers=12)
    lits = []
    for (a, b, c, dim, _f), r in zip(cases, res, strict=True):
        if "norm" not in r:
            r.update({"norm": None, "sel": None, "py": None})
        norm = None if r["norm"] is None else vpair(*(vZ(v) for v in r["norm"]))
        lits.append(vpair(vopt(a), vopt(b), vopt(c), vZ(dim),
                          "None" if norm is None else f"(Some {norm})",
                          vopt(r["sel"], vlist)))
    header = ("From Coq Require Import ZArith List.\nFrom Verif Require Import Judge C02Judge.\n"
              "Import ListNotations.\nOpen Scope Z_scope.\nSet Printing Width 100000.\nSet Printing Depth 100000.\n")
    chunks = []
    CH = 500
    for k in range(0, len(lits), CH):
        chunks.append("Definition cases : list slice_case := [\n" + ";\n".join(lits[k:k + CH]) +
                      "].\nEval vm_compute in (run_judge judge_slice cases).")
    outs = build.eval_cases("c02_slices", header, chunks)
    tags = {}
    for k, out in enumerate(outs):
        ev = vlib.parse_eval_lists(out)
        assert len(ev) == 1, out[-500:]
        for idx, code in parse_pairs(ev[0]):
            i = k * CH + idx
            a, b, c, dim, fmt = cases[i]
            r = res[i]
            kind = {1: "representation", 2: "value"}[code]
            clause = None
            viol.append({"property": "C02", "op": "getitem_slice", "kind": kind, "clause": clause, "format": fmt,
                         "case": {"start": a, "stop": b, "step": c, "dim": dim, "format": fmt},
                         "impl": r, "expected_selection": r.get("py"),
                         "replay_py": f"import sparse, numpy as np; x=np.arange({dim})+1; "
                                      f"print(sparse.{ {'coo':'COO','gcxs':'GCXS','dok':'DOK'}[fmt] }.from_numpy(x)[{a}:{b}:{c}].todense(), x[{a}:{b}:{c}])"})
    # Spec vs CPython (validates Spec/PySlice.v): impl-independent
    spec_bad = 0
    for (a, b, c, dim, fmt), r in zip(cases, res, strict=True):
        tags[("step0" if c == 0 else "neg" if (c or 1) < 0 else "pos", "empty" if not r.get("py") else "nonempty")] = \
            tags.get(("step0" if c == 0 else "neg" if (c or 1) < 0 else "pos", "empty" if not r.get("py") else "nonempty"), 0) + 1
    cov = report["coverage"]
    cov["evaluations"] = len(cases)
    cov["distinct_nontrivial"] = len({(a, b, c, d) for (a, b, c, d, _f) in cases if c != 0})
    cov["rule"] = ("exhaustive sweep of slices (start, stop in {None,-k..k}, step in a fixed set incl. 0) over small "
                   "extents, COO for all, GCXS/DOK for a seeded sample; distinct = distinct (start,stop,step,dim) "
                   "with step != 0")
    cov["exhaustive"] = True
    cov["samples"] = [dict(case=cases[i], impl=res[i]) for i in (0, len(cases) // 2, len(cases) - 1)]
    cov["branch_tags"] = {f"{k[0]}/{k[1]}": v for k, v in sorted(tags.items())}
    # part 2: index tuples of the whole grammar on COO / GCXS / DOK, derived inputs, kernels (c02_index.py)
    from props import c02_index
    viol += c02_index.campaign_index(build, tier, seed, report, budget)
    ic = report.get("index_coverage", {})
    cov["slice_sweep_evaluations"] = cov["evaluations"]
    cov["evaluations"] += ic.get("evaluations", 0)
    cov["distinct_nontrivial"] += ic.get("distinct_nontrivial", 0)
    cov["rule"] += " || " + ic.get("rule", "")
    cov["branch_tags"].update(ic.get("branch_tags", {}))
    cov["samples"] = cov["samples"][:2] + ic.get("samples", [])[:2]
    cov["skipped_inputs"] = ic.get("skipped_inputs", {})
    cov["index_classes"] = ic.get("classes", 0)
    cov["outside_grammar_dropped"] = ic.get("outside_grammar_dropped", 0)
    cov["unproved_statements"] = UNPROVED
    return viol


def parse_pairs(s):
    s = s.strip()
    if s in ("[]", "nil"):
        return []
    out = []
    for m in __import__("re").finditer(r"\(\s*(-?\d+)\s*,\s*(-?\d+)\s*\)", s):
        out.append((int(m.group(1)), int(m.group(2))))
    return out


def replay(path):
    v = json.load(open(path))
    print(json.dumps(v, indent=1)[:3000])
    if "replay_py" in v:
        import subprocess
        p = subprocess.run([vlib.PY, "-c", v["replay_py"]], env=vlib.env_clean(), capture_output=True, text=True)
        print(p.stdout, p.stderr[-500:])
    return 0
