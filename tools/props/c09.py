"""C09 — joining and structural extraction agree with NumPy.


Campaign: concatenate / concat / stack over lists of 1..5 members (format mixes, compressed-axes
choices, member index dtypes, empty members, length-0 axes, every axis incl. negative and None,
mixed fills), the indptr splice of the GCXS joiner at kernel level, triu / tril for every k,
diagonal for every offset x ordered/unordered axis pair (incl. negative axes), diagonalize,
take.  The implementation runs in worker processes; the comparison with the model (exact
representation) and with the Spec (dense meaning, shape, fill, well-formed sparse result) runs
inside Coq (Corr/C09Judge.v)."""
import itertools
import json
import random

import vlib
from vlib import vZ, vlist, vopt, vpair

LEVEL = "proof"
TRUSTED_BASE = [
    "Coq 8.16.1 kernel + vm_compute (case evaluation); no native_compute",
    "axioms: none (Print Assumptions: Closed under the global context for every C09 theorem)",
    "tools/py2v.py (normalize_axis -> Gen/G_join.v) and tools/sitegen/join.py (constructor flags, guards, "
    "triu/tril/diagonal predicates and shape arithmetic via py2v's expression translator -> Gen/S_join.v); both are "
    "exercised by the correspondence: the judge evaluates the generated definitions on every case",
    "Spec/NpJoin.v as a description of np.concatenate/stack/triu/tril/diagonal/take (and of diagonalize's docstring), "
    "cross-checked against NumPy on the densified inputs for every generated case (worker side, field `np_ok`)",
    "correspondence harness tools/props/c09.py, tools/vlib.py, Corr/SArr.v, Corr/C09Judge.v",
    "hand transcription of the loops of _coo/common.py:concatenate/stack and _compressed/common.py (their text is "
    "pinned by tools/sitegen/join.py and their behaviour compared case by case)",
]
ASSUMPTIONS = [
    "element values are opaque (theorems polymorphic in V); dtype promotion of data is not modelled",
    "index dtypes are unbounded integers in the model (can_store/astype upcast is exercised by the campaign only)",
    "conversion of DOK/GCXS members to COO and GCXS.change_compressed_axes are modelled by their meaning (C05)",
    "take: take_*_getitem_den are about COO.__getitem__ as transcribed by property C02 (Model/CooIndex.v) and rest on "
    "C02's coo_getitem_den / coo_getitem_one_array_partial; take_int_den / take_list_den are about the result-level model",
    "GCXS joiners: gcxs_concat_den / gcxs_stack_den (with gcxs_wfb of the result) are stated for members that are "
    "canonical GCXS arrays (gcxs_from_coo of a canonical COO) and rest on property C05's change_axes_image, "
    "gcxs_from_coo_den/wf, tocoo_from_coo (Model/Convert.v, Proofs/ConvertG.v, ConvertP.v)",
]

FMT = {"coo": "COO", "gcxs": "GCXS", "dok": "DOK"}
CLAUSES = {
    1: ("representation", None), 2: ("value", None), 3: ("value", "result_not_wellformed_sparse"),
    4: ("value", "mixed_fills_not_rejected"),
    15: ("value", "diagonal_nonsquare"),
}


# ------------------------------------------------------------------ worker side
def _np_equal(res, expect):
    """independent cross-check (for the message and for validating the Spec): result.todense() == NumPy"""
    import numpy as np
    try:
        d = res.todense() if hasattr(res, "todense") else np.asarray(res)
        return bool(d.shape == expect.shape and np.array_equal(d, expect))
    except Exception as ex:  # noqa: BLE001  (a result that cannot even be densified is not NumPy's result)
        return "raises:" + type(ex).__name__


def _dense_from_plain(p):
    """dense array denoted by the raw representation (vlib.plain dict), computed without the library's own
    readers (todense / tocoo), so that a result whose stored numbers are right but which the library misreads
    (index dtype too narrow) can be told apart from a wrong result"""
    import itertools

    import numpy as np
    if p.get("k") not in ("coo", "gcxs", "dok"):
        return None
    shape = tuple(p["shape"])
    d = np.full(shape, p["fill"], dtype=object)
    if p["k"] == "coo":
        for c, v in zip(p["coords"], p["data"], strict=True):
            d[tuple(c)] = v
    elif p["k"] == "dok":
        for c, v in p["items"]:
            d[tuple(c)] = v
    else:
        nd = len(shape)
        if nd == 0:
            for v in p["data"]:
                d[()] = v
        elif nd == 1:
            for i, v in zip(p["indices"], p["data"], strict=True):
                d[i] = v
        else:
            ca = list(p["caxes"])
            order = ca + [a for a in range(nd) if a not in ca]
            rsh = [shape[a] for a in order]
            cs = 1
            for x in rsh[len(ca):]:
                cs *= x
            ip = p["indptr"]
            for r in range(len(ip) - 1):
                for pos in range(ip[r], ip[r + 1]):
                    lin = r * cs + p["indices"][pos]
                    t = np.unravel_index(lin, rsh) if all(rsh) else None
                    ix = [0] * nd
                    for a, tv in zip(order, t, strict=True):
                        ix[a] = int(tv)
                    d[tuple(ix)] = p["data"][pos]
    del itertools
    return d


def _build(spec):
    return vlib.build_array(spec, idx_dtype=spec.get("idx_dtype"))


def impl_join(case):
    import numpy as np
    import sparse
    members = [_build(s) for s in case["members"]]
    out = {"members": [vlib.plain(m) for m in members]}
    fn = {"concatenate": sparse.concatenate, "concat": sparse.concat, "stack": sparse.stack}[case["fn"]]
    kw = {}
    if case["caxes"] is not None:
        kw["compressed_axes"] = tuple(case["caxes"])
    try:
        r = fn(members, axis=case["axis"], **kw)
    except Exception as ex:  # noqa: BLE001
        r = ex
    out["res"] = vlib.plain(r)
    dens = [vlib.spec_dense(s) for s in case["members"]]
    try:
        e = (np.stack if case["fn"] == "stack" else np.concatenate)(dens, axis=case["axis"])
        out["np_ok"] = None if isinstance(r, Exception) else _np_equal(r, e)
        out["np_shape"] = list(e.shape)
        if not isinstance(r, Exception):
            dd = _dense_from_plain(out["res"])
            out["rep_ok"] = None if dd is None else bool(dd.shape == e.shape and (dd == e).all())
    except Exception as ex:  # noqa: BLE001
        out["np_ok"] = None
        out["np_exc"] = type(ex).__name__
    # kernel level: the spliced indptr of the GCXS joiner
    try:
        if all(isinstance(m, sparse.GCXS) for m in members) and members[0].ndim >= 2 and case["axis"] is not None \
                and not isinstance(r, Exception) and len({m.fill_value.item() for m in members}) == 1:
            nd = members[0].ndim + (1 if case["fn"] == "stack" else 0)
            ax = case["axis"] + nd if case["axis"] < 0 else case["axis"]
            if case["fn"] == "stack":
                ms = []
                for m in members:
                    sh = list(m.shape)
                    sh.insert(ax, 1)
                    ms.append(m.reshape(sh).change_compressed_axes((ax,)))
            else:
                ms = [m.change_compressed_axes((ax,)) for m in members]
            r0 = fn(members, axis=case["axis"])
            out["splice"] = {"members": [[[int(v) for v in m.indptr], int(m.nnz)] for m in ms],
                             "out": [int(v) for v in r0.indptr]}
    except Exception as ex:  # noqa: BLE001
        out["splice_exc"] = type(ex).__name__
    return out


def impl_extract(case):
    import numpy as np
    import sparse
    x = _build(case["x"])
    d = vlib.spec_dense(case["x"])
    out = {"x": vlib.plain(x)}
    op = case["op"]
    try:
        if op == "triu":
            r = sparse.triu(x, case["k"])
        elif op == "tril":
            r = sparse.tril(x, case["k"])
        elif op == "diagonal":
            r = sparse.diagonal(x, offset=case["offset"], axis1=case["axis1"], axis2=case["axis2"])
        elif op == "diagonalize":
            r = sparse.diagonalize(x, axis=case["axis"])
        elif op == "take":
            ind = case["ind"]
            r = sparse.take(x, np.array(ind, dtype=np.intp) if (isinstance(ind, list) and case.get("as_array")) else ind,
                            axis=case["axis"])
        else:
            raise AssertionError(op)
    except Exception as ex:  # noqa: BLE001
        r = ex
    out["res"] = vlib.plain(r)
    try:
        if op == "triu":
            e = np.triu(d, case["k"])
        elif op == "tril":
            e = np.tril(d, case["k"])
        elif op == "diagonal":
            e = np.diagonal(d, case["offset"], case["axis1"], case["axis2"])
        elif op == "take":
            e = np.take(d, case["ind"], axis=case["axis"])
        else:
            e = None
        out["np_ok"] = None if (e is None or isinstance(r, Exception)) else _np_equal(r, e)
    except Exception as ex:  # noqa: BLE001
        out["np_ok"] = None
        out["np_exc"] = type(ex).__name__
    return out


def impl_any(case):
    return impl_join(case) if "fn" in case else impl_extract(case)


# ------------------------------------------------------------------ generators
def _member(rng, shape, fmt, fill, idx_dtype=None, density=None):
    s = vlib.gen_array_spec(rng, shape=shape, fills=(fill,), formats=(fmt,), density=density)
    if idx_dtype:
        s["idx_dtype"] = idx_dtype
    return s


def _format_mix(rng, n, kind):
    if kind == "coo":
        return ["coo"] * n
    if kind == "gcxs":
        return ["gcxs"] * n
    if kind == "dok":
        return [rng.choice(["dok", "coo"]) for _ in range(n - 1)] + ["dok"]
    return [rng.choice(["coo", "gcxs", "dok"]) for _ in range(n)]


def _exact_member(rng, shape, nnz, fmt, idx_dtype, caxes=None):
    """a member with exactly nnz stored elements (fill 0)"""
    import itertools
    cells = list(itertools.product(*[range(d) for d in shape]))
    pos = sorted(rng.sample(cells, nnz))
    return {"shape": list(shape), "coords": [list(p) for p in pos], "data": [rng.choice((1, 2, 3, -1)) for _ in pos],
            "fill": 0, "format": fmt, "caxes": caxes, "idx_dtype": idx_dtype}


def capacity_cases(tier, rng):
    """GCXS joiners with narrow index dtypes whose TOTAL nnz / joined ROW COUNT sits at the dtype's capacity
    (cap-1, cap, cap+1, cap+2): the index pointer has to hold the total nnz and, when uncompressed, every row
    number.  int16 cases are too large for the in-Coq judge: they are judged by the raw-representation and
    todense() cross-checks against NumPy only (`py_only`)."""
    cases = []
    for dt, cap, py_only in (("int8", 127, False), ("uint8", 255, False), ("int16", 32767, True)):
        if py_only and tier == "quick" and rng.random() < 0.0:
            continue
        for delta in (-1, 0, 1, 2):
            total = cap + delta
            # (1) total nnz at capacity: two or three members, few rows
            for fn, axis, caxes in (("concatenate", 0, None), ("concatenate", 1, None), ("concatenate", -1, [0]),
                                    ("concatenate", -2, [1]), ("stack", 0, None), ("stack", 2, None), ("stack", -2, [0])):
                if py_only and (fn, axis) not in (("concatenate", 0), ("stack", 0)):
                    continue
                n = 2 if py_only or rng.random() < 0.6 else 3
                if fn == "stack":
                    n = 2
                rows = 200 if py_only else (40 if cap == 127 else 70)
                cols = 100 if py_only else 2
                parts = [total // n + (1 if i < total % n else 0) for i in range(n)]
                ms = [_exact_member(rng, (rows, cols), parts[i], "gcxs", dt, caxes=rng.choice(([0], [1])))
                      for i in range(n)]
                cases.append({"fn": fn, "axis": axis, "caxes": caxes, "members": ms, "tag": "capacity-nnz:" + dt,
                              "py_only": py_only})
            # (2) joined row count at capacity: concatenation along the (to be) compressed axis, few elements
            for axis, caxes in ((0, None), (-2, [0]), (1, None), (0, [1])):
                if py_only and axis != 0:
                    continue
                n = 2 if py_only else rng.choice((2, 3))
                parts = [total // n + (1 if i < total % n else 0) for i in range(n)]
                ms = []
                for i in range(n):
                    sh = [2, 2]
                    sh[axis] = parts[i]
                    ms.append(_exact_member(rng, sh, min(6, parts[i]), "gcxs", dt, caxes=rng.choice(([0], [1]))))
                cases.append({"fn": "concatenate", "axis": axis, "caxes": caxes, "members": ms,
                              "tag": "capacity-rows:" + dt, "py_only": py_only})
    return cases


def join_cases(tier, rng):
    cases = []
    reps = 2 if tier == "quick" else 10
    ndims = (1, 2, 3) if tier == "quick" else (1, 2, 3, 4)
    exts = (0, 1, 2, 3) if tier == "quick" else (0, 1, 2, 3, 5)
    for fn in ("concatenate", "stack"):
        for nd in ((0,) + ndims if fn == "stack" else ndims):
            axes = list(range(-nd, nd)) + [None] if fn == "concatenate" else list(range(-nd - 1, nd + 1))
            for axis in axes:
                for kind in ("coo", "gcxs", "dok", "mix"):
                    for n in (1, 2, 3, 4, 5):
                        for _ in range(reps if n > 1 else 1):
                            base = [rng.choice(exts) for _ in range(nd)]
                            fill = rng.choice([0, 0, 0, 3, -1])
                            fmts = _format_mix(rng, n, kind)
                            ms = []
                            for i in range(n):
                                sh = list(base)
                                if fn == "concatenate" and nd and axis is not None:
                                    sh[axis] = rng.choice(exts)
                                elif fn == "concatenate" and axis is None:
                                    sh = [rng.choice(exts) for _ in range(nd)]
                                dens = rng.choice([0.0, 0.3, 0.6, 1.0])
                                ms.append(_member(rng, sh, fmts[i], fill, density=dens))
                            caxes = None
                            nd_out = nd + (1 if fn == "stack" else 0)
                            if kind == "gcxs" and nd_out >= 2 and rng.random() < 0.4:
                                k = rng.randint(1, nd_out - 1)
                                caxes = sorted(rng.sample(range(nd_out), k))
                            name = fn if (fn == "stack" or rng.random() < 0.7) else "concat"
                            cases.append({"fn": name, "axis": axis, "caxes": caxes, "members": ms, "tag": kind})
    # members that do not fit (an off-axis extent differs / ndim differs / shapes differ for stack): NumPy raises
    for _ in range(40 if tier == "quick" else 200):
        nd = rng.randint(1, 3)
        n = rng.randint(2, 4)
        base = [rng.choice((1, 2, 3)) for _ in range(nd)]
        fmts = _format_mix(rng, n, rng.choice(["coo", "gcxs", "dok", "mix"]))
        fn = rng.choice(["concatenate", "stack", "concat"])
        axis = rng.randrange(-nd, nd)
        bad = rng.randrange(n)
        ms = []
        for i in range(n):
            sh = list(base)
            if i == bad:
                how = rng.choice(["extent", "ndim"])
                if how == "ndim":
                    sh = sh + [rng.choice((1, 2))] if rng.random() < 0.5 or nd == 1 else sh[:-1]
                else:
                    others = [a for a in range(nd) if fn == "stack" or a != axis % nd]
                    if not others:
                        sh = sh + [2]
                    else:
                        a = rng.choice(others)
                        sh[a] += rng.choice((1, 2))
            ms.append(_member(rng, sh, fmts[i], 0))
        cases.append({"fn": fn, "axis": axis, "caxes": None, "members": ms, "tag": "mismatch"})
    # directed: members with a single leading row stacked along a late axis (entries arrive member-major,
    # the constructor has to sort), and along every axis of 2-/3-d members
    for sh in ([1, 2], [1, 3], [1, 2, 2], [1, 1, 3], [2, 1, 2]):
        for axis in range(-len(sh) - 1, len(sh) + 1):
            for fmt in ("coo", "gcxs"):
                ms = [_member(rng, sh, fmt, 0, density=rng.choice([0.7, 1.0])) for _ in range(rng.choice([2, 3]))]
                cases.append({"fn": "stack", "axis": axis, "caxes": None, "members": ms, "tag": "single-leading-row"})
    # mixed fills must be rejected
    for _ in range(40 if tier == "quick" else 200):
        nd = rng.randint(1, 3)
        n = rng.randint(2, 5)
        base = [rng.choice((1, 2, 3)) for _ in range(nd)]
        fmts = _format_mix(rng, n, rng.choice(["coo", "gcxs", "dok", "mix"]))
        bad = rng.randrange(1, n)
        ms = [_member(rng, base, fmts[i], 5 if i == bad else 0) for i in range(n)]
        fn = rng.choice(["concatenate", "stack", "concat"])
        cases.append({"fn": fn, "axis": rng.randrange(-nd, nd), "caxes": None, "members": ms, "tag": "mixed_fill"})
    # member index dtypes: total extent along the axis crosses 127 / 255
    for _ in range(30 if tier == "quick" else 150):
        nd = rng.choice([1, 2])
        n = rng.randint(2, 5)
        big = rng.choice([60, 100, 127])
        dt = rng.choice(["int8", "uint8", "int16", "int64"])
        fn = rng.choice(["concatenate", "concatenate", "stack"])
        fmts = _format_mix(rng, n, rng.choice(["coo", "coo", "gcxs", "mix"]))
        base = [rng.choice((1, 2)) for _ in range(nd)]
        pos = rng.randrange(nd)
        base[pos] = big
        if fn == "concatenate":
            axis = rng.choice([pos, pos - nd])
            ms = []
            for i in range(n):
                sh = list(base)
                sh[pos] = rng.choice([big, big - 1, 1, 0]) if i else big
                ms.append(_member(rng, sh, fmts[i], 0, idx_dtype=dt, density=rng.choice([0.05, 0.2])))
        else:
            axis = rng.randrange(-nd - 1, nd + 1)
            ms = [_member(rng, base, fmts[i], 0, idx_dtype=dt, density=rng.choice([0.05, 0.2])) for i in range(n)]
        cases.append({"fn": fn, "axis": axis, "caxes": None, "members": ms, "tag": "idx_dtype:" + dt})
    # directed regressions (fixed defect, /repo 36b3bc9): all-GCXS members with narrow indices, joined
    # extent beyond the index dtype
    for dt, ext in (("int8", 100), ("uint8", 200), ("int16", 100)):
        for ax in (0, 1, -1):
            base = [2, 2]
            base[ax] = ext
            ms = [_member(rng, base, "gcxs", 0, idx_dtype=dt, density=0.1) for _ in range(2)]
            cases.append({"fn": "concatenate", "axis": ax, "caxes": None, "members": ms, "tag": "idx_dtype:" + dt})
    cases += capacity_cases(tier, rng)
    return cases


def extract_cases(tier, rng):
    cases = []
    reps = 1 if tier == "quick" else 5
    # triu / tril: every k in [-n-1, n+1]
    for nd in (2, 3, 4) if tier == "thorough" else (2, 3):
        for n, m in itertools.product((0, 1, 2, 3), repeat=2):
            for _ in range(reps):
                lead = [rng.choice((1, 2)) for _ in range(nd - 2)]
                sh = lead + [n, m]
                for fmt, fill in (("coo", 0), ("coo", 0), ("gcxs", 0), ("coo", 2), ("dok", 0)):
                    if fmt != "coo" and rng.random() < 0.6:
                        continue
                    x = _member(rng, sh, fmt, fill)
                    hi = max(n, m) + 1
                    for k in (range(-hi, hi + 1) if fill == 0 else (-1, 0, 2)):   # non-zero fill: documented ValueError
                        for op in (("triu", "tril") if fmt == "coo" else (rng.choice(["triu", "tril"]),)):
                            cases.append({"op": op, "k": k, "x": x})
    if tier == "thorough":
        for _ in range(150):
            sh = [rng.choice((1, 2)), rng.choice((1, 2)), rng.choice((0, 1, 2, 3)), rng.choice((0, 1, 2, 3))]
            x = _member(rng, sh, "coo", 0)
            for k in range(-4, 5):
                cases.append({"op": rng.choice(["triu", "tril"]), "k": k, "x": x})
    # 1-d (documented NotImplementedError)
    for k in (-1, 0, 1):
        cases.append({"op": "triu", "k": k, "x": _member(rng, [3], "coo", 0)})
        cases.append({"op": "tril", "k": k, "x": _member(rng, [3], "coo", 0)})
    # diagonal: every offset in [-n, n] x every ordered pair of distinct axes, positive and negative spelling
    for nd in (2, 3) if tier == "quick" else (2, 3, 4):
        shapes = []
        for n in (0, 1, 2, 3):
            shapes.append(("square", [n] * nd))
        for _ in range(3 * reps):
            shapes.append(("mixed", [rng.choice((1, 2, 3)) for _ in range(nd)]))
        for kind, sh in shapes:
            for a1, a2 in itertools.permutations(range(nd), 2):
                for fmt, fill in (("coo", 0), ("coo", 4), ("gcxs", 0)):
                    if fmt == "gcxs" and rng.random() < 0.8:
                        continue
                    if fill and rng.random() < 0.5:
                        continue
                    x = _member(rng, sh, fmt, fill, density=rng.choice([0.3, 0.7, 1.0]))
                    n = max(sh[a1], sh[a2])
                    for off in range(-n, n + 1):
                        neg = rng.random() < 0.25
                        cases.append({"op": "diagonal", "offset": off,
                                      "axis1": a1 - nd if (neg and rng.random() < 0.5) else a1,
                                      "axis2": a2 - nd if neg else a2, "x": x})
    # equal axes (both spellings): NumPy raises ValueError
    for nd in (2, 3):
        for a in range(nd):
            x = _member(rng, [2] * nd, "coo", 0)
            for a2 in (a, a - nd):
                cases.append({"op": "diagonal", "offset": rng.choice([-1, 0, 1]), "axis1": a, "axis2": a2, "x": x})
    # diagonalize: every axis incl. negative
    for nd in (1, 2, 3):
        for _ in range(4 * reps):
            sh = [rng.choice((0, 1, 2, 3)) for _ in range(nd)]
            for fmt, fill in (("coo", 0), ("gcxs", 0), ("dok", 0), ("coo", 9)):
                x = _member(rng, sh, fmt, fill)
                for axis in range(-nd, nd):
                    cases.append({"op": "diagonalize", "axis": axis, "x": x})
    # take: one integer or a 1-d list along every axis (incl. negative and None)
    for nd in (1, 2, 3):
        for _ in range(5 * reps):
            sh = [rng.choice((1, 2, 3, 4)) for _ in range(nd)]
            for fmt, fill in (("coo", 0), ("coo", 7), ("gcxs", 0), ("dok", 0)):
                x = _member(rng, sh, fmt, fill)
                for axis in list(range(-nd, nd)) + [None]:
                    n = sh[axis] if axis is not None else 1
                    if axis is None:
                        n = 1
                        for d in sh:
                            n *= d
                    ind = rng.choice([
                        rng.randrange(-n, n),
                        [rng.randrange(-n, n) for _ in range(rng.randint(0, 4))],
                        [rng.randrange(0, n) for _ in range(rng.randint(1, 3))],
                        sorted(rng.sample(range(n), rng.randint(1, n))),
                    ])
                    cases.append({"op": "take", "axis": axis, "ind": ind, "x": x,
                                  "as_array": isinstance(ind, list) and (len(ind) == 0 or rng.random() < 0.5)})
    # every signed and unsigned coordinate dtype: negative and positive offsets / k, every ordered axis pair
    for dt in ("int8", "int16", "int32", "int64", "uint8", "uint16", "uint32", "uint64"):
        for sh in ([3, 3], [2, 2, 2]) if tier == "quick" else ([3, 3], [2, 2, 2], [3, 2, 3], [2, 3, 3, 2]):
            nd = len(sh)
            x = _member(rng, sh, "coo", rng.choice([0, 0, 5]), idx_dtype=dt, density=rng.choice([0.7, 1.0]))
            for a1, a2 in itertools.permutations(range(nd), 2):
                if sh[a1] != sh[a2]:
                    continue
                n = sh[a1]
                for off in range(-n, n + 1):
                    neg = rng.random() < 0.3
                    cases.append({"op": "diagonal", "offset": off, "axis1": a1 - nd if neg else a1, "axis2": a2, "x": x})
            x0 = _member(rng, sh, "coo", 0, idx_dtype=dt, density=rng.choice([0.7, 1.0]))
            for k in range(-3, 4):
                cases.append({"op": "triu", "k": k, "x": x0})
                cases.append({"op": "tril", "k": k, "x": x0})
            for axis in range(-nd, nd):
                cases.append({"op": "diagonalize", "axis": axis, "x": x0})
    # row + k / offset beyond the coordinate dtype's maximum: stored elements in the last rows and columns of an array
    # whose extents sit at the dtype's capacity (seeded C09-m5: `row + k` formed in the narrow dtype wraps)
    for dt, n in (("int8", 127), ("int8", 128), ("uint8", 255), ("uint8", 256)) + ((("int16", 300),) if tier != "quick" else ()):
        for lead in ([], [2]):
            sh = lead + [n, n]
            cells = {(n - 1, 0), (n - 1, n - 1), (n - 2, 1), (0, n - 1), (n // 2, n // 2), (n - 3, n - 4), (1, 0)}
            while len(cells) < 14:
                cells.add((rng.randrange(n), rng.randrange(n)))
            pos = sorted(tuple(rng.randrange(d) for d in lead) + c for c in cells)
            x0 = {"shape": sh, "coords": [list(q) for q in sorted(set(pos))], "fill": 0, "format": "coo", "caxes": None,
                  "idx_dtype": dt}
            x0["data"] = [rng.choice((1, 2, 3, -1)) for _ in x0["coords"]]
            for k in (1, 3, 20, n - 2, -4):
                cases.append({"op": "triu", "k": k, "x": x0})
                cases.append({"op": "tril", "k": k, "x": x0})
            if not lead:
                for off in (1, 3, n - 2, -3):
                    cases.append({"op": "diagonal", "offset": off, "axis1": 0, "axis2": 1, "x": x0})
    return cases


# ------------------------------------------------------------------ replay text
def _mk(spec):
    import numpy as np  # noqa: F401
    nd = len(spec["shape"])
    co = [list(c) for c in zip(*spec["coords"], strict=True)] if spec["coords"] else [[] for _ in range(nd)]
    s = (f"sparse.COO(np.array({co},dtype='{spec.get('idx_dtype') or 'int64'}').reshape({nd},-1),"
         f"np.array({spec['data']},dtype='int64'),shape={tuple(spec['shape'])},fill_value=np.int64({spec['fill']}))")
    if spec["format"] == "gcxs":
        ca = f",compressed_axes={tuple(spec['caxes'])}" if spec.get("caxes") is not None and nd >= 2 else ""
        s = f"sparse.GCXS.from_coo({s}{ca})"
    elif spec["format"] == "dok":
        s = f"sparse.DOK.from_coo({s})"
    return s


def replay_join(case):
    ms = ",".join(_mk(s) for s in case["members"])
    ca = f",compressed_axes={tuple(case['caxes'])}" if case["caxes"] is not None else ""
    npf = "np.stack" if case["fn"] == "stack" else "np.concatenate"
    return (f"import sparse,numpy as np; ms=[{ms}]; e={npf}([m.todense() for m in ms],axis={case['axis']}); "
            f"r=sparse.{case['fn']}(ms,axis={case['axis']}{ca}); print(type(r).__name__, r.fill_value, r.shape, e.shape, "
            f"np.array_equal(r.todense(), e))")


def replay_extract(case):
    x = _mk(case["x"])
    op = case["op"]
    if op in ("triu", "tril"):
        call, ref = f"sparse.{op}(x,{case['k']})", f"np.{op}(x.todense(),{case['k']})"
    elif op == "diagonal":
        a = f"{case['offset']},{case['axis1']},{case['axis2']}"
        call, ref = f"sparse.diagonal(x,{a})", f"np.diagonal(x.todense(),{a})"
    elif op == "diagonalize":
        call, ref = f"sparse.diagonalize(x,{case['axis']})", "'(x[..., i, ..., j] = x[...] if i == j else 0; fill must stay representable)'"
    else:
        call, ref = f"sparse.take(x,{case['ind']},axis={case['axis']})", f"np.take(x.todense(),{case['ind']},axis={case['axis']})"
    return (f"import sparse,numpy as np; x={x}; print('expected', {ref}); r={call}; "
            f"print(type(r).__name__, getattr(r,'fill_value',None), r.todense() if hasattr(r,'todense') else r)")


# ------------------------------------------------------------------ campaign
def _lit_join(case, r):
    fn = 1 if case["fn"] == "stack" else 0
    members = vlist(r["members"], vlib.sarr_lit)
    return vpair(vZ(fn), vopt(case["axis"]), vopt(case["caxes"], vlist), members, vlib.sarr_lit(r["res"]))


def _lit_extract(case, r):
    x, res = vlib.sarr_lit(r["x"]), vlib.sarr_lit(r["res"])
    op = case["op"]
    if op in ("triu", "tril"):
        return "tri", vpair(vZ(0 if op == "triu" else 1), vZ(case["k"]), x, res)
    if op == "diagonal":
        return "diag", vpair(vZ(case["offset"]), vZ(case["axis1"]), vZ(case["axis2"]), x, res)
    if op == "diagonalize":
        return "diagz", vpair(vZ(case["axis"]), x, res)
    ind = case["ind"]
    il = f"(inl {vlist(ind)})" if isinstance(ind, list) else f"(inr {vZ(ind)})"
    return "take", vpair(vopt(case["axis"]), il, x, res)


IMPORTS = "From Verif Require Import Py Shape COO GCXS SArr C09Judge."


def campaign(build, tier, seed, report, budget=1):
    rng = random.Random(seed)
    viol = []
    tags = {}
    # the judge is not a dependency of Props/C09.vo: (re)build it against the regenerated Gen/ files.  When it
    # does not build (the source left the shape the extractor pins), check.py re-runs this campaign with the
    # reference model (committed Gen/) to find a concrete failing input.
    ok, out = build.make(["Corr/C09Judge.vo"], timeout=900)
    if not ok:
        raise vlib.CoqEvalError("Corr/C09Judge.vo does not build:\n" + out[-1500:])

    def tag(t):
        tags[t] = tags.get(t, 0) + 1

    jc = join_cases(tier, rng)
    ec = extract_cases(tier, rng)
    if budget > 1:
        rng2 = random.Random(seed + 1)
        jc += join_cases(tier, rng2)
        ec += extract_cases(tier, rng2)
    allr = vlib.run_impl("props.c09", "impl_any", jc + ec, workers=6)     # one pool: the JIT warm-up is paid once
    jr, er = allr[:len(jc)], allr[len(jc):]
    def failed(r):
        return r is None or "res" not in r

    notes = report.setdefault("notes", [])
    spec_vs_numpy = 0

    # ---- joins
    jl, jmap = [], []
    bad_py = set()
    for i, (c, r) in enumerate(zip(jc, jr, strict=True)):
        if failed(r):
            viol.append({"property": "C09", "op": c["fn"], "kind": "value", "clause": "hang_or_crash",
                         "case": c, "impl": r, "replay_py": replay_join(c)})
            continue
        if c.get("py_only"):
            # too large for the in-Coq judge: raw representation and todense() against NumPy, shape/format/fill here
            res = r["res"]
            bad = (res.get("k") not in ("coo", "gcxs", "dok") or r.get("rep_ok") is not True
                   or res.get("fill") != c["members"][0]["fill"])
            if bad:
                viol.append({"property": "C09", "op": "concatenate" if c["fn"] == "concat" else c["fn"], "kind": "value",
                             "clause": None, "what": "large case judged against NumPy only", "case": c, "impl":
                             {k: v for k, v in res.items() if k not in ("data", "indices", "indptr", "coords")},
                             "replay_py": replay_join(c)})
                bad_py.add(id(c))
            continue
        jl.append(_lit_join(c, r))
        jmap.append(i)
    for idx, code in build.judge("c09_join", IMPORTS, "join_case", "judge_join", jl, chunk=150):
        i = jmap[idx]
        c, r = jc[i], jr[i]
        if code == 9:
            raise vlib.CoqEvalError(f"judge_join could not read case {i}: {json.dumps(c)[:400]}")
        kind, clause = CLAUSES[code]
        viol.append({"property": "C09", "op": "concatenate" if c["fn"] == "concat" else c["fn"], "kind": kind,
                     "clause": clause, "code": code, "case": c, "impl": r["res"], "numpy_agrees": r.get("np_ok"),
                     "replay_py": replay_join(c)})
    bad_codes = {}
    for v in viol:
        bad_codes[id(v["case"])] = v.get("code")
    for c, r in zip(jc, jr, strict=True):
        if failed(r):
            continue
        fills = {s["fill"] for s in c["members"]}
        fm = {s["format"] for s in c["members"]}
        nd = len(c["members"][0]["shape"]) + (1 if c["fn"] == "stack" else 0)
        nd_in = 1 if c["axis"] is None else len(c["members"][0]["shape"])
        low = nd_in <= 1 if c["fn"] == "stack" else nd_in == 1
        path = "gcxs-joiner" if fm == {"gcxs"} and not low else "coo-joiner"
        if len(fills) > 1:
            tag("join/mixed-fill")
        elif c["tag"] == "mismatch":
            tag(f"join/shape-mismatch/{'raises-' + str(r['res'].get('cls')) if r['res'].get('k') == 'exc' else 'returns'}")
        elif r["res"].get("k") == "exc":
            tag(f"join/{path}/raises-{r['res'].get('cls')}")
        elif path == "coo-joiner":
            ax = c["axis"]
            tag("join/coo-joiner/" + ("sorted-flag-true" if ax is None or ax in (0, -nd) else "constructor-sorts"))
        else:
            tag("join/gcxs-joiner/" + ("compressed_axes-given" if c["caxes"] is not None else "default-caxes"))
        if c["tag"].startswith("capacity"):
            tag("join/" + c["tag"] + "->" + str(r["res"].get("idx_dtype", r["res"].get("cls"))))
        if c["tag"].startswith("idx_dtype"):
            tag("join/" + c["tag"] + "->" + str(r["res"].get("idx_dtype")))
        # the Spec itself against NumPy: whenever the judge accepted a non-exception result, NumPy must agree
        if r.get("rep_ok") is False and id(c) not in bad_codes:
            spec_vs_numpy += 1
            viol.append({"property": "C09", "op": c["fn"], "kind": "representation", "clause": "spec_differs_from_numpy",
                         "case": c, "impl": r["res"], "replay_py": replay_join(c)})
        # the stored numbers are right (the judge accepted them, and they denote NumPy's result) but the library
        # itself cannot read the object back: its index dtype is too narrow for the joined extent
        # (todense()/tocoo() raise, or wrap around silently)
        if r.get("rep_ok") and (r.get("np_ok") is False or isinstance(r.get("np_ok"), str)) \
                and id(c) not in bad_codes:
            tag("join/result-unreadable/" + str(r["res"].get("idx_dtype")))
            viol.append({"property": "C09", "op": "concatenate" if c["fn"] == "concat" else c["fn"], "kind": "value",
                         "clause": None, "what": "joined result cannot be read back (index dtype too narrow); "
                         "fixed in /repo 36b3bc9, a recurrence is a new violation", "case": c, "impl": r["res"],
                         "todense": r["np_ok"], "replay_py": replay_join(c)})

    # ---- kernel: indptr splice
    sl, smap = [], []
    for i, r in enumerate(jr):
        if not failed(r) and "splice" in r and not jc[i].get("py_only"):
            s = r["splice"]
            sl.append(vpair(vlist(s["members"], lambda m: vpair(vlist(m[0]), vZ(m[1]))), vlist(s["out"])))
            smap.append(i)
    for idx, code in build.judge("c09_splice", IMPORTS, "splice_case", "judge_splice", sl, chunk=400):
        i = smap[idx]
        viol.append({"property": "C09", "op": "gcxs_indptr_splice", "kind": "representation", "clause": None, "code": code,
                     "case": jc[i], "impl": jr[i]["splice"], "replay_py": replay_join(jc[i])})
    tags["kernel/indptr-splice"] = len(sl)

    # ---- extractors
    groups = {"tri": ([], []), "diag": ([], []), "diagz": ([], []), "take": ([], [])}
    for i, (c, r) in enumerate(zip(ec, er, strict=True)):
        if failed(r):
            viol.append({"property": "C09", "op": c["op"], "kind": "value", "clause": "hang_or_crash",
                         "case": c, "impl": r, "replay_py": replay_extract(c)})
            continue
        g, lit = _lit_extract(c, r)
        groups[g][0].append(lit)
        groups[g][1].append(i)
        res = r["res"]
        t = c["op"] + "/" + c["x"]["format"] + ("/fill0" if c["x"]["fill"] == 0 else "/fill-nonzero")
        if c["op"] == "diagonal":
            sq = c["x"]["shape"][c["axis1"]] == c["x"]["shape"][c["axis2"]]
            t += ("/offset<0" if c["offset"] < 0 else "/offset>=0") + ("" if sq else "/nonsquare") + \
                 ("/negative-axis" if min(c["axis1"], c["axis2"]) < 0 else "") + \
                 ("/same-axis" if (c["axis1"] - c["axis2"]) % len(c["x"]["shape"]) == 0 else "") + \
                 ("/axis1>axis2" if c["axis1"] % len(c["x"]["shape"]) > c["axis2"] % len(c["x"]["shape"]) else "")
        if c["op"] == "take":
            t += "/int" if not isinstance(c["ind"], list) else "/list"
            t += "/axis-None" if c["axis"] is None else ""
        t += "/idx:" + c["x"]["idx_dtype"] if c["x"].get("idx_dtype") else ""
        t += "/raises-" + str(res.get("cls")) if res.get("k") == "exc" else ""
        tag(t)
    for g, (lits, imap) in groups.items():
        ctype = {"tri": "tri_case", "diag": "diag_case", "diagz": "diagz_case", "take": "take_case"}[g]
        for idx, code in build.judge("c09_" + g, IMPORTS, ctype, "judge_" + g, lits, chunk=300):
            i = imap[idx]
            c, r = ec[i], er[i]
            if code == 9:
                raise vlib.CoqEvalError(f"judge_{g} could not read case {i}: {json.dumps(c)[:400]}")
            kind, clause = CLAUSES[code]
            viol.append({"property": "C09", "op": c["op"], "kind": kind, "clause": clause, "code": code, "case": c,
                         "impl": r["res"], "numpy_agrees": r.get("np_ok"), "replay_py": replay_extract(c)})
    flagged = {id(v["case"]) for v in viol}
    for c, r in zip(ec, er, strict=True):
        if not failed(r) and r.get("np_ok") is False and id(c) not in flagged:
            spec_vs_numpy += 1
            viol.append({"property": "C09", "op": c["op"], "kind": "representation", "clause": "spec_differs_from_numpy",
                         "case": c, "impl": r["res"], "replay_py": replay_extract(c)})
        if not failed(r) and isinstance(r.get("np_ok"), str) and id(c) not in flagged:
            viol.append({"property": "C09", "op": c["op"], "kind": "value", "clause": "result_unreadable",
                         "case": c, "impl": r["res"], "todense": r["np_ok"], "replay_py": replay_extract(c)})

    # within a class the check reports the first violation: put informative, small cases first
    def weight(v):
        c = v.get("case", {})
        specs = c.get("members") or ([c["x"]] if "x" in c else [])
        nnz = sum(len(s["data"]) for s in specs)
        size = sum(len(s["shape"]) + sum(s["shape"]) for s in specs)
        exc = isinstance(v.get("impl"), dict) and v["impl"].get("k") == "exc"
        return (0 if (nnz > 0 or exc) else 1, len(specs), size, nnz)
    viol.sort(key=weight)

    cov = report["coverage"]
    cov["evaluations"] = len(jc) + len(ec) + len(sl)
    keyset = set()
    for c in jc:
        if any(s["data"] for s in c["members"]):
            keyset.add(json.dumps([c["fn"], c["axis"], c["caxes"], [(s["shape"], s["coords"], s["data"], s["fill"], s["format"], s.get("caxes")) for s in c["members"]]]))
    for c in ec:
        if c["x"]["data"]:
            keyset.add(json.dumps({k: v for k, v in c.items() if k != "as_array"}, sort_keys=True))
    cov["distinct_nontrivial"] = len(keyset)
    cov["rule"] = ("joins: for fn in concatenate/concat/stack x ndim x EVERY axis (negative, None) x format mix class x "
                   "1..5 members: seeded random shapes (extents 0..3 incl. empty members / length-0 axes), fills, "
                   "compressed axes; mixed-fill stream; index-dtype stream (extents crossing 127/255); kernel-level "
                   "indptr splice for every all-GCXS case.  extractors: triu/tril for EVERY k in [-n-1,n+1]; diagonal "
                   "for EVERY offset in [-n,n] x EVERY ordered pair of distinct axes (some spelled negatively); "
                   "diagonalize for every axis; take with int / list / array indices along every axis and None.  "
                   "distinct = distinct cases with at least one stored element")
    cov["exhaustive"] = False
    cov["samples"] = ([dict(case=jc[i], impl=jr[i].get("res") if jr[i] else None) for i in (0, len(jc) // 2)] +
                      [dict(case=ec[i], impl=er[i].get("res") if er[i] else None) for i in (len(ec) // 3, len(ec) - 1)])
    cov["branch_tags"] = dict(sorted(tags.items()))
    cov["spec_vs_numpy_disagreements"] = spec_vs_numpy
    cov["unproved_statements"] = [
        "gcxs_stack_den states the member preparation by its meaning (coo_expand of tocoo, then from_coo); "
        "gcxs_stack_member_is_reshape proves that C08's transcription of GCXS.reshape + change_compressed_axes returns "
        "exactly that record, but the two are separate theorems (gcxs_stack itself does not call gcxs_reshape)",
        "take with axis=None on the real getitem path (x.flatten()[indices]): correspondence only "
        "(take_*_getitem_den cover every integer axis)",
        "triu / tril / diagonal / diagonalize for GCXS or DOK inputs: the theorems are about the COO the input is "
        "converted to (asCOO / as_coo, pinned in Gen/S_join.v); the conversion itself is C05's",
        "conversion of DOK members to COO inside the COO joiner (C05) and index dtype widths (C15; only the bound "
        "indptr_needed_bounds is proved here)",
    ]
    cov["differential_only"] = ["result dtype / index dtype upcast (can_store, np.min_scalar_type): exercised, "
                                "compared through the dense values only"]
    return viol


def replay(path):
    v = json.load(open(path))
    print(json.dumps({k: v[k] for k in v if k != "case"}, indent=1)[:3000])
    if "replay_py" in v:
        import subprocess
        p = subprocess.run([vlib.PY, "-c", v["replay_py"]], env=vlib.env_clean(), capture_output=True, text=True,
                           timeout=300)
        print(p.stdout, p.stderr[-800:])
    return 0
